import socket, threading, sys, time, os, gc
sys.path.insert(0, sys.argv[1])
from lomond.websocket import WebSocket
srv = socket.socket(); srv.bind(('127.0.0.1', 0)); srv.listen(1)
port = srv.getsockname()[1]
state = {}
def serve():
    c, _ = srv.accept()
    c.recv(4096)
    c.sendall(b'HTTP/1.1 407 Proxy Authentication Required\r\n\r\n')
    c.settimeout(1.0)
    try:
        state['peer_saw'] = 'EOF' if c.recv(10) == b'' else 'data'
    except socket.timeout:
        state['peer_saw'] = 'still open after 1 s'
    state['done'] = True
threading.Thread(target=serve, daemon=True).start()
def nfds(): return len(os.listdir('/proc/self/fd'))
before = nfds()
ws = WebSocket('ws://example.invalid/', proxies={'http': 'http://127.0.0.1:%d' % port})
for ev in ws.connect():
    if ev.name == 'connect_fail':
        gc.collect()
        print('at ConnectFail:', ev.reason[:50], '| fds', before, '->', nfds())
        while not state.get('done'): time.sleep(0.05)
        print('proxy side, while the consumer holds the ConnectFail event:', state['peer_saw'])
