import socket, struct, time
from lomond.websocket import WebSocket
from lomond.session import WebsocketSession
srv = socket.socket(); srv.bind(('127.0.0.1', 0)); srv.listen(1)
c = socket.create_connection(srv.getsockname())
a, _ = srv.accept()
a.setsockopt(socket.SOL_SOCKET, socket.SO_LINGER, struct.pack('ii', 1, 0))
a.close()   # RST
time.sleep(0.1)
try:
    c.recv(10)
except Exception as e:
    print('recv:', repr(e))
ws = WebSocket('ws://127.0.0.1/')
s = WebsocketSession(ws)
s._sock = c
s._close_socket()
print('session._sock:', s._sock, ' fileno after _close_socket:', c.fileno(), '(-1 = closed)')
