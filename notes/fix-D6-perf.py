"""Cost of the D6 repair: python notes/fix-D6-perf.py <path to a lomond checkout>  (prints decompress()-level and receive-path timings)"""
import sys, time, zlib, random
sys.path.insert(0, sys.argv[1])
import lomond.compression as c
from lomond.frame import Frame
print(c.__file__)
rng = random.Random(1)
words = [b'the', b'quick', b'brown', b'fox', b'{"id":', b'"value":', b'null', b'websocket', b' ', b', ', b'0123456789']
def msg(n):
    out = bytearray()
    while len(out) < n:
        out += rng.choice(words) if rng.random() < 0.7 else rng.randbytes(8)
    return bytes(out[:n])
for size, wbits, reset in ((1024, 15, False), (1024, 15, True), (1024, 9, False), (64, 15, False), (65536, 15, False)):
    n = 2000 if size <= 1024 else 200
    peer = zlib.compressobj(6, zlib.DEFLATED, -wbits)
    frames = []
    for _ in range(n):
        z = peer.compress(msg(size)) + peer.flush(zlib.Z_SYNC_FLUSH)
        frames.append([Frame(2, z[:-4])])
        if reset:
            peer = zlib.compressobj(6, zlib.DEFLATED, -wbits)
    best = None
    for rep in range(7):
        d = c.Deflate(wbits, 15, reset, False)
        t = time.perf_counter()
        for f in frames:
            d.decompress(f)
        dt = time.perf_counter() - t
        best = dt if best is None else min(best, dt)
    print('%d msgs x %d B, wbits=%d, no_context_takeover=%s: %.2f ms total, %.2f us/msg' % (n, size, wbits, reset, best * 1e3, best / n * 1e6))
