import sys, time, zlib, random, struct
sys.path.insert(0, sys.argv[1])
import lomond.compression as c
from lomond.stream import WebsocketStream
rng = random.Random(1)
words = [b'the', b'quick', b'brown', b'fox', b'{"id":', b'"value":', b'null', b'websocket', b' ', b', ', b'0123456789']
def msg(n):
    out = bytearray()
    while len(out) < n:
        out += rng.choice(words) if rng.random() < 0.7 else rng.randbytes(8)
    return bytes(out[:n])
def frame(payload):
    n = len(payload)
    hdr = bytes([0xC2, n]) if n < 126 else bytes([0xC2, 126]) + struct.pack('!H', n)
    return hdr + payload
n = 2000
peer = zlib.compressobj(6, zlib.DEFLATED, -15)
wire = b''.join(frame((peer.compress(msg(1024)) + peer.flush(zlib.Z_SYNC_FLUSH))[:-4]) for _ in range(n))
best = None
for rep in range(7):
    st = WebsocketStream()
    list(st.feed(b'HTTP/1.1 101 S\r\n\r\n'))
    st.set_compression(c.Deflate(15, 15, False, False))
    t = time.perf_counter()
    k = 0
    for i in range(0, len(wire), 65536):
        for m in st.feed(wire[i:i + 65536]):
            k += 1
    dt = time.perf_counter() - t
    assert k == n
    best = dt if best is None else min(best, dt)
print('%s: full receive path (parser+stream+inflate), %d compressed 1 KiB binary messages: %.1f ms total, %.1f us/msg' % (c.__file__, n, best * 1e3, best / n * 1e6))
