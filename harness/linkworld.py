"""The real side of the COMPOSED connection model (Model/ConnectLink.lean, driver op `link`).

One whole connection of the real `WebsocketSession.run()` with the real `_connect`, `_connect_proxy`,
`_connect_sock` (nothing of the connection phase is replaced): the `socket` module that `lomond.session` sees is a
simulated one (`getaddrinfo` + one scripted outcome per resolved address), the socket of the first address that
connects first serves the proxy dialogue (`sendall` / `recv(1024)` from a read script) and is then the simulated
socket of `harness/world.py` (selector, `recv_into`, clock) for the rest of the connection.  The canonical trace is

    core tokens as in world.py  |  P:<token of props/c19.py> for what `_connect()` does  |  S:<socket-module call>

and is compared token by token with `ConnectLink.attempt` (the `link` op of the model driver): the composed trace
`ConnectLink.composed`, or - when `recv` is called on a socket without a timeout and the proxy stays silent - the trace up to
that call followed by `P:R:BLOCKS-FOREVER HUNG:...` (model outcome `Attempt.hung`; code shape `block=` from the probe
`blocks_before_tunnel()`).

Outside this composition (covered by the checks of the parts): `https://` proxies and direct `wss://` connections
(`_connect_sock(ssl=True)` wraps every candidate socket before `connect()`; the Proxy model logs only the wrap over the
tunnel), reads longer than 1024 bytes, proxy URLs that do not parse.
"""
from __future__ import annotations
import socket as real_socket
import random

import world as W
import coreutil
import gen_core
from coreutil import reads as mkreads

OK200 = b'HTTP/1.1 200 OK\r\n\r\n'


def _s(x):
    return 'N' if x is None else 's' + x.encode('utf-8').hex()


# ---------------------------------------------------------------------------------------------
# real side

class BlocksForever(BaseException):
    """a simulated system call that would never return (not an Exception: nothing in lomond may swallow it)"""


def run_link(case):
    """case: dict(url, http, https: proxy URL or None, gai: None | [ok|sfail|cfail ...],
                  reads: [['d', hex] | ['x'] | ['t']], wrap: bool, sc: scenario json (conn = ok | selfail;
                  wfail counts the sendalls of the whole connection))
       returns the canonical trace line"""
    import lomond.session as S
    from lomond.session import WebsocketSession
    from lomond.websocket import WebSocket
    import lomond.events as _events
    import lomond.frame as _frame
    import lomond.websocket as _websocket

    sc = coreutil.scenario_from_json(case['sc'])
    world = W.World(sc)
    world.canon_write = W._canon_write_factory(world)
    world.phase = 'idle'
    reads = [tuple(r) for r in case['reads']]
    gai = case['gai']
    counter = [0]
    wraps = [0]

    class LinkSock(W.FakeSocket):
        def __init__(self, idx):
            W.FakeSocket.__init__(self, world)
            self.idx = idx
            self.connected = False
            self.timeout = None      # as set by settimeout(); a new socket blocks

        def settimeout(self, t):
            self.timeout = t

        def connect(self, sa):
            world.log('S:connect%d' % self.idx)
            if gai[self.idx] == 'cfail':
                raise real_socket.error(111, 'simulated: connection refused' + W.HOSTILE)
            self.connected = True

        def close(self):
            # closed inside `_connect()` (a candidate whose connect() failed; the repaired `_connect_proxy` / `_connect_sock`
            # giving up on a socket): a socket-module call `S:close<i>`; closed by the session afterwards: `SC` as in world.py
            if world.phase == 'connect' or not self.connected:
                if not self.closed:
                    self.closed = True
                    world.log('S:close%d' % self.idx)
            else:
                W.FakeSocket.close(self)

        def sendall(self, data):
            if world.phase != 'connect':
                return W.FakeSocket.sendall(self, data)
            k = world.write_ctr
            world.write_ctr += 1
            data = bytes(data)
            if k in sc.wfail:
                world.log('P:WF:0:' + data.hex())
                raise real_socket.error(104, 'simulated write failure' + W.HOSTILE)
            world.log('P:W:0:' + data.hex())

        def recv(self, n):
            if not reads or reads[0][0] == 't':
                # the proxy stays silent: recv() raises socket.timeout when the socket's timeout runs out - and never returns
                # when the socket has been put into blocking mode (timeout None) before the negotiation is over
                if self.timeout is None:
                    world.log('P:R:BLOCKS-FOREVER')
                    raise BlocksForever()
            if not reads:
                world.log('P:R:timeout')
                raise real_socket.timeout('timed out')
            o = reads.pop(0)
            if o[0] == 'x':
                world.log('P:R:err')
                raise real_socket.error(104, 'simulated recv failure' + W.HOSTILE)
            if o[0] == 't':
                world.log('P:R:timeout')
                raise real_socket.timeout('timed out')
            data = bytes.fromhex(o[1])
            assert len(data) <= n
            world.log('P:R:' + data.hex())
            return data

    class FakeSocketModule:
        error = real_socket.error
        timeout = real_socket.timeout
        AF_UNSPEC, SOCK_STREAM, IPPROTO_TCP, TCP_NODELAY, SHUT_RDWR = 0, 1, 6, 1, 2

        @staticmethod
        def getaddrinfo(host, port, fam, typ):
            if gai is None:
                raise real_socket.error(-2, 'Name or service not known' + W.HOSTILE)
            return [(2, 1, 6, '', ('10.0.0.%d' % i, port)) for i in range(len(gai))]

        @staticmethod
        def socket(af, typ, proto):
            i = counter[0]
            counter[0] += 1
            world.log('S:socket%d' % i)
            if gai[i] == 'sfail':
                raise real_socket.error(24, 'simulated: too many open files' + W.HOSTILE)
            return LinkSock(i)

    class LinkSession(WebsocketSession):
        _selector_cls = W.FakeSelector

        def _connect(self):
            world.phase = 'connect'
            try:
                r = WebsocketSession._connect(self)       # the real one
            finally:
                world.phase = 'core'
            world.session = self
            world.sock_open = True
            world.fsock = r[0]
            return r

        def _connect_sock(self, host, port, ssl=False):
            world.log('P:C:%s:%d:%d' % (_s(host), port, 1 if ssl else 0))
            return WebsocketSession._connect_sock(self, host, port, ssl)      # the real one

        def _wrap_socket(self, sock, host):
            n = wraps[0]
            wraps[0] += 1
            ok = bool(case['wrap']) or n != case.get('wrap_fail_call', 0)
            world.log('P:T:%s:%d' % (_s(host), 1 if ok else 0))
            if not ok:
                raise real_socket.error(1, 'simulated TLS failure' + W.HOSTILE)
            return sock

    class TimeShim:
        @staticmethod
        def time():
            return world.clock.t

    def next_key():
        k = world.key_ctr
        world.key_ctr += 1
        return W.test_key(k)

    saved = (S.time, _events.time, _frame.make_masking_key, _websocket.os.urandom, S.socket)
    try:
        S.time = TimeShim
        _events.time = TimeShim
        _frame.make_masking_key = next_key
        _websocket.os.urandom = lambda n: sc.key_bytes()[:n]
        S.socket = FakeSocketModule
        proxies = {}
        if case.get('http'):
            proxies['http'] = case['http']
        if case.get('https'):
            proxies['https'] = case['https']
        ws = WebSocket(case['url'], proxies=proxies, protocols=sc.protocols or None, compress=sc.compress)
        try:
            return W._run_one(ws, sc, world, None, LinkSession)
        except BlocksForever:
            return ' '.join(world.trace + ['HUNG:recv-on-a-blocking-socket-and-the-proxy-is-silent'])
    finally:
        S.time, _events.time, _frame.make_masking_key, _websocket.os.urandom, S.socket = saved


def run_link_safe(case):
    try:
        return run_link(case)
    except Exception as e:  # noqa
        return 'HARNESS-CRASH:%s:%s' % (type(e).__name__, str(e)[:200].replace(' ', '_'))


# ---------------------------------------------------------------------------------------------
# variant detection (finding D11): does the real `_connect_proxy` close its socket when the tunnel fails?

_PCLOSE = None


def proxy_closes_on_failure():
    """Probe, as `world.bfinal_safe()` for D6: the real `_connect_proxy` against a proxy that answers 407.  The pinned code
       raises ProxyFail and leaves the connected socket open (only garbage collection closes it); the repaired code calls
       close() before the exception propagates.  The model driver is given the matching shape (`pclose=` of the `link` op)."""
    global _PCLOSE
    if _PCLOSE is None:
        import lomond.session as S
        from lomond.websocket import WebSocket
        st = dict(closed=False)

        class Sock(object):
            def settimeout(self, t): pass
            def setsockopt(self, *a): pass
            def sendall(self, data): pass
            def recv(self, n): return b'HTTP/1.1 407 Proxy Authentication Required\r\n\r\n'
            def shutdown(self, how): pass
            def close(self): st['closed'] = True

        class Probe(S.WebsocketSession):
            def _connect_sock(self, host, port, ssl=False):
                return Sock()

        try:
            Probe(WebSocket('ws://example.com/', proxies={'http': 'http://proxy.example:3128'}))._connect_proxy('http://proxy.example:3128')
        except Exception:  # noqa -- ProxyFail is the expected outcome
            pass
        _PCLOSE = st['closed']
    return _PCLOSE


# ---------------------------------------------------------------------------------------------
# variant detection (seeded change C19-r4m2): is the socket already in blocking mode while `_connect_proxy` negotiates?

_BLOCK = None


def blocks_before_tunnel():
    """Probe (no source inspection): the real `_connect` -> `_connect_proxy` -> `_connect_sock` of the code under test on a stub
       `socket` module whose one socket records the timeout that is in force when `recv` is called for the first time (the
       proxy answers 200 at once, so the probe itself never waits).  Pinned order: `_connect_sock` has set 30 s and
       `settimeout(None)` comes only after `_connect_proxy` returned -> False.  With `settimeout(None)` anywhere before the
       first `recv` (end of `_connect_sock`, start of `_connect_proxy`, ...) -> True: a silent proxy then blocks `recv` for
       ever.  The model driver is given the matching shape (`block=` of the `link` op; `Inputs.blockBeforeTunnel`)."""
    global _BLOCK
    if _BLOCK is None:
        import lomond.session as S
        from lomond.websocket import WebSocket
        st = dict(timeout='never-set', at_first_recv='no-recv')

        class Sock(object):
            def settimeout(self, t): st['timeout'] = t
            def setsockopt(self, *a): pass
            def connect(self, sa): pass
            def sendall(self, data): pass
            def shutdown(self, how): pass
            def close(self): pass

            def recv(self, n):
                if st['at_first_recv'] == 'no-recv':
                    st['at_first_recv'] = st['timeout']
                return OK200

        class Mod(object):
            error = real_socket.error
            timeout = real_socket.timeout
            AF_UNSPEC, SOCK_STREAM, IPPROTO_TCP, TCP_NODELAY, SHUT_RDWR = 0, 1, 6, 1, 2

            @staticmethod
            def getaddrinfo(host, port, fam, typ):
                return [(2, 1, 6, '', ('10.0.0.1', port))]

            @staticmethod
            def socket(af, typ, proto):
                st['timeout'] = None              # a new socket is in blocking mode
                return Sock()

        saved = S.socket
        try:
            S.socket = Mod
            S.WebsocketSession(WebSocket('ws://example.com/', proxies={'http': 'http://proxy.example:3128'}))._connect()
        except Exception:  # noqa -- whatever a changed `_connect` raises: judged by what was recorded
            pass
        finally:
            S.socket = saved
        if st['at_first_recv'] == 'no-recv':
            raise RuntimeError('probe blocks_before_tunnel: the real _connect never called recv() on the proxy socket')
        _BLOCK = st['at_first_recv'] is None
    return _BLOCK


# ---------------------------------------------------------------------------------------------
# model line

def link_line(case):
    sc = coreutil.scenario_from_json(case['sc'])
    core = W.scenario_line(sc)           # 'core <cfg> | <env> | <reactions>'  (the request is built for sc.url = case url)
    assert core.startswith('core ')
    opt = lambda u: '-' if not u else u.encode('utf-8').hex()
    gai = case['gai']
    head = 'link url=%s http=%s https=%s wrap=%d sel=%d pclose=%d block=%d gai=%s' % (
        case['url'].encode('utf-8').hex(), opt(case.get('http')), opt(case.get('https')), 1 if case['wrap'] else 0,
        0 if sc.conn == 'selfail' else 1, 1 if proxy_closes_on_failure() else 0, 1 if blocks_before_tunnel() else 0,
        '-' if gai is None else ','.join(gai))
    rd = ' '.join('x' if r[0] == 'x' else 't' if r[0] == 't' else 'd' + r[1] for r in case['reads'])
    return head + ' | ' + rd + ' | ' + core[5:]


# ---------------------------------------------------------------------------------------------
# generators

def gen_gai(rng, want_ok=None):
    """outcome of getaddrinfo and of each address"""
    r = rng.random()
    if want_ok is None:
        want_ok = r < 0.75
    if not want_ok:
        if r > 0.93:
            return None                                   # the name does not resolve
        n = rng.choice([0, 1, 2, 3])
        return [rng.choice(['sfail', 'cfail']) for _ in range(n)]
    pre = [rng.choice(['sfail', 'cfail']) for _ in range(rng.choice([0, 0, 1, 2]))]
    post = [rng.choice(['ok', 'sfail', 'cfail']) for _ in range(rng.choice([0, 0, 1]))]
    return pre + ['ok'] + post


def gen_proxy_reads(rng):
    """(name, reads): the proxy's answer as a script of recv results"""
    def cut(data):
        if len(data) < 2 or rng.random() < 0.4:
            return [['d', data.hex()]]
        k = rng.randrange(1, len(data))
        return [['d', data[:k].hex()], ['d', data[k:].hex()]]
    r = rng.random()
    if r < 0.55:
        body = rng.choice([OK200, b'HTTP/1.0 200 Connection established\r\nVia: x\r\n\r\n', b'HTTP/1.1 200\r\n\r\n'])
        return 'ok200', cut(body) + ([['x']] if rng.random() < 0.3 else [])
    if r < 0.7:
        return 'status', cut(rng.choice([b'HTTP/1.1 407 Proxy Authentication Required\r\n\r\n', b'HTTP/1.1 502 Bad\r\n\r\n',
                                          b'HTTP/1.1 2000 x\r\n\r\n', b'garbage\r\n\r\n']))
    if r < 0.8:
        return 'eof', cut(OK200[:rng.randrange(0, len(OK200) - 1)]) + [['d', '']]
    if r < 0.88:
        return 'readerr', cut(OK200[:rng.randrange(1, len(OK200) - 1)]) + [['x']]
    if r < 0.95:
        return 'timeout', cut(OK200[:rng.randrange(1, len(OK200) - 1)]) + ([['t']] if rng.random() < 0.5 else [])
    return 'toolong', [['d', (b'HTTP/1.1 200 OK\r\nX: ' + b'a' * 1000).hex()] for _ in range(18)]


def gen_link_case(rng, mode):
    """mode: 'proxy' | 'direct'"""
    for _ in range(50):
        sc = gen_core.gen_history(rng, n_steps=rng.randint(0, 4), timers=rng.random() < 0.3, p_good=0.85)
        if sc.tdiv == 1:
            break
    secure = (mode == 'proxy') and rng.random() < 0.4
    host = rng.choice(['example.com', 'Example.COM', 'a.b.example', '10.1.2.3'])
    port = rng.choice(['', '', ':8080', ':443', ':80'])
    sc.url = ('wss://' if secure else 'ws://') + host + port + rng.choice(['/', '/chat', '/a?b=c'])
    sc.conn = 'selfail' if rng.random() < 0.06 else 'ok'
    case = dict(url=sc.url, http=None, https=None, wrap=rng.random() < 0.85, reads=[], gai=gen_gai(rng), name=mode)
    core_wfail = set(sc.wfail)
    if mode == 'proxy':
        purl = rng.choice(['http://proxy.example:3128', 'http://user:pw@Proxy.example', 'http://10.0.0.9:8080/', 'http://p.example:0'])
        case['https' if secure else 'http'] = purl
        if rng.random() < 0.15:                        # an entry for the other scheme is irrelevant
            case['http' if secure else 'https'] = 'http://other.example:1'
        name, case['reads'] = gen_proxy_reads(rng)
        case['name'] = 'proxy:' + name
        sc.wfail = set(k + 1 for k in core_wfail)     # sendall 0 of the connection is the CONNECT request
        if rng.random() < 0.07:
            sc.wfail.add(0)
    else:
        if rng.random() < 0.1:                          # entries for the other scheme / empty entries do not enable a proxy
            case['https'] = 'http://other.example:1'
        if rng.random() < 0.05:
            case['http'] = ''
    if rng.random() < 0.08:
        sc.wfail.add(1 if mode == 'proxy' else 0)       # the upgrade request cannot be written
    if rng.random() < 0.1:                              # the application acts (or stops) at Connecting
        sc.reactions = dict(sc.reactions)
        sc.reactions[0] = [rng.choice([('abandon', 'break'), ('send_text', ('s', [104, 105]), False),
                                       ('close', 1000, ('b', b'')), ('session_close',)])]
    case['sc'] = coreutil.scenario_to_json(sc)
    return case


# ---------------------------------------------------------------------------------------------
# oracle over the real composed trace (written from the property texts of C19 and C09; no model)

def _is_core_write(t):
    return t.startswith('W:') or t.startswith('WF:') or t.startswith('Z:') or t.startswith('W!')


def oracle(case, trace):
    """returns None or (cls, what)"""
    tk = trace.split(' ')
    proxy = case.get('https' if case['url'].startswith('wss') else 'http')
    first_w = next((i for i, t in enumerate(tk) if _is_core_write(t)), None)
    events = [t for t in tk if t.startswith('E:')]
    if proxy:
        # C19: nothing of the handshake before the proxy has answered 200
        if first_w is not None:
            rx = b''.join(bytes.fromhex(t[4:]) for t in tk[:first_w] if t.startswith('P:R:') and t[4:] not in ('err', 'timeout'))
            end = rx.find(b'\r\n\r\n')
            line = rx.split(b'\r\n')[0].split(None, 2) if end >= 0 else []
            if end < 0 or len(line) < 2 or line[1] != b'200':
                return ('handshake-before-200', 'a write of the websocket layer at token %d although the proxy had not answered 200: %r' % (first_w, rx[:80]))
            if not any(t.startswith('P:W:0:434f4e4e45435420') for t in tk[:first_w]):
                return ('handshake-before-connect', 'a write of the websocket layer before any CONNECT request')
            if any(t.startswith('P:') or t.startswith('S:') for t in tk[first_w:]):
                return ('connect-after-handshake', 'connection-phase activity after the first write of the websocket layer')
        connected = [e for e in events if e.startswith('E:connected:')]
        if connected and connected[0] != 'E:connected:1':
            return ('proxy-not-reported', 'Connected does not report the proxy')
        if connected and first_w is None:
            return ('connected-without-request', 'Connected without an upgrade request')
    else:
        if any(e.startswith('E:connected:1') for e in events):
            return ('proxy-reported', 'Connected reports a proxy although none is configured')
    # C09: every address is tried before giving up; a socket whose connect() failed is closed
    gai = case['gai']
    if 'E:connect_fail:connect-failed' in events and gai is not None and not proxy:
        socks = [t for t in tk if t.startswith('S:socket')]
        if socks != ['S:socket%d' % i for i in range(len(gai))]:
            return ('address-not-tried', 'ConnectFail although not every address was tried: %s of %d' % (socks, len(gai)))
    for i, t in enumerate(tk):
        if t.startswith('S:connect') and gai[int(t[9:])] == 'cfail':
            if 'S:close' + t[9:] not in tk[i:]:
                return ('socket-not-closed', 'the socket of address %s failed to connect and was never closed' % t[9:])
    if any(t.startswith('ESCAPED:') for t in tk):
        return ('escaped', 'an exception left the event iterator: %s' % [t for t in tk if t.startswith('ESCAPED:')])
    term = [e for e in events if e.startswith('E:connect_fail') or e.startswith('E:disconnected')]
    if len(term) > 1:
        return ('two-terminals', 'more than one terminal event: %s' % term)
    return None


def oracle_closed(case, trace):
    """C09, "... It produces ConnectFail before the connection is up ... and the socket is closed": when the terminal
       ConnectFail is delivered, every socket object the connection phase had created - in particular the one that had
       connected successfully, to the proxy or to an address of the target - has been closed (`S:close<i>` inside `_connect()`,
       `SC` by the session afterwards).  Garbage collection closing it later does not count: the generator is suspended at
       `yield ConnectFail` with the exception (and through its traceback the frame that holds the socket) still alive.
       returns None or (cls, what)"""
    tk = trace.split(' ')
    gai = case['gai']
    p = next((i for i, t in enumerate(tk) if t.startswith('E:connect_fail')), None)
    if p is None or gai is None:
        return None
    before = tk[:p]
    for t in before:
        if not t.startswith('S:socket'):
            continue
        i = int(t[8:])
        if gai[i] == 'sfail':
            continue                                  # socket() raised: there is no object
        connected = ('S:connect%d' % i) in before and gai[i] == 'ok'
        closed = ('S:close%d' % i) in before or (connected and 'SC' in before)
        if not closed:
            if connected:
                return ('socket-left-open', 'ConnectFail (%s) is delivered while the socket of address %d, which had connected, is still open: '
                        'nothing closed it between its connect() and the event' % (tk[p], i))
            return ('socket-left-open-unconnected', 'ConnectFail (%s) is delivered while the socket created for address %d is still open' % (tk[p], i))
    return None


def d11_cases():
    """finding D11, one hand-made connection per failure class of the tunnel after the TCP connect to the proxy succeeded"""
    from world import Scenario
    out = []

    def mk(name, url='ws://example.com/chat', reads=None, wfail=(), wrap=True, gai=('ok',)):
        sc = Scenario([], url=url, wfail=set(wfail))
        secure = url.startswith('wss')
        c = dict(url=url, http=None, https=None, wrap=wrap, reads=reads or [], gai=list(gai), name='d11:' + name,
                 sc=coreutil.scenario_to_json(sc))
        c['https' if secure else 'http'] = 'http://proxy.example:3128'
        out.append(c)
    d = lambda b: ['d', b.hex()]
    mk('status-407', reads=[d(b'HTTP/1.1 407 Proxy Authentication Required\r\n\r\n')])
    mk('recv-error', reads=[d(b'HTTP/1.1 2'), ['x']])
    mk('recv-timeout', reads=[d(b'HTTP/1.1 200 OK\r\n'), ['t']])
    mk('eof-before-header-end', reads=[d(b'HTTP/1.1 200 OK\r\n'), d(b'')])
    mk('oversize-reply', reads=[d(b'HTTP/1.1 200 OK\r\nX: ' + b'a' * 1000) for _ in range(18)])
    mk('connect-sendall-fails', wfail=(0,))
    mk('tls-wrap-fails', url='wss://example.com/chat', reads=[d(OK200)], wrap=False)
    mk('second-address-connects-407', reads=[d(b'HTTP/1.1 407 No\r\n\r\n')], gai=('cfail', 'ok'))
    return out


def gen_wss_direct_case(rng):
    """oracle-only (the composed model does not log the per-candidate TLS wrap of `_connect_sock(ssl=True)`): a direct wss://
       connection whose k-th `_wrap_socket` call raises"""
    case = gen_link_case(rng, 'direct')
    sc = coreutil.scenario_from_json(case['sc'])
    sc.url = 'wss://' + sc.url[len('ws://'):]
    case['url'] = sc.url
    case['http'] = case['https'] = None
    case['sc'] = coreutil.scenario_to_json(sc)
    case['gai'] = gen_gai(rng, want_ok=True)
    n_wraps = sum(1 for o in case['gai'] if o != 'sfail')
    case['wrap'] = rng.random() < 0.3
    case['wrap_fail_call'] = rng.randrange(max(n_wraps, 1))
    case['name'] = 'direct-wss:' + ('wrap-ok' if case['wrap'] else 'wrap-fails')
    return case


# ---------------------------------------------------------------------------------------------
# the stream used by props/c19.py (mode 'proxy') and props/c09.py (modes 'direct', 'proxy', 'direct-wss')

def explore_stream(res, rng, mode, n, model_ok, pid, judge_close=False):
    """n composed connections: real run vs `link` op of the model (diffs) + the oracles above (failures).
       `judge_close` (C09): also the socket-is-closed-at-ConnectFail oracle.  Mode 'direct-wss' is oracle-only."""
    import runner
    if mode == 'direct-wss':
        model_ok = False
        cases = [gen_wss_direct_case(rng) for _ in range(n)]
    else:
        cases = [gen_link_case(rng, mode) for _ in range(n)]
    reals = runner.parallel_map('linkworld', 'run_link_safe', cases, chunk=25)
    lines, idx = [], []
    for i, (case, r) in enumerate(zip(cases, reals)):
        if isinstance(r, dict) and '__crash__' in r:
            res.crashes.append(r)
            continue
        if r.startswith('HARNESS-CRASH'):
            res.crashes.append(dict(input=case, what=r))
            continue
        if 'INCOMPLETE' in r:
            res.count('link:incomplete-script')
        tk = r.split(' ')
        up = any(t.startswith('E:connected') for t in tk)
        res.case(('link', mode, repr(sorted(case.items(), key=lambda kv: kv[0]))), nontrivial=any(t.startswith('P:') for t in tk))
        res.count('stream:link-' + mode)
        res.count('link:' + case['name'])
        res.count('link:connected' if up else 'link:not-connected')
        if any(t.startswith('S:close') for t in tk):
            res.count('link:address-retried')
        v = oracle(case, r) if mode != 'direct-wss' else None
        if any(t.startswith('HUNG:') for t in tk):
            res.count('link:hung')            # compared with the model's `hung` outcome below like every other trace
            v = ('blocks-forever', 'the connection attempt never ends (neither ConnectFail nor Connected): recv() was called on a socket without a timeout while the proxy stays silent')
        if mode == 'direct-wss' and any(t.startswith('ESCAPED:') for t in tk):
            v = ('escaped', 'an exception left the event iterator: %s' % [t for t in tk if t.startswith('ESCAPED:')])
        if not v and judge_close:
            v = oracle_closed(case, r)
            if any(t.startswith('E:connect_fail') for t in tk):
                res.count('link:connect-fail-with-socket' if any(t.startswith('S:socket') for t in tk) else 'link:connect-fail-no-socket')
        if v:
            res.failures.append(dict(cls='link-' + v[0], what=v[1], input=dict(kind='link', case=case), observed=r[-1500:],
                                     expected='property text of %s over the composed connection' % pid))
        res.traces_validated += 1
        if mode != 'direct-wss':
            lines.append(link_line(case))
            idx.append(i)
    if model_ok and lines:
        for line, i, m in zip(lines, idx, runner.model_run(lines)):
            if reals[i] != m:
                res.diffs.append(dict(input=line[:3000], real=reals[i][-2000:], model=m[-2000:], case=cases[i]))
    if lines:
        res.samples.append(lines[0][:500])
