#!/usr/bin/env python3
"""Regenerates MANIFEST.json from the table below (kept in one place so it is always valid)."""
import json, os
HERE = os.path.dirname(os.path.abspath(__file__))
VERIF = os.path.dirname(HERE)
ALL = ['C%02d' % i for i in range(1, 20)]

CHECKS = {
 'C05': dict(
   technique='Lean 4 proof (DFA table regenerated from source = RFC 3629 recogniser, by induction over all byte strings) + differential correspondence',
   text='Kernel-checked theorems over the UTF-8 DFA table regenerated from lomond/utf8validator.py on every run: the DFA accepts exactly RFC 3629 well-formed strings, rejects exactly when no well-formed extension exists (fail-fast is exact), chunked validation equals one-shot validation, and the strict decoder is the exact inverse of the shortest-form encoder. Message-level verdict and fail-fast are tied to the code by running the real receive path and the hand-written core model on the same streams (every fragmentation / read split generated), with an independent RFC 3629 oracle judging the real output.',
   note='Trusted: Lean kernel (axioms propext, Quot.sound at most), harness/translate.py, the correspondence harness and its generators, CPython codec as second oracle. The message-level path (Model/Core.lean) is a hand-written model validated differentially, not verified; wsaccel validator not covered.',
   ref='6 C05'),
}

NOT_YET = 'check not built yet in this round (planned, see DESIGN.md section 6)'


def main():
    checks = []
    for pid in ALL:
        if pid not in CHECKS:
            continue
        c = CHECKS[pid]
        checks.append(dict(
            property_id=pid,
            quick_cmd='./check %s --tier quick' % pid,
            thorough_cmd='./check %s --tier thorough' % pid,
            evidence_file='evidence/%s.json' % pid,
            replay_cmd_template='./check %s --replay {path}' % pid,
            engine='lean4-proof+correspondence',
            level_claimed=dict(category='proof', text=c['text'], design_ref=c['ref']),
            level_note=c['note'],
            technique=c['technique']))
    m = dict(
        version=1,
        setup_cmd='cd lean && lake build Lomond lomond_model',
        hooks=dict(guard='LOMOND_VERIF', enable='no hooks: the real code is driven in-process through subclassing and module-attribute substitution (DESIGN.md 3.5)',
                   baseline_off_cmd='harness/baseline.sh', source_commits=[], add_only=True),
        engines=[dict(name='lean4-proof+correspondence', path='lean/ + harness/',
                      serves_properties=[c['property_id'] for c in checks],
                      kind_free_text='Lean 4 theorems over an executable model; model tied to /repo by a translator (tables, constants, attribute facts) and a differential correspondence check against the real code; independent oracles search for failing inputs')],
        checks=checks,
        not_applicable=[dict(property_id=p, reason=NOT_YET) for p in ALL if p not in CHECKS],
        notes='fix: commits in /repo repair defects found by the checks (see known_findings.json and DESIGN.md section 7).')
    with open(os.path.join(VERIF, 'MANIFEST.json'), 'w') as f:
        json.dump(m, f, indent=1)
    print('MANIFEST.json: %d checks, %d not_applicable' % (len(checks), len(m['not_applicable'])))


if __name__ == '__main__':
    main()
