#!/usr/bin/env python3
"""Regenerates MANIFEST.json from the table below (kept in one place so it is always valid)."""
import json, os
HERE = os.path.dirname(os.path.abspath(__file__))
VERIF = os.path.dirname(HERE)
ALL = ['C%02d' % i for i in range(1, 20)]

CHECKS = {
 'C01': dict(
   technique='Lean 4 proof (refinement: parser o any conforming serialisation = message list; induction over frames, fragments and items) + differential correspondence + independent encoder oracle',
   text='21 kernel-checked theorems about the core model, culminating in delivery: for every list of items a conforming server sends (Text/Binary messages in any fragmentation incl. empty fragments, Ping/Pong <= 125 bytes anywhere incl. between fragments, an optional final Close), every legal length form per frame (7-bit, 16-bit and 64-bit incl. non-minimal) and every payload size, the lazy feed loop returns normally and the message events appended to the trace are exactly the expected ones in completion order with byte-identical payloads (Text: its exact UTF-8 decoding), nothing dropped, duplicated, merged, split or reordered - and (delivery_any_segmentation) the same for every cut of the stream into reads. Supporting theorems: parse_one_frame for all three length forms, the consumer never touches the parser, the lazy loop equals a fold over the eager parser, reassembly of fragmented messages with interleaved control frames. Tied to the code by generated conforming streams (boundary sizes 0..65537, non-minimal encodings, fragmentations, control placement, segmentations) run on the real receive path and the model, expected events computed by an independent encoder.',
   note='Hypothesis of delivery: the application does not call close()/abandon and no ping/close timeout is due during the stream (those are C08/C13/C15). The clause that a payload never changes after its event was yielded is about aliasing of the receive buffer, not expressible in a pure model: checked by the harness (buffer poisoned between reads, events re-read at the end). Trusted: Lean kernel, core model validated differentially, refcodec.py encoder.',
   ref='6 C01'),
 'C02': dict(
   technique='Lean 4 proof (induction over the chunk-oriented parser loop: feedLoop (a++b) = feedLoop a then b) + differential correspondence + metamorphic real-vs-real oracle',
   text='Kernel-checked theorem that the model of Parser.feed\'s loop (bite = data[pos:pos+remaining], incremental UTF-8 validation threaded, buffer extended, grammar resumed when complete, whole lazy pipeline incl. the application\'s reaction run after every parser output) computes the same final system state - events, application reactions, bytes written, errors, decision to stop - for every two segmentations of the same bytes, from every state (frames phase). The model is tied to the code by running real lomond and the model on the same streams under whole / bytewise / random / ALL 2^(n-1) cut sets, and the real code is compared with itself across segmentations (model-free).',
   note='Proved for the frames phase (feedLoop) from any state; the header phase (read_until) and the housekeeping between two reads (_regular at a frozen clock) are covered by the correspondence and the metamorphic oracle only. Trusted: Lean kernel (propext, Classical.choice, Quot.sound), hand-written core model validated differentially, simulated socket/selector/clock.',
   ref='6 C02'),
 'C05': dict(
   technique='Lean 4 proof (DFA table regenerated from source = RFC 3629 recogniser, by induction over all byte strings) + differential correspondence',
   text='Kernel-checked theorems over the UTF-8 DFA table regenerated from lomond/utf8validator.py on every run: the DFA accepts exactly RFC 3629 well-formed strings, rejects exactly when no well-formed extension exists (fail-fast is exact), chunked validation equals one-shot validation, and the strict decoder is the exact inverse of the shortest-form encoder. Message-level verdict and fail-fast are tied to the code by running the real receive path and the hand-written core model on the same streams (every fragmentation / read split generated, control frames between fragments, extension negotiated), with an independent RFC 3629 oracle judging the real output.',
   note='Trusted: Lean kernel (axioms propext, Quot.sound at most), harness/translate.py, the correspondence harness and its generators, CPython codec as second oracle. The message-level path (Model/Core.lean) is a hand-written model validated differentially, not verified; wsaccel validator not covered.',
   ref='6 C05'),
 'C08': dict(
   technique='Lean 4 proof (global invariant over every function of the core model up to run(): at most one Close frame handed to the socket and nothing after it, for all cfg/react/env; exact computations of each handshake step) + differential correspondence',
   text='18 kernel-checked theorems about the core model: close() on an open websocket writes exactly one Close frame with the given code and reason and sets closing; every later send is refused with a WebSocketError and writes nothing; for EVERY configuration, application and environment script the trace of a connection contains at most one Close frame and no write at all after it (single_close_no_data_after, by an invariant proved for every function up to run()); a server Close yields Closing while sends are still accepted, then exactly one echo with the same code and reason, then EOF ends gracefully; a server Close after the client closed yields Closed, then closed, then a graceful Disconnected with the socket closed; messages are still delivered while closing. Tied to the code by 500 (quick) / 8000 (thorough) histories with close() at any event incl. before Ready, server Close variants, sends at any event, compared with the model and judged by wire-level rules written from the property.',
   note='Single-threaded histories only (threads: C12). The graceful-end theorems assume no timer fires in the same cycle (C15). Trusted: Lean kernel, core model validated differentially, simulated world.',
   ref='6 C08'),
 'C10': dict(
   technique='Lean 4 proof (on_response over every parsed header table and challenge; lift to wire bytes for a conforming-reply generator; independent request parser; header limit from the generated constant) + three-layer differential correspondence + hashlib oracle',
   text='26 kernel-checked theorems about the model of response.py / websocket.on_response / build_request and the header phase of the parser: Ready iff status = 101, lower(Upgrade) = websocket, accept present and equal to the challenge, extensions parse - for every header table (C10_ready_iff, strict comparison) and, for the comparison the code really performs, C10_ready_iff_present with the concrete witness C10_lenient_fails that a digest with swapped letter case is granted Ready (the recorded finding D5); the lift to wire bytes for any field order, name casing, optional whitespace and obs-fold (C10_ready_iff_wire); what Ready reports; the request read back by an independent parser is exactly GET resource HTTP/1.1 with the expected headers (C10_request_wellformed), key = base64 of the n-th random draw with round trip (C10_fresh_key, C10_key_roundtrip); header blocks above the generated 16384-byte limit, terminated or not, give the parse error; segmentation of the reply; consequences of not being Ready (Rejected / ProtocolError, socket closed, no Ready or message events) for every application. Tied to the code in three layers: Response+on_response, the request actually written by connect() on one object over several connects, whole connections through the simulated world; oracle: hashlib digest of the key parsed out of the request really written + independent RFC 7230/7692 readers.',
   note='KNOWN FINDING (open, recorded in known_findings.json, class accept-case-insensitive): the accept value is compared case-insensitively; cannot be repaired without editing the repository tests. SHA-1/base64 of the digest is a parameter (challenge) in the theorems; int() status forms like +101 are accepted by code and model alike and are outside the oracle. Trusted: Lean kernel, translator (header separator/limit, WS version), correspondence harness, hashlib.',
   ref='6 C10'),
 'C13': dict(
   technique='Lean 4 proof (post-condition of run() for every configuration, environment script and application, by composition of per-function state relations) + differential correspondence',
   text='Kernel-checked theorem abandon_releases: in the model of session.run() with all its generators, try/except/finally clauses and the GeneratorExit raised at whichever yield the consumer stops at, the connection always ends with socket and selector closed - for every configuration, every server behaviour and fault, every application reaction including abandoning at any event by any mechanism. A second theorem exhibits the leak of the pinned commit (abandon at Connected). The model is tied to the code by abandoning the real generator at every event index of many scenarios by close(), break+drop, exception in the handler and exception leaving a with-block, and comparing trace and final socket/selector state with the model; an independent oracle checks the simulated socket and selector were closed.',
   note='When CPython finalises a dropped generator (reference cycles, tracebacks) is runtime behaviour outside the model; the harness forces it with close() / gc.collect(). Trusted: Lean kernel, core model validated differentially, simulated world.',
   ref='6 C13'),
 'C16': dict(
   technique='Lean 4 proof (induction over the list of reconnection rounds; delays over exact rationals) + differential correspondence',
   text='14 kernel-checked theorems about a line-by-line model of persist(): every BackOff delay lies in [min_wait, max_wait], equals min + u*min(max-min, 2^k) with k the number of trailing attempts without Ready, events of every attempt pass through unchanged and in order followed by exactly one BackOff, the generator ends iff exit_event.wait returned true and right after that BackOff, never by itself, and connect() receives poll/ping_rate/ping_timeout as given (generated fact). Tied to the code by running the real persist() with scripted random() draws (dyadic, exact float arithmetic), a scripted exit event, scripted websockets and the real WebSocket on the simulated world.',
   note='Float rounding for non-dyadic parameters, the real threading.Event and real sleeping are outside the model. Trusted: Lean kernel, translator (persist->connect keyword facts), correspondence harness.',
   ref='6 C16'),
 'C17': dict(
   technique='Lean 4 proof (decidable statements over attribute-write facts regenerated from the source by the translator; the model constructs every connection from scratch) + differential correspondence (reconnect on a used object vs a fresh object)',
   text='The model builds each connection from its own arguments only (fresh_equiv, initial_state), so the theorem content is that this is faithful to the Python object: kernel-checked statements over facts re-extracted from /repo on every run - connect() starts with reset(), reset() assigns a new State, connect() creates a new session, the only attributes written on the WebSocket outside __init__ are state and attributes of state, every written state attribute is initialised by State.__init__, every attribute written on stream / frame parser / parser / session objects is assigned in their __init__, each model field is carried by an instance attribute, and no stateful class has class-level objects. Moving state out of State, dropping the reset, or making an attribute class-level breaks a theorem. Behaviourally: 20+ abnormal endings (mid-header, mid-frame, mid-fragment, mid-UTF-8, deflate negotiated, closing, rejected, failed, abandoned four ways, timers advanced) x next-connection histories on one real object, compared with the same history on a fresh object (model-free) and with the model.',
   note='The theorems are about the translator\'s facts (AST walk: attribute assignments self.x = ..., first statement of connect, class-level assignments); aliasing through other references or module-level state would escape them and is covered only by the behavioural correspondence. Trusted: Lean kernel, harness/translate.py, world.run_chain.',
   ref='6 C17'),
 'C18': dict(
   technique='Lean 4 proof (invariant over loop cycles of a transport/selector model, safety and liveness) + differential correspondence + real loopback TCP/TLS runs',
   text='9 kernel-checked theorems about a model of SelectorBase.wait + _recv + the receive loop over a plain and a TLS-like transport with timestamped arrivals: a wait never consumes virtual time while bytes are buffered in the kernel or decrypted-but-unread in the TLS layer, the chunks fed are a prefix of the arrivals in order (each <= BUFFER_SIZE, generated from source), every byte is fed at the tick it arrived and all bytes are eventually fed; and the variant without the pending() short-cut is proved to stall. Tied to the code by running the real SelectorBase.wait and the real session loop on simulated plain/TLS-like transports (bursts around 16 KiB and 64 KiB, hundreds of frames per record) and comparing the transport log with the model; real loopback TCP and TLS echo runs in the thorough tier.',
   note='PARTIAL: poll(2) level-triggering, recv_into semantics and OpenSSL record/pending() behaviour are modelled, validated only by the loopback runs; KQueueSelector/SelectSelector unreachable on this platform. Trusted: Lean kernel, transport model, correspondence harness.',
   ref='6 C18'),
 'C19': dict(
   technique='Lean 4 proof (I/O-log model of _connect/_connect_proxy/ProxyParser; all read scripts and socket outcomes) + differential correspondence',
   text='18 kernel-checked theorems about a model of proxy selection, the CONNECT request, the blocking reply loop over the generic parser (read_until with the generated 16 KiB bound) and the start of run(): every write other than the CONNECT request - in particular every byte of the WebSocket upgrade request, and the TLS wrap for wss - happens only after the reads so far contain a complete reply with status 200; any other status, an unterminated, oversized or empty reply or a socket error gives ConnectFail with nothing but the CONNECT request written; the CONNECT line names exactly the target host:port; proxy choice by scheme; Connected reports the proxy; independence of how the reply is segmented. Tied to the code by driving the real run() up to ConnectFail/Connected on a scripted proxy socket and comparing the ordered I/O log with the model.',
   note='urlparse is modelled for printable-ASCII URLs without IPv6 literals; _connect_sock and _wrap_socket are stubbed in the correspondence. Trusted: Lean kernel, translator (proxy separator / max_bytes), correspondence harness.',
   ref='6 C19'),
}

NOT_YET = 'not claimed yet: the correspondence+oracle check exists (./check Cxx) but its theorems are still being proved in this round (see DESIGN.md section 6)'


def main():
    checks = []
    for pid in ALL:
        if pid not in CHECKS:
            continue
        c = CHECKS[pid]
        checks.append(dict(
            property_id=pid,
            quick_cmd='./check %s --tier quick' % pid,
            thorough_cmd='./check %s --tier thorough' % pid,
            evidence_file='evidence/%s.json' % pid,
            replay_cmd_template='./check %s --replay {path}' % pid,
            engine='lean4-proof+correspondence',
            level_claimed=dict(category='proof', text=c['text'], design_ref=c['ref']),
            level_note=c['note'],
            technique=c['technique']))
    m = dict(
        version=1,
        setup_cmd='cd lean && lake build Lomond lomond_model',
        hooks=dict(guard='LOMOND_VERIF', enable='no hooks: the real code is driven in-process through subclassing and module-attribute substitution (DESIGN.md 3.5)',
                   baseline_off_cmd='harness/baseline.sh', source_commits=[], add_only=True),
        engines=[dict(name='lean4-proof+correspondence', path='lean/ + harness/',
                      serves_properties=[c['property_id'] for c in checks],
                      kind_free_text='Lean 4 theorems over an executable model; model tied to /repo by a translator (tables, constants, attribute facts) and a differential correspondence check against the real code; independent oracles search for failing inputs')],
        checks=checks,
        not_applicable=[dict(property_id=p, reason=NOT_YET) for p in ALL if p not in CHECKS],
        notes='fix: commits in /repo repair defects found by the checks (see known_findings.json and DESIGN.md section 7).')
    with open(os.path.join(VERIF, 'MANIFEST.json'), 'w') as f:
        json.dump(m, f, indent=1)
    print('MANIFEST.json: %d checks, %d not_applicable' % (len(checks), len(m['not_applicable'])))


if __name__ == '__main__':
    main()
