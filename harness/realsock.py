"""Runs of the real session on a REAL transport: a connected TCP loopback pair (or an AF_UNIX socketpair), the platform's real selector
(`lomond.selectors`: whatever `WebsocketSession._selector_cls` is, and each selector class the platform offers), the real clock.  The
harness plays the server from inside the consumer loop (single-threaded): after `Connected` it reads the request from its end, answers,
writes frames and ends the connection in one of several ways.  Oracle (C09 / C18; model-free): no exception leaves the iterator, the
run ends with Disconnected, every message written before the end is delivered, the client's socket is closed afterwards.
Wall-clock time is involved only through short poll intervals (0.05 s); a run takes a few milliseconds."""
from __future__ import annotations
import base64, hashlib, re, socket, struct, time

ENDINGS = ('fin', 'rst', 'fin-mid-frame', 'rst-mid-frame', 'fin-before-reply', 'rst-before-reply', 'silent-then-fin', 'close-handshake')


def tcp_pair():
    srv = socket.socket()
    srv.bind(('127.0.0.1', 0))
    srv.listen(1)
    c = socket.create_connection(srv.getsockname())
    a, _ = srv.accept()
    srv.close()
    return c, a


def server_frame(op, payload, fin=1):
    n = len(payload)
    head = bytes([(fin << 7) | op])
    if n < 126:
        head += bytes([n])
    elif n < 65536:
        head += bytes([126]) + struct.pack('!H', n)
    else:
        head += bytes([127]) + struct.pack('!Q', n)
    return head + payload


def run_one(item):
    """item = (selector class name | 'default', ending, transport 'tcp' | 'unix', number of messages)"""
    selname, ending, transport, nmsg = item
    import lomond.selectors as S
    from lomond import constants
    from lomond.session import WebsocketSession
    from lomond.websocket import WebSocket
    if transport == 'unix':
        if ending.startswith('rst'):
            return dict(skip='no RST on AF_UNIX')
        client, peer = socket.socketpair()
    else:
        client, peer = tcp_pair()
    selcls = None if selname == 'default' else getattr(S, selname, None)
    if selname != 'default' and selcls is None:
        return dict(skip='selector class %s not available' % selname)
    import select as _select
    need = {'KQueueSelector': 'kqueue', 'PollSelector': 'poll', 'EpollSelector': 'epoll'}.get(selname)
    if need and not hasattr(_select, need):
        return dict(skip='select.%s not on this platform' % need)

    class Sess(WebsocketSession):
        def _connect(self):
            return client, None
    if selcls is not None:
        Sess._selector_cls = selcls
    ws = WebSocket('ws://127.0.0.1/chat', proxies={})
    names, texts, escaped, t0 = [], [], None, time.time()
    msgs = [('message %d ' % i) * (1 + 60 * (i % 3)) for i in range(nmsg)]      # everything the server writes fits into the socket buffers (it writes while the client is not reading)

    def end(how):
        if how == 'rst':
            peer.setsockopt(socket.SOL_SOCKET, socket.SO_LINGER, struct.pack('ii', 1, 0))
        peer.close()
    server_err = None

    def serve(ev):
        """the server's part, played from inside the consumer loop"""
        if ev.name == 'connected':
            peer.settimeout(2)
            req = b''
            while b'\r\n\r\n' not in req:
                req += peer.recv(4096)
            m = re.search(rb'Sec-WebSocket-Key:[ \t]*([^\r\n]+)', req, re.I)
            accept = base64.b64encode(hashlib.sha1(m.group(1).strip() + constants.WS_KEY).digest())
            reply = b'HTTP/1.1 101 Switching Protocols\r\nUpgrade: websocket\r\nConnection: Upgrade\r\nSec-WebSocket-Accept: ' + accept + b'\r\n\r\n'
            body = b''.join(server_frame(1, t.encode()) for t in msgs)
            if ending.endswith('before-reply'):
                peer.sendall(reply[:40])
                end(ending[:3])
            elif ending.endswith('mid-frame'):
                peer.sendall(reply + body + server_frame(1, b'x' * 500)[:200])
                end(ending[:3])
            elif ending in ('fin', 'rst'):
                peer.sendall(reply + body)
                if ending == 'rst':
                    time.sleep(0.02)        # let the data arrive before the reset (a reset may discard what is in flight)
                end(ending)
            elif ending == 'silent-then-fin':
                peer.sendall(reply + body)
            elif ending == 'close-handshake':
                peer.sendall(reply + body + server_frame(8, struct.pack('!H', 1000) + b'bye'))
        elif ev.name == 'poll' and ending == 'silent-then-fin' and names.count('poll') == 3:
            end('fin')
        elif ev.name == 'closing' and ending == 'close-handshake':
            pass
        elif ev.name == 'poll' and ending == 'close-handshake' and names.count('poll') == 2:
            end('fin')
    try:
        for ev in ws.connect(session_class=Sess, poll=0.05, ping_rate=0, close_timeout=0.3):
            names.append(ev.name)
            if ev.name == 'text':
                texts.append(ev.text)
            if time.time() - t0 > 10:
                escaped = 'RUNAWAY'
                break
            try:
                serve(ev)
            except Exception as e:  # noqa - the harness's own server code failed (e.g. its socket timed out): not a verdict on lomond
                server_err = '%s: %s' % (type(e).__name__, str(e)[:80])
                break
    except Exception as e:  # noqa
        escaped = '%s: %s' % (type(e).__name__, str(e)[:120])
    try:
        peer.close()
    except Exception:  # noqa
        pass
    if server_err:
        try:
            client.close()
        except Exception:  # noqa
            pass
        return dict(skip='harness server side failed: ' + server_err)
    closed = client.fileno() == -1
    if not closed:
        client.close()
    return dict(names=names, texts=len(texts), texts_ok=texts == msgs[:len(texts)], sent=len(msgs), escaped=escaped, closed=closed,
                selector=(selcls or Sess._selector_cls).__name__)


def judge(item, r):
    """list of (cls, what)"""
    if 'skip' in r:
        return []
    selname, ending, transport, nmsg = item
    out = []
    if r['escaped']:
        out.append(('escaped-real-transport', 'real %s transport, %s, ending %s: an exception left the event iterator: %s (events %s)' % (transport, r['selector'], ending, r['escaped'], r['names'][-4:])))
        return out
    if not r['names'] or r['names'][-1] != 'disconnected':
        out.append(('no-disconnect-real-transport', 'real %s transport, %s, ending %s: the run did not end with Disconnected: %s' % (transport, r['selector'], ending, r['names'][-5:])))
    if not r['closed']:
        out.append(('socket-open-real-transport', 'real %s transport, %s, ending %s: the client socket is still open after the iteration ended' % (transport, r['selector'], ending)))
    if not r['texts_ok']:
        out.append(('delivery-real-transport', 'real transport: delivered texts differ from what was sent'))
    # everything the server wrote completely before an orderly end must be delivered (a reset may discard data in flight)
    if ending in ('fin', 'silent-then-fin', 'close-handshake', 'fin-mid-frame') and r['texts'] != r['sent']:
        out.append(('delivery-real-transport', 'real %s transport, %s, ending %s: %d of %d complete messages delivered before the connection ended' % (transport, r['selector'], ending, r['texts'], r['sent'])))
    return out


def explore(res, tier):
    import runner
    sels = ['default', 'SelectSelector', 'PollSelector', 'KQueueSelector', 'EpollSelector']
    items = [(s, e, t, n) for s in sels for e in ENDINGS for t in ('tcp', 'unix') for n in ((3,) if tier == 'quick' else (0, 3, 40))]
    outs = runner.parallel_map('realsock', 'run_one', items, chunk=6)
    for it, r in zip(items, outs):
        if isinstance(r, dict) and '__crash__' in r:
            res.crashes.append(r); continue
        if 'skip' in r:
            res.count('real_transport_skipped:' + r['skip'][:40]); continue
        res.case(('realsock',) + it, nontrivial=True); res.count('real_transport_runs'); res.count('real_transport:' + r['selector'])
        for cls, what in judge(it, r):
            res.failures.append(dict(cls=cls, what=what, input=dict(realsock=list(it)), observed=r['names'][-6:]))
