#!/usr/bin/env python3
"""Mutation self-test of harness/py2lean.py + the companion theorems Properties/Cxx_Gen.lean.

For every entry: copy $LOMOND_REPO (default /repo) to a scratch directory, apply one textual edit,
run the named checks with LOMOND_REPO pointing at the copy (this regenerates Generated/Code.lean),
then build every companion module against that Code.lean.  Expected: a behaviour-changing edit
('fail') makes the check print VIOLATION and a companion stop checking; a behaviour-preserving
rewrite ('pass') leaves everything OK.  Afterwards Generated/ is regenerated from the real tree.

    /venv/bin/python harness/genmut.py [M1 P3 ...]        (takes ~8 minutes for all)
"""
import os, shutil, subprocess, sys, hashlib, tempfile
W = os.path.dirname(os.path.dirname(os.path.abspath(__file__)))
SRC = os.environ.get('LOMOND_REPO', '/repo')
SCRATCH = tempfile.mkdtemp(prefix='genmut_')
CODE = W + '/lean/Lomond/Generated/Code.lean'
MUTS = [
 # id, file, old, new, checks, expect ('fail' | 'pass')
 ('M1-len126', 'frame.py', 'if length < 126:', 'if length <= 126:', ['C03'], 'fail'),
 ('M2-ctrl125', 'frame_parser.py', 'frame.is_control and payload_length > 125', 'frame.is_control and payload_length >= 125', ['C04'], 'fail'),
 ('M3-2timesretries', 'persist.py', '2**retries', '2*retries', ['C16'], 'fail'),
 ('M4-wbits15', 'compression.py', 'wbits > 15', 'wbits >= 15', ['C10'], 'fail'),
 ('M5-nextping-ge', 'session.py', 'session_time > self._next_ping', 'session_time >= self._next_ping', ['C15'], 'fail'),
 ('M6-ping125', 'websocket.py', "if len(data) > 125:\n            raise ValueError('ping", "if len(data) >= 125:\n            raise ValueError('ping", ['C03'], 'fail'),
 ('M7-code-ffff', 'websocket.py', 'not 0 <= code <= 0xffff', 'not 0 <= code < 0xffff', ['C03'], 'fail'),
 ('M8-opcode-mask', 'frame_parser.py', 'opcode = byte1 & 0b00001111', 'opcode = byte1 & 0b00011111', ['C04'], 'fail'),
 ('M9-proxy-port', 'session.py', "(443 if _proxy_url.scheme == 'https' else 80)", "(8443 if _proxy_url.scheme == 'https' else 80)", ['C19'], 'fail'),
 ('M10-outside-subset', 'frame.py', 'if length < 126:', "if length < int('126'):", ['C03'], 'fail'),
 ('M11-poll-gt', 'session.py', '_time - self._poll_start >= poll', '_time - self._poll_start > poll', ['C15'], 'fail'),
 ('M12-retries-reset', 'persist.py', "                retries = 0\n", "                retries = 1\n", ['C16'], 'fail'),
 ('M13-byte0-shift', 'frame.py', 'rsv1 << 6', 'rsv1 << 5', ['C03'], 'fail'),
 ('M14-compressed-rsv', 'frame.py', '        if self.rsv2 or self.rsv3:', '        if self.rsv3:', ['C04'], 'fail'),
 ('M15-len127', 'frame_parser.py', 'elif payload_length == 127:', 'elif payload_length == 125:', ['C04'], 'fail'),
 ('M16-pingtimeout-ge', 'session.py', 'time_since_last_pong > ping_timeout', 'time_since_last_pong >= ping_timeout', ['C15'], 'fail'),
 ('M17-closetimeout-gt', 'session.py', 'session_time >= sent_close_time + close_timeout', 'session_time > sent_close_time + close_timeout', ['C15'], 'fail'),
 ('M18-ws-port', 'websocket.py', "(443 if self.scheme == 'wss' else 80)", "(443 if self.scheme == 'wss' else 8080)", ['C10', 'C19'], 'fail'),
 ('M19-close-none', 'frame.py', "            return b''", "            return b'\\x03\\xe8'", ['C03'], 'fail'),
 ('M20-max8', 'compression.py', 'max(9, self.compress_wbits)', 'max(8, self.compress_wbits)', [], 'fail'),
 ('M21-retries-plus2', 'persist.py', 'retries += 1', 'retries += 2', ['C16'], 'fail'),
 ('M22-maskbit', 'frame.py', 'mask_bit = 1 << 7 if mask else 0', 'mask_bit = 1 << 6 if mask else 0', ['C03'], 'fail'),
 ('M23-text', 'frame.py', '"opcode is reserved"', '"reserved opcode"', ['C04'], 'fail'),
 # ---- sites added in round 3 (text state / reader, on_frame, _check_writable / write, on_disconnect / _on_close,
 #      from_options / get_wbits, on_response, Message.build / Close.from_payload, read_until accounting)
 ('N1-cont-not-text', 'frame_parser.py', 'if frame.is_text or _is_text_continuation:', 'if frame.is_text:', ['C05'], 'fail'),
 ('N2-readtext-d9', 'frame_parser.py', 'if self._compression and self._is_compressed:', 'if self._compression:', ['C05'], 'fail'),
 ('N3-istext-ctrl', 'frame_parser.py', 'if frame.fin and not frame.is_control:', 'if frame.fin:', ['C05'], 'fail'),
 ('N4-reset-nofin', 'frame_parser.py', "            and frame.fin\n            and (frame.is_text", "            and (frame.is_text", ['C05'], 'fail'),
 ('N5-iscompressed', 'frame_parser.py', 'self._is_compressed = bool(frame.rsv1)', 'self._is_compressed = bool(frame.rsv2)', ['C05'], 'fail'),
 ('N6-closed-kind', 'session.py', "raise errors.WebSocketClosed('data not sent')", "raise errors.WebSocketClosing('data not sent')", ['C08'], 'fail'),
 ('N7-read-order', 'session.py', "        is_closing = self.websocket.is_closing\n        if self.websocket.is_closed:\n            log.debug('WebSocket closed; data not sent')\n            raise errors.WebSocketClosed('data not sent')\n        if is_closing:",
  "        if self.websocket.is_closed:\n            log.debug('WebSocket closed; data not sent')\n            raise errors.WebSocketClosed('data not sent')\n        if self.websocket.is_closing:", ['C12'], 'fail'),
 ('N8-write-noflag', 'session.py', "            if closing:\n                self.websocket.state.closing = True", "            if closing:\n                pass", ['C08', 'C12'], 'fail'),
 ('N9-send-closing', 'session.py', 'closing=(opcode == Opcode.CLOSE)', 'closing=(opcode == Opcode.PING)', ['C08'], 'fail'),
 ('N10-disc-order', 'websocket.py', "        state.closed = True\n        state.closing = False", "        state.closing = False\n        state.closed = True", ['C12', 'C08'], 'fail'),
 ('N11-onclose-order', 'websocket.py', "            self.state.closed = True\n            self.state.closing = False", "            self.state.closing = False\n            self.state.closed = True", ['C12'], 'fail'),
 ('N12-onclose-noecho-flag', 'websocket.py', "            self.close(message.code, message.reason)\n            self.state.closing = True", "            self.close(message.code, message.reason)", ['C08'], 'fail'),
 ('N13-onclose-closed-first', 'websocket.py', "        if self.is_closed:\n            return\n        if self.is_closing:", "        if self.is_closing:", ['C08'], 'fail'),
 ('N14-options-swapped', 'compression.py', 'decompress_wbits = cls.get_wbits(options, "server_max_window_bits")', 'decompress_wbits = cls.get_wbits(options, "client_max_window_bits")', ['C06'], 'fail'),
 ('N15-default-14', 'compression.py', '_wbits = options.get(key, "15")', '_wbits = options.get(key, "14")', ['C06', 'C10'], 'fail'),
 ('N16-reset-swapped', 'compression.py', 'reset_compress = "client_no_context_takeover" in options', 'reset_compress = "server_no_context_takeover" in options', ['C06'], 'fail'),
 ('N17-ctor-order', 'compression.py', 'decompress_wbits, compress_wbits, reset_decompress, reset_compress\n        )\n        return deflate', 'compress_wbits, decompress_wbits, reset_decompress, reset_compress\n        )\n        return deflate', ['C06'], 'fail'),
 ('N18-status-200', 'websocket.py', 'if response.status_code != 101:', 'if response.status_code != 200:', ['C10'], 'fail'),
 ('N19-upgrade-nolower', 'websocket.py', "response.get('upgrade', '<header missing>').lower()", "response.get('upgrade', '<header missing>')", ['C10'], 'fail'),
 ('N20-accept-exact', 'websocket.py', 'if accept_header.lower() != challenge.lower():', 'if accept_header != challenge:', ['C10'], 'fail'),
 ('N21-accept-before-upgrade', 'websocket.py', "accept_header = response.get('sec-websocket-accept', None)", "accept_header = response.get('sec-websocket-key', None)", ['C10'], 'fail'),
 ('N22-ping-pong', 'message.py', "            return Ping(payload)\n        elif opcode == Opcode.PONG:\n            return Pong(payload)", "            return Pong(payload)\n        elif opcode == Opcode.PONG:\n            return Ping(payload)", ['C01'], 'fail'),
 ('N23-inflate-always', 'message.py', 'if first_frame.rsv1 and decompress:', 'if decompress:', ['C01'], 'fail'),
 ('N24-close-len2', 'message.py', 'elif len(payload) >= 2:', 'elif len(payload) > 2:', ['C08'], 'fail'),
 ('N25-close-code3', 'message.py', '(code,) = cls._unpack16(payload[:2])', '(code,) = cls._unpack16(payload[1:3])', ['C08'], 'fail'),
 ('N26-maxbytes-ge', 'parser.py', 'self.max_bytes is not None and pos > self.max_bytes', 'self.max_bytes is not None and pos >= self.max_bytes', ['C10'], 'fail'),
 ('N27-check-before-sep', 'parser.py', "                    sep_index += len(sep)\n                    _check_length(sep_index)", "                    _check_length(sep_index)\n                    sep_index += len(sep)", ['C10'], 'fail'),
 ('N28-masked-ok', 'frame_parser.py', '        if frame.mask:\n            log.warning(', '        if frame.mask and frame.is_control:\n            log.warning(', ['C04'], 'fail'),
 ('N29-reserved-code', 'websocket.py', 'if message.code in Status.invalid_codes:', 'if message.code is not None and message.code < 1000:', ['C08'], 'fail'),
 # ---- sites added for the send side (send_compressed's frame, Frame.to_bytes, make_masking_key, the key choice, send_json)
 ('R1-zframe-rsv1', 'session.py', 'payload=bytearray(compress(data)), rsv1=1)', 'payload=bytearray(compress(data)), rsv1=0)', ['C03'], 'fail'),
 ('R2-keylen-8', 'mask.py', 'partial(os.urandom, 4)', 'partial(os.urandom, 8)', ['C03'], 'fail'),
 ('R3-key-choice', 'frame.py', "                if masking_key is None\n", "                if masking_key is not None\n", ['C03'], 'fail'),
 ('R4-tobytes-rsv', 'frame.py', 'rsv1=self.rsv1,', 'rsv1=self.rsv2,', ['C03'], 'fail'),
 ('R5-json-guard', 'websocket.py', 'if kwargs and _obj is not Ellipsis:', 'if kwargs or _obj is not Ellipsis:', ['C03'], 'fail'),
 ('R6-json-which', 'websocket.py', 'json.dumps(_obj if _obj is not Ellipsis else kwargs)', 'json.dumps(kwargs if _obj is not Ellipsis else _obj)', ['C03'], 'fail'),
 ('R7-tobytes-fin', 'frame.py', "            payload=self.payload,\n            rsv1=self.rsv1,", "            payload=self.payload,\n            fin=self.fin,\n            rsv1=self.rsv1,", ['C03'], 'fail'),
 # ---- sites added by helper SITES (T = behaviour-changing, U = behaviour-preserving)
 ('T1-onevent-names', 'session.py', "        elif event.name == 'ping':\n            if auto_pong:", "        elif event.name == 'pong':\n            if auto_pong:", ['C15'], 'fail'),
 ('T2-onevent-autopong', 'session.py', "            if auto_pong:\n                self._send_pong(event)", "            if not auto_pong:\n                self._send_pong(event)", ['C15'], 'fail'),
 ('T3-onpong-zero', 'session.py', "        self._last_pong = self.session_time", "        self._last_pong = 0.0", ['C15'], 'fail'),
 ('T4-onready-nextping', 'session.py', "        self._next_ping = 0.0", "        self._next_ping = 30.0", ['C15'], 'fail'),
 ('T5-sessiontime-swapped', 'session.py', "            time.time() - self._start_time", "            self._start_time - time.time()", ['C15'], 'fail'),
 ('T6-feed-closing', 'websocket.py', "        if self.is_closed:\n            return\n        # The state", "        if self.is_closing:\n            return\n        # The state", ['C08'], 'fail'),
 ('T7-active-or', 'websocket.py', "return not self.state.closing and not self.state.closed", "return not self.state.closing or not self.state.closed", ['C08'], 'fail'),
 ('T8-binary-always-z', 'websocket.py', "        if compress and self.state.compression:\n            self.session.send_compressed(\n                Opcode.BINARY", "        if self.state.compression:\n            self.session.send_compressed(\n                Opcode.BINARY", ['C06'], 'fail'),
 ('T9-text-or', 'websocket.py', "        if compress and self.state.compression:\n            self.session.send_compressed(\n                Opcode.TEXT", "        if compress or self.state.compression:\n            self.session.send_compressed(\n                Opcode.TEXT", ['C06'], 'fail'),
 ('T10-cont-order', 'stream.py', "if frame.is_continuation and not self._frames:", "if frame.is_continuation and self._frames:", ['C01'], 'fail'),
 ('T11-build-nofin', 'stream.py', "                if frame.fin:\n                    yield self.build_message(self._frames)", "                if not frame.fin:\n                    yield self.build_message(self._frames)", ['C01'], 'fail'),
 ('T12-text-errclass', 'message.py', "            raise errors.CriticalProtocolError(\n                'payload contains invalid utf-8; {}',", "            raise errors.ProtocolError(\n                'payload contains invalid utf-8; {}',", ['C01'], 'fail'),
 ('T13-sel-nopending', 'selectors.py', "if hasattr(self._socket, 'pending') and self._socket.pending():", "if hasattr(self._socket, 'pending') and not self._socket.pending():", ['C18'], 'fail'),
 ('T14-proxy-scheme', 'session.py', "'https' if self.websocket.is_secure else 'http'", "'http' if self.websocket.is_secure else 'https'", [], 'fail'),
 ('U1-onevent-reordered', 'session.py', "            self._on_ready()\n            self._ready = True", "            self._ready = True\n            self._on_ready()", ['C15'], 'pass'),
 ('U2-onready-int', 'session.py', "        self._next_ping = 0.0", "        self._next_ping = 0", ['C15'], 'pass'),
 ('U3-sessiontime-flipped', 'session.py', "            0.0\n            if self._start_time is None else\n            time.time() - self._start_time", "            time.time() - self._start_time\n            if self._start_time is not None else\n            0.0", ['C15'], 'pass'),
 ('U4-feed-not', 'websocket.py', "        if self.is_closed:\n            return\n        # The state", "        if self.state.closed:\n            return\n        # The state", ['C08'], 'pass'),
 ('U5-active-demorgan', 'websocket.py', "return not self.state.closing and not self.state.closed", "return not (self.state.closing or self.state.closed)", ['C08'], 'pass'),
 ('U6-binary-and-swapped', 'websocket.py', "        if compress and self.state.compression:\n            self.session.send_compressed(\n                Opcode.BINARY", "        if self.state.compression and compress:\n            self.session.send_compressed(\n                Opcode.BINARY", ['C06'], 'pass'),
 ('U7-cont-swapped', 'stream.py', "if frame.is_continuation and not self._frames:", "if not self._frames and frame.is_continuation:", ['C01'], 'pass'),
 ('U8-sel-ne0', 'selectors.py', "if hasattr(self._socket, 'pending') and self._socket.pending():", "if hasattr(self._socket, 'pending') and self._socket.pending() != 0:", ['C18'], 'pass'),
 ('U9-proxy-not', 'session.py', "'https' if self.websocket.is_secure else 'http'", "'http' if not self.websocket.is_secure else 'https'", ['C19'], 'pass'),
 ('Q1-or-swapped', 'frame_parser.py', 'if frame.is_text or _is_text_continuation:', 'if _is_text_continuation or frame.is_text:', ['C05'], 'pass'),
 ('Q2-maxbytes-flipped', 'parser.py', 'self.max_bytes is not None and pos > self.max_bytes', 'self.max_bytes is not None and self.max_bytes < pos', ['C10'], 'pass'),
 ('Q3-status-eq', 'websocket.py', 'if response.status_code != 101:', 'if not response.status_code == 101:', ['C10'], 'pass'),
 ('Q4-len-lt2', 'message.py', 'elif len(payload) >= 2:', 'elif len(payload) > 1:', ['C08'], 'pass'),
 ('Q5-fin-ctrl-swapped', 'frame_parser.py', 'if frame.fin and not frame.is_control:', 'if not frame.is_control and frame.fin:', ['C05'], 'pass'),
 ('S1-key-choice-flipped', 'frame.py', "                make_masking_key()\n                if masking_key is None\n                else masking_key", "                masking_key\n                if masking_key is not None\n                else make_masking_key()", ['C03'], 'pass'),
 ('P1-le125', 'frame.py', 'if length < 126:', 'if length <= 125:', ['C03'], 'pass'),
 ('P2-65536', 'frame.py', 'elif length < (1 << 16):', 'elif length < 65536:', ['C03'], 'pass'),
 ('P3-or-reordered', 'compression.py', 'wbits < 8 or wbits > 15', 'wbits > 15 or wbits < 8', ['C10'], 'pass'),
 ('P4-ctrl-ge126', 'frame_parser.py', 'frame.is_control and payload_length > 125', 'frame.is_control and payload_length >= 126', ['C04'], 'pass'),
 ('P5-fields-rewritten', 'frame_parser.py', 'opcode = byte1 & 0b00001111', 'opcode = byte1 % 16', ['C04'], 'pass'),
 ('P6-fin-rewritten', 'frame_parser.py', 'fin = byte1 >> 7', 'fin = (byte1 & 0x80) >> 7', ['C04'], 'pass'),
 ('P7-nextping-flipped', 'session.py', 'session_time > self._next_ping', 'self._next_ping < session_time', ['C15'], 'pass'),
 ('P8-min-swapped', 'persist.py', 'min(random_wait, 2**retries)', 'min(2**retries, random_wait)', ['C16'], 'pass'),
 ('P9-code-range', 'websocket.py', 'not 0 <= code <= 0xffff', '(code < 0 or code > 65535)', ['C03'], 'pass'),
 ('P11-pingtimeout-flipped', 'session.py', 'if time_since_last_pong > ping_timeout:', 'if ping_timeout < time_since_last_pong:', ['C15'], 'pass'),
 ('P12-byte0-reordered', 'frame.py', 'byte0 = fin << 7 | rsv1 << 6 | rsv2 << 5 | rsv3 << 4 | opcode', 'byte0 = opcode | fin << 7 | rsv1 << 6 | rsv2 << 5 | rsv3 << 4', ['C03'], 'pass'),
 ('P13-and-swapped', 'frame.py', 'if not self.fin and self.is_control:', 'if self.is_control and not self.fin:', ['C04'], 'pass'),
 ('P14-close-ge126', 'websocket.py', 'if len(Frame.build_close_payload(code, reason)) > 125:', 'if len(Frame.build_close_payload(code, reason)) >= 126:', ['C03'], 'pass'),
 ('P15-waitfor-reordered', 'persist.py', 'wait_for = min_wait + random() * min(random_wait, 2**retries)', 'wait_for = random() * min(random_wait, 2**retries) + min_wait', ['C16'], 'pass'),
 ('P10-2pow63', 'frame.py', 'elif length < (1 << 63):', 'elif length < 2 ** 63:', ['C03'], 'pass'),
]

def sha(p):
    return hashlib.sha1(open(p, 'rb').read()).hexdigest()[:10]

GEN_MODS = ['C01_Gen', 'C03_Gen', 'C04_Gen', 'C05_Gen', 'C06_Gen', 'C08_Gen', 'C10_Gen', 'C12_Gen', 'C15_Gen', 'C16_Gen', 'C19_Gen',
            'C01_Gen2', 'C06_Gen2', 'C08_Gen2', 'C15_Gen2', 'C18_Gen', 'C19_Gen2']

def companion(c=None):
    """build the companion modules against the Generated/ that is on disk now"""
    out = []
    for m in GEN_MODS:
        r = subprocess.run(['lake', 'build', 'Lomond.Properties.' + m], cwd=W + '/lean', capture_output=True, text=True)
        if r.returncode != 0:
            errs = [l for l in (r.stdout + r.stderr).split('\n') if l.startswith('error: Lomond/Properties')]
            out.append('%s FAILS (%s)' % (m, errs[0][7:110] if errs else '?'))
    return '\n    companions: ' + ('; '.join(out) if out else 'all check')

def main():
    only = sys.argv[1:]
    base = None
    subprocess.run(['/venv/bin/python', 'harness/translate.py'], cwd=W, env=dict(os.environ, LOMOND_REPO=SRC), capture_output=True)
    base = sha(CODE)
    results = []
    for mid, fn, old, new, checks, expect in MUTS:
        if only and mid.split('-')[0] not in only:
            continue
        d = os.path.join(SCRATCH, mid)
        shutil.rmtree(d, ignore_errors=True)
        shutil.copytree(SRC, d, ignore=shutil.ignore_patterns('.git', '__pycache__', '*.pyc', '.pytest_cache'))
        p = os.path.join(d, 'lomond', fn)
        s = open(p).read()
        assert s.count(old) == 1, (mid, s.count(old))
        open(p, 'w').write(s.replace(old, new))
        if not checks:
            env = dict(os.environ, LOMOND_REPO=d, PYTHONPATH='%s:%s/harness' % (d, W))
            subprocess.run(['/venv/bin/python', 'harness/translate.py'], cwd=W, env=env, capture_output=True)
            comp = companion()
            okc = ('FAILS' in comp) == (expect == 'fail')
            results.append((mid, '-', expect, None, sha(CODE) != base, okc))
            print('%-22s (no check) expect=%s code_changed=%s %s%s' % (mid, expect, sha(CODE) != base, 'AS-EXPECTED' if okc else '*** UNEXPECTED ***', comp), flush=True)
        for c in checks:
            env = dict(os.environ, LOMOND_REPO=d, PYTHONPATH='%s:%s/harness' % (d, W))
            r = subprocess.run(['/venv/bin/python', 'harness/check.py', c], cwd=W, env=env, capture_output=True, text=True)
            out = [l for l in (r.stdout + r.stderr).split('\n') if l.strip()]
            last = out[-1] if out else ''
            viol = [l for l in out if l.startswith('VIOLATION')]
            changed = sha(CODE) != base
            why = ''
            if viol:
                rp = viol[0].split('replay=')[1].split()[0]
                import json
                j = json.load(open(rp))
                if j.get('kind') == 'broken-obligation':
                    why = ' | '.join(x[:230] for x in j['broken'][:3])
                else:
                    why = 'oracle: %s: %s input=%s' % (j.get('cls'), str(j.get('what'))[:120], str(j.get('input'))[:100])
            ok = (expect == 'fail') == bool(r.returncode == 1)
            why += companion(c)
            results.append((mid, c, expect, r.returncode, changed, ok))
            print('%-22s %s expect=%s rc=%d code_changed=%s %s\n    %s\n    %s' % (mid, c, expect, r.returncode, changed, 'AS-EXPECTED' if ok else '*** UNEXPECTED ***', last[:200], why[:700]), flush=True)
        shutil.rmtree(d, ignore_errors=True)
    subprocess.run(['/venv/bin/python', 'harness/translate.py'], cwd=W, env=dict(os.environ, LOMOND_REPO=SRC), capture_output=True)
    print('restored Code.lean == baseline:', sha(CODE) == base)
    print('unexpected:', [r for r in results if not r[-1]])

main()
