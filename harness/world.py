"""Simulated world for driving the *real* lomond code in-process, with no hooks in /repo.

 * socket, selector, clock, os.urandom / masking keys are simulated
 * one `Scenario` (config + environment script + application reaction table) is executed on
   a real `lomond.WebSocket` and the observable trace is returned in the canonical token
   format that the Lean driver (`lean/Lomond/Model/Driver.lean`) prints for the same line.

Run with /venv/bin/python and PYTHONPATH=/repo.
"""
from __future__ import annotations
import logging
import base64, gc, hashlib, socket, struct, sys, zlib, os

import lomond
import lomond.session as _session
import lomond.events as _events
import lomond.frame as _frame
import lomond.websocket as _websocket
from lomond import errors
from lomond.websocket import WebSocket
from lomond.session import WebsocketSession
from lomond import selectors as _selectors

BUFFER = WebsocketSession.BUFFER_SIZE


def test_key(k):
    return bytes([(k * 7 + 1) % 256, (k * 13 + 5) % 256, (k * 31 + 17) % 256, (k * 3 + 101) % 256])


class ScriptEnd(BaseException):
    """The environment script is exhausted (not an Exception: lomond must not catch it)."""


class Clock:
    def __init__(self, t0=1000.0):
        self.t = t0

    def time(self):
        return self.t


import re as _re

_SIMPLE_EXT = _re.compile(r'^permessage-deflate([ \t]*;[ \t]*[a-z_]+([ \t]*=[ \t]*("[0-9]+"|[0-9]+))?)*[ \t]*$')


def peer_view(sc):
    """The permessage-deflate parameters as the peer that sent the scripted reply understands them,
       taken from the reply BYTES (never from lomond's parse): None = the reply has no extension header
       (the peer will not inflate anything); dict(cnt, cw) for a plainly spelled single
       `Sec-WebSocket-Extensions: permessage-deflate[; param[=n]]...` header; 'code' when the spelling is
       anything else (then the canonicaliser falls back to what the code negotiated)."""
    data = b''
    for st in sc.env:
        if st[0] == 'wait' and st[2] is not None and st[2][0] == 'data':
            data += bytes(st[2][1])
            if b'\r\n\r\n' in data:
                break
    head = data.split(b'\r\n\r\n', 1)[0]
    vals = []
    for ln in head.split(b'\r\n')[1:]:
        if b':' in ln:
            k, v = ln.split(b':', 1)
            if k.strip().lower() == b'sec-websocket-extensions':
                vals.append(v.strip().decode('latin-1'))
        elif b'sec-websocket-extensions' in ln.lower():
            return 'code'
    if not vals:
        return 'code' if b'sec-websocket-extensions' in head.lower() else None
    if len(vals) != 1 or not _SIMPLE_EXT.match(vals[0]):
        return 'code'
    params = {}
    for part in vals[0].split(';')[1:]:
        k, _, v = part.strip().partition('=')
        k, v = k.strip(), v.strip().strip('"')
        if k in params:
            return 'code'
        params[k] = v
    cw = params.get('client_max_window_bits', '15') or '15'
    if not cw.isdigit() or not 8 <= int(cw) <= 15:
        return 'code'
    return dict(cnt='client_no_context_takeover' in params, cw=int(cw))


class World:
    """Everything one connection attempt can observe or affect."""

    def __init__(self, scenario, t0=1000.0):
        self.sc = scenario
        self.trace = []
        self.t0 = t0            # wall-clock reading when this connection starts: the clock of an object's life goes on from connection to connection
        self.clock = Clock(t0)
        self.env = list(scenario.env)
        self.write_ctr = 0
        self.key_ctr = 0
        self.sock_open = False
        self.sel_open = False
        self.pending_recv = None
        self.recording = True
        self.kept = []
        self.zpeer = None   # zlib decompressor honouring the negotiated context (for Z: canonicalisation)
        self.deflate_cfg = None
        self.peer_cfg = peer_view(scenario)   # what the SERVER's reply said about permessage-deflate, parsed here (not by lomond)
        self.calls = []     # one entry per application call: [trace position, kind, result, wire tokens]
        self.raw = []       # every byte string `sendall` accepted, verbatim (C06 inflates the compressed frames itself)
        self.wire = []      # one entry per `sendall` ATTEMPT: dict(k=write index, pos=trace length at the call, data=<hex handed to sendall>, acc=<bytes the socket took>, err=None | errno | 'none' | 'timeout')

    def log(self, tok):
        if self.recording:
            self.trace.append(tok)


# error texts come from the OS / from other libraries: nothing may depend on them being free of format directives
HOSTILE = ' {x} {0} {} %s %d {'


class BlocksForever(BaseException):
    """a simulated system call that would never return (not an Exception: nothing in lomond may swallow it); the run is reported
    with the token HANG"""


class FakeSocket:
    def __init__(self, world):
        self.w = world
        self.closed = False
        self.reset = False      # the connection was reset by the peer (a read / write failed with ECONNRESET)

    def fileno(self):
        return 0

    def settimeout(self, t):
        pass

    def setsockopt(self, *a):
        pass

    def sendall(self, data):
        w = self.w
        k = w.write_ctr
        w.write_ctr += 1
        data = bytes(data)
        if k in w.sc.wfail:
            # how much of the data the socket had taken when the failure was reported (sendall gives the caller no way to know):
            # optional scenario attribute `wpart` {write index: n}; n >= 0 counted from the start, n < 0 from the end (-1: all but one
            # byte); absent: nothing (the behaviour before the attribute existed).  Not part of the trace (the token stays WF:<data>).
            part = (getattr(w.sc, 'wpart', None) or {}).get(k, 0)
            acc = max(0, min(len(data) - 1, part if part >= 0 else len(data) + part)) if data else 0
            w.wire.append(dict(k=k, pos=len(w.trace), data=data.hex(), acc=acc,
                               err=w.sc.werrno if isinstance(w.sc.werrno, (int, str)) and w.sc.werrno not in (0, '') else 'none'))
            # a compressed data frame that never reaches the peer: its zlib bytes are not canonical (the model has none)
            z = len(data) >= 2 and (data[0] & 0x40) and (data[0] & 0x0f) in (1, 2) and (w.peer_cfg is not None) and not (w.peer_cfg == 'code' and w.deflate_cfg is None)
            w.log('WF:' if z else 'WF:' + data.hex())
            if z:
                # the client's compressor has consumed the message although the bytes never left: keep the canonicaliser's
                # inflater in step (a real peer is lost from here on - the transport is broken - but the traces of later
                # compressed writes should still be comparable with the model)
                try:
                    w.canon_write(data)
                except Exception:  # noqa
                    pass
            if w.sc.werrno == 104:
                self.reset = True
            if w.sc.werrno == 'timeout':      # a socket with a timeout (lomond sets 30 s): socket.timeout, no errno
                raise socket.timeout('timed out')
            if not w.sc.werrno:               # socket.error raised with a message only (errno None)
                raise socket.error('simulated write failure' + HOSTILE)
            raise socket.error(w.sc.werrno, 'simulated write failure' + HOSTILE)
        w.wire.append(dict(k=k, pos=len(w.trace), data=data.hex(), acc=len(data), err=None))
        w.raw.append(data)
        w.log(w.canon_write(data))

    def recv_into(self, buf, count):
        w = self.w
        o = w.pending_recv
        w.pending_recv = None
        if o is None:
            # recv on a blocking socket although the selector did not report it readable: the call never returns
            raise BlocksForever()
        kind = o[0]
        if kind == 'eof':
            return 0
        if kind == 'sockerr':
            self.reset = True
            raise socket.error(104, 'simulated reset' + HOSTILE)
        if kind == 'othererr':
            raise ValueError('simulated non-socket failure' + HOSTILE)
        data = o[1]
        assert 0 < len(data) <= count, (len(data), count)
        buf[:len(data)] = data
        return len(data)

    def shutdown(self, how):
        # Linux: shutdown() of a TCP socket whose connection has been reset fails with ENOTCONN; the descriptor is still open
        # and still has to be closed (finding D12)
        if self.reset and not self.closed:
            raise socket.error(107, 'simulated: transport endpoint is not connected' + HOSTILE)

    def close(self):
        if not self.closed:
            self.closed = True
            self.w.sock_open = False
            self.w.log('SC')


class FakeTLSSocket(FakeSocket):
    """what `_connect` returns for a wss:// URL: the socket has the extra methods of `ssl.SSLSocket`.  lomond's session never needs
    them (the selector, which uses `pending()`, is simulated): `unwrap()` behaves like a TLS peer that is gone and does not answer
    the close_notify alert - the usual situation when a consumer walks away in mid-stream."""

    def pending(self):
        return 0

    def unwrap(self):
        import ssl
        raise ssl.SSLError('simulated: the peer did not answer close_notify' + HOSTILE)


class FakeSelector:
    def __init__(self, sock):
        self.w = sock.w
        if self.w.sc.conn == 'selfail':      # the selector cannot be created (e.g. EMFILE from epoll_create / kqueue)
            raise OSError(24, 'simulated: too many open files' + HOSTILE)
        self.w.sel_open = True

    def wait(self, max_bytes, timeout=0.0):
        w = self.w
        # the receive buffer's content is dead between reads: poison it so that any event
        # payload still aliasing it would visibly change (C01: payloads never change after yield)
        sess = getattr(w, 'session', None)
        if sess is not None:
            sess._buffer[:] = b'\xaa' * len(sess._buffer)
        if not w.env:
            raise ScriptEnd()
        step = w.env.pop(0)
        if step[0] == 'selerr':
            raise OSError(9, 'simulated selector failure' + HOSTILE)
        _, dt, outcome = step
        if timeout is not None and timeout < 0 and outcome is None:
            # poll(2) / epoll with a negative timeout wait until the descriptor is ready: a silent peer means for ever
            w.env.insert(0, step)
            raise BlocksForever()
        w.clock.t += float(dt) / w.sc.tdiv
        if dt:
            w.log('T:%d' % int((w.clock.t - w.t0) * w.sc.tdiv + 0.5))
        if outcome is None:
            return False, max_bytes
        w.pending_recv = outcome
        return True, max_bytes

    def close(self):
        if self.w.sel_open:
            self.w.sel_open = False
            self.w.log('LC')


def make_session_class(world):
    """`world`: a World, or a holder dict {'world': <the World of the connection being made>} - one session class for a whole
       chain of connections (as an application / persist() uses one class), looked up when `_connect` runs"""
    holder = world if isinstance(world, dict) else {'world': world}

    class SimSession(WebsocketSession):
        _selector_cls = FakeSelector

        def _connect(self):
            world = holder['world']
            c = world.sc.conn
            if c == 'sockfail':
                self._socket_fail('unable to connect')
            if c == 'otherfail':
                raise RuntimeError('simulated connect failure' + HOSTILE)
            sock = (FakeTLSSocket if world.sc.url.lower().startswith('wss:') else FakeSocket)(world)
            world.session = self
            world.sock_open = True
            world.fsock = sock
            return sock, ('http://proxy.example:3128' if c == 'okproxy' else None)
    return SimSession


class Scenario:
    """cfg: dict(v, poll, prate, ptimeout, autopong, ctimeout, conn, wfail set, compress bool,
                 protocols list, url)
       env: list of ('wait', dt, outcome|None) | ('selerr',)   outcome = ('data', bytes)|('eof',)|...
       reactions: {event_index: [act, ...]}   act = tuple, see `do_act`"""

    def __init__(self, env, reactions=None, poll=5, prate=30, ptimeout=0, autopong=True,
                 ctimeout=30, conn='ok', wfail=(), compress=False, protocols=(), url='ws://example.com/chat',
                 key_seed=0, variant='111110', zero=False, tdiv=1, werrno=104):
        self.env = env
        self.werrno = werrno    # errno of an injected sendall failure (104 ECONNRESET; 4 EINTR: 'interrupted' after part of the data went out)
        self.tdiv = tdiv        # all times of the scenario are in units of 1/tdiv second (tdiv a power of two: float arithmetic stays exact); the model counts units
        self.zero = zero        # a disabled timeout (0) is passed to connect() as 0.0 rather than as None (both mean 'disabled' in lomond's API)
        self.reactions = reactions or {}
        self.poll, self.prate, self.ptimeout = poll, prate, ptimeout
        self.autopong, self.ctimeout, self.conn = autopong, ctimeout, conn
        self.wfail = set(wfail)
        self.compress = compress
        self.protocols = list(protocols)
        self.url = url
        self.key_seed = key_seed
        self.variant = variant

    # -- the handshake key this scenario's connection will use --------------------------
    def key_bytes(self):
        return bytes((self.key_seed * 16 + i * 11 + 3) % 256 for i in range(16))

    def key(self):
        return base64.b64encode(self.key_bytes())

    def challenge(self):
        from lomond import constants
        return base64.b64encode(hashlib.sha1(self.key() + constants.WS_KEY).digest())

    def good_reply(self, extra=b''):
        return (b'HTTP/1.1 101 Switching Protocols\r\nUpgrade: websocket\r\nConnection: Upgrade\r\n'
                b'Sec-WebSocket-Accept: ' + self.challenge() + b'\r\n' + extra + b'\r\n')


# ---------------------------------------------------------------------------------------
# canonical printing (must match Driver.lean)

def hx(b):
    return bytes(b).hex()


def _enc(s):
    # lone surrogates cannot come out of lomond's strict decoder; be total anyway
    return ''.join(ch if not ('\ud800' <= ch <= '\udfff') else '�' for ch in s).encode('utf-8').hex()


def canon_critical(msg):
    if msg.startswith('expected'):
        return 'expected separator'
    for p in ('payload contains invalid utf-8', 'invalid utf-8 in close reason'):
        if msg.startswith(p):
            return p
    return msg


def show_event(ev):
    n = ev.name
    if n == 'connecting':
        return 'E:connecting'
    if n == 'connect_fail':
        return 'E:connect_fail:' + ('request-failed' if ev.reason.startswith('request failed') else 'connect-failed')
    if n == 'connected':
        return 'E:connected:' + ('1' if ev.proxy else '0')
    if n == 'ready':
        proto = '-' if ev.protocol is None else 'p' + _enc(ev.protocol)
        return 'E:ready:%s:%s' % (proto, '1' if 'permessage-deflate' in ev.extensions else '0')
    if n == 'rejected':
        return 'E:rejected:' + _enc(ev.reason)
    if n == 'text':
        return 'E:text:' + _enc(ev.text)
    if n == 'binary':
        return 'E:binary:' + hx(ev.data)
    if n == 'ping':
        return 'E:ping:' + hx(ev.data)
    if n == 'pong':
        return 'E:pong:' + hx(ev.data)
    if n in ('closing', 'closed'):
        return 'E:%s:%s:%s' % (n, 'N' if ev.code is None else ev.code, _enc(ev.reason))
    if n == 'protocol_error':
        msg = canon_critical(ev.error) if ev.critical else ev.error
        return 'E:protocol_error:%s:%s' % (msg.replace(' ', '_'), '1' if ev.critical else '0')
    if n == 'poll':
        return 'E:poll'
    if n == 'unresponsive':
        return 'E:unresponsive'
    if n == 'disconnected':
        r = ev.reason
        if ev.graceful:
            k = 'closed'
        elif r.startswith('disconnected; exceeded'):
            k = 'ping-timeout'
        elif r.startswith("disconnected; server didn't"):
            k = 'close-timeout'
        elif r.startswith('disconnected; '):
            k = 'forced'
        elif r.startswith('socket fail; recv fail'):
            k = 'recv-fail'
        elif r.startswith('socket fail; connection lost'):
            k = 'connection-lost'
        elif r.startswith('error; '):
            k = 'error'
        else:
            k = 'other(%s)' % r
        return 'E:disconnected:%s:%s' % (k, '1' if ev.graceful else '0')
    return 'E:?' + n


def exc_name(e):
    if isinstance(e, errors.WebSocketClosed):
        return 'WebSocketClosed'
    if isinstance(e, errors.WebSocketClosing):
        return 'WebSocketClosing'
    if isinstance(e, errors.WebSocketUnavailable):
        return 'WebSocketUnavailable'
    if isinstance(e, errors.TransportFail):
        return 'TransportFail'
    if isinstance(e, struct.error):
        return 'struct.error'
    if isinstance(e, ValueError):
        return 'ValueError'
    if isinstance(e, TypeError):
        return 'TypeError'
    if isinstance(e, AttributeError) and ("attribute 'encode'" in str(e) or "attribute 'decode'" in str(e)):
        return 'TypeError'      # an argument of the wrong type (no .encode / .decode): the TypeError class of outcomes
    if isinstance(e, errors.WebSocketError):
        return 'WebSocketError(%s)' % type(e).__name__      # some other subclass: still the documented way to report trouble
    return 'Other(%s)' % type(e).__name__


class _Other(object):
    """an argument of a type no send method accepts"""


def arg_value(a):
    kind = a[0]
    if kind == 'b':
        return bytes(a[1])
    if kind == 's':
        return ''.join(chr(c) for c in a[1])
    return bytearray(b'zz') if (len(a) > 1 and a[1] == 'bytearray') else _Other()


def arg_token(a):
    if a[0] == 'b':
        return 'b' + bytes(a[1]).hex()
    if a[0] == 's':
        return 's' + '.'.join(str(c) for c in a[1])
    return 'o'


def act_token(act):
    k = act[0]
    if k == 'send_text':
        return 'st%d=%s' % (1 if act[2] else 0, arg_token(act[1]))
    if k == 'send_binary':
        return 'sb%d=%s' % (1 if act[2] else 0, arg_token(act[1]))
    if k == 'send_ping':
        return 'pi=' + arg_token(act[1])
    if k == 'send_pong':
        return 'po=' + arg_token(act[1])
    if k == 'close':
        return 'cl=%s,%s' % ('N' if act[1] is None else act[1], arg_token(act[2]))
    if k == 'send_json':
        # send_json(obj) is json.dumps + send_text: the model sees the equivalent send_text call
        import json as _json
        kind, val = act[1]
        if kind == 'obj':
            try:
                return 'st1=' + arg_token(('s', [ord(c) for c in _json.dumps(val)]))
            except TypeError:
                return 'st1=o'            # not serialisable: TypeError, like a non-str argument
        if kind == 'kwargs':
            return 'st1=' + arg_token(('s', [ord(c) for c in _json.dumps(val)]))
        return 'st1=s55296'               # positional AND keyword arguments: ValueError
    if k == 'session_close':
        return 'sc'
    if k == 'abandon':
        return 'ab1' if act[1] == 'with' else 'ab0'
    raise ValueError(act)


class Abandon(Exception):
    def __init__(self, mech):
        self.mech = mech


def do_act(world, ws, act):
    """perform one application call on the real WebSocket; log its outcome"""
    k = act[0]
    if k == 'abandon':
        raise Abandon(act[1])
    n0 = len(world.trace)
    try:
        if k == 'send_text':
            ws.send_text(arg_value(act[1]), compress=act[2])
        elif k == 'send_binary':
            ws.send_binary(arg_value(act[1]), compress=act[2])
        elif k == 'send_ping':
            ws.send_ping(arg_value(act[1]))
        elif k == 'send_pong':
            ws.send_pong(arg_value(act[1]))
        elif k == 'send_json':
            kind, val = act[1]
            if kind == 'obj':
                ws.send_json(val)
            elif kind == 'kwargs':
                ws.send_json(**val)
            else:
                ws.send_json({'a': 1}, b=2)
        elif k == 'close':
            ws.close(act[1], arg_value(act[2]))
        elif k == 'session_close':
            ws.session.close()
        elif k == 'sleep':
            # the application is slow: time passes while it handles the event (oracle-only scenarios; the model has no such act)
            world.clock.t += float(act[1]) / world.sc.tdiv
        else:
            raise AssertionError(act)
    except Exception as e:  # noqa
        world.log('R:' + exc_name(e))
    else:
        world.log('R:ok')
    # for oracles that need to know WHICH call did what (not part of the trace the model is compared with):
    # (position in the trace, kind of call, result token, what it put on the wire)
    world.calls.append([n0, k, world.trace[-1][2:] if world.recording else '?', [t for t in world.trace[n0:-1] if t[:2] in ('W:', 'Z:', 'W!') or t.startswith('WF:')]])


_BFINAL_SAFE = None


def bfinal_safe():
    """variant detection (finding D6): does the real `Deflate.decompress` survive a deflate block
       with BFINAL=1 under context takeover?  Probe: the RFC 7692 7.2.3.4 message ("Hello" in a
       final block) followed by an ordinary compressed "Hello"; the unrepaired code returns an empty string
       for the second one.  The model driver is started with the matching inflater (`zsafe=1`)."""
    global _BFINAL_SAFE
    if _BFINAL_SAFE is None:
        from lomond.compression import Deflate
        from lomond.frame import Frame
        try:
            d = Deflate(15, 15, False, False)
            first = d.decompress([Frame(1, bytes.fromhex('f348cdc9c9070000'))])
            second = d.decompress([Frame(1, bytes.fromhex('f248cdc9c90700'))])
            _BFINAL_SAFE = (bytes(first), bytes(second)) == (b'Hello', b'Hello')
        except Exception:  # noqa -- neither shape: treated as unrepaired, the checks will show the difference
            _BFINAL_SAFE = False
    return _BFINAL_SAFE


def scenario_line(sc):
    """the operation line handed to the Lean driver"""
    ws = WebSocket(sc.url, proxies={}, protocols=sc.protocols or None, compress=sc.compress)
    saved = os.urandom
    try:
        _websocket.os.urandom = lambda n: sc.key_bytes()[:n]
        ws.reset()
    finally:
        _websocket.os.urandom = saved
    req = ws.build_request()
    cfg = ['v=' + sc.variant, 'poll=%d' % sc.poll, 'prate=%d' % sc.prate, 'ptimeout=%d' % sc.ptimeout,
           'autopong=%d' % (1 if sc.autopong else 0), 'ctimeout=%d' % sc.ctimeout, 'conn=' + sc.conn,
           'req=' + req.hex(),     # the expected accept value is not passed: the model computes it from the key in `req`
           'wfail=' + (','.join(str(k) for k in sorted(sc.wfail)) if sc.wfail else '-')]
    if bfinal_safe():
        cfg.append('zsafe=1')
    env = []
    for st in sc.env:
        if st[0] == 'selerr':
            env.append('S')
            continue
        _, dt, o = st
        if o is None:
            env.append('w%d' % dt)
        elif o[0] == 'data':
            env.append('r%d:%s' % (dt, bytes(o[1]).hex()))
        elif o[0] == 'eof':
            env.append('e%d' % dt)
        elif o[0] == 'sockerr':
            env.append('x%d' % dt)
        else:
            env.append('o%d' % dt)
    rx = []
    for idx in sorted(sc.reactions):
        rx.append('%d:%s' % (idx, ';'.join(act_token(a) for a in sc.reactions[idx])))
    return 'core ' + ' '.join(cfg) + ' | ' + ' '.join(env) + ' | ' + ' '.join(rx)


def _canon_write_factory(world):
    def canon_write(data):
        # compressed data frames are canonicalised to their plaintext (the model does not produce
        # zlib's bytes): Z:<opcode>:<plaintext hex>
        pc = world.peer_cfg
        if pc == 'code':
            pc = None if world.deflate_cfg is None else dict(cnt=bool(world.deflate_cfg.reset_compress), cw=15)
        if len(data) >= 2 and (data[0] & 0x40) and (data[0] & 0x0f) in (1, 2) and pc is not None:
            try:
                import refcodec
                fr = refcodec.decode_client_frames(data)
                if len(fr) != 1 or fr[0]['fin'] != 1 or fr[0]['rsv2'] or fr[0]['rsv3']:
                    return 'W!bad-compressed-frame:' + data.hex()
                op, payload = _unmask_frame(data)
                if world.zpeer is None:
                    world.zpeer = zlib.decompressobj(-pc['cw'])
                plain = world.zpeer.decompress(payload + b'\x00\x00\xff\xff')
                if pc['cnt']:
                    world.zpeer = None
                return 'Z:%d:%s' % (op, plain.hex())
            except Exception as e:  # noqa
                return 'W!undecodable(%s):%s' % (e, data.hex())
        return 'W:' + data.hex()
    return canon_write


def _unmask_frame(data):
    b0, b1 = data[0], data[1]
    assert b1 & 0x80
    ln = b1 & 0x7f
    pos = 2
    if ln == 126:
        ln = struct.unpack('!H', data[2:4])[0]
        pos = 4
    elif ln == 127:
        ln = struct.unpack('!Q', data[2:10])[0]
        pos = 10
    key = data[pos:pos + 4]
    body = data[pos + 4:pos + 4 + ln]
    return b0 & 0x0f, bytes(b ^ key[i % 4] for i, b in enumerate(body))


def run_real(sc):
    """Execute the scenario on the real code. Returns the canonical trace line."""
    return run_chain([sc])[0]


class _FormattingHandler(logging.Handler):
    """formats every record the way a real handler does (arguments are rendered with %r / %s) and throws the text away; a
    record that cannot be formatted is what `logging` itself reports on stderr and carries on from"""

    def emit(self, record):
        try:
            record.getMessage()
        except Exception:  # noqa
            pass


def wants_debug(sc):
    """the logging configuration is the application's business and nothing observable may depend on it: a third of all
    scenarios (chosen by a checksum of the scenario, so that a replay makes the same choice) run with the 'lomond' logger at DEBUG
    level and a handler that formats every record; the others with logging disabled."""
    d = getattr(sc, 'debug', None)
    if d is not None:
        return bool(d)
    key = repr((sc.env, sorted(sc.reactions.items()), sc.poll, sc.prate, sc.ptimeout, sc.compress, sc.url)).encode('utf-8', 'replace')
    return zlib.crc32(key) % 3 == 0


class debug_logging(object):
    def __init__(self, on):
        self.on = on

    def __enter__(self):
        if self.on:
            lg = logging.getLogger('lomond')
            self.saved = (lg.level, logging.root.manager.disable)
            self.h = _FormattingHandler()
            lg.addHandler(self.h)
            lg.setLevel(logging.DEBUG)
            logging.disable(logging.NOTSET)
        return self

    def __exit__(self, *exc):
        if self.on:
            lg = logging.getLogger('lomond')
            lg.removeHandler(self.h)
            lg.setLevel(self.saved[0])
            logging.disable(self.saved[1])
        return False


def run_chain(scs, worlds=None):
    """Execute several scenarios one after the other on ONE WebSocket object (reconnects).
       Returns the list of canonical trace lines, one per connection.
       `worlds`: optional list that receives the `World` of every connection (raw writes, negotiated config)."""
    saved = (_session.time, _events.time, _frame.make_masking_key, _websocket.os.urandom)
    cur = {}

    class TimeShim:
        @staticmethod
        def time():
            return cur['world'].clock.t

    def next_key():
        w = cur['world']
        k = w.key_ctr
        w.key_ctr += 1
        return test_key(k)

    out = []
    held = []
    try:
        _session.time = TimeShim
        _events.time = TimeShim
        _frame.make_masking_key = next_key
        _websocket.os.urandom = lambda n: cur['sc'].key_bytes()[:n]
        cur['sc'] = scs[0]
        cur['world'] = World(scs[0])
        sc0 = scs[0]
        ws = WebSocket(sc0.url, proxies={}, protocols=sc0.protocols or None, compress=sc0.compress)
        chain_cls = make_session_class(cur)       # ONE session class for all connections of the object
        t_next = 1000.0
        for sc in scs:
            world = World(sc, t_next)
            world.canon_write = _canon_write_factory(world)
            cur['sc'], cur['world'] = sc, world
            if worlds is not None:
                worlds.append(world)
            with debug_logging(wants_debug(sc)):
                out.append(_run_one(ws, sc, world, held, chain_cls))
            t_next = world.clock.t + 3.0        # the next connection starts three seconds after the previous one ended
    finally:
        if held:
            del held[:]
            gc.collect()
        _session.time, _events.time, _frame.make_masking_key, _websocket.os.urandom = saved
    return out


def run_duo(sc_a, sc_b, pattern=(0, 1)):
    """Two connections on two WebSocket objects alive AT THE SAME TIME in one process: their event iterators are advanced
       alternately following `pattern` (cyclic list of 0/1; a finished connection is skipped).  Returns the two canonical traces -
       each must equal the trace of the same scenario run alone (nothing is shared between sessions)."""
    saved = (_session.time, _events.time, _frame.make_masking_key, _websocket.os.urandom)
    cur = {}

    class TimeShim:
        @staticmethod
        def time():
            return cur['world'].clock.t

    def next_key():
        w = cur['world']
        k = w.key_ctr
        w.key_ctr += 1
        return test_key(k)
    conns = []
    try:
        _session.time = TimeShim
        _events.time = TimeShim
        _frame.make_masking_key = next_key
        _websocket.os.urandom = lambda n: cur['sc'].key_bytes()[:n]
        for sc in (sc_a, sc_b):
            w = World(sc)
            w.canon_write = _canon_write_factory(w)
            cur['sc'], cur['world'] = sc, w
            ws = WebSocket(sc.url, proxies={}, protocols=sc.protocols or None, compress=sc.compress)
            gen = ws.connect(session_class=make_session_class(w), poll=float(sc.poll) / sc.tdiv, ping_rate=float(sc.prate) / sc.tdiv,
                             ping_timeout=(float(sc.ptimeout) / sc.tdiv if (sc.ptimeout or sc.zero) else None), auto_pong=sc.autopong,
                             close_timeout=(float(sc.ctimeout) / sc.tdiv if (sc.ctimeout or sc.zero) else None))
            conns.append(dict(sc=sc, w=w, ws=ws, gen=gen, idx=0, done=False))
        k = 0
        while not all(c['done'] for c in conns):
            c = conns[pattern[k % len(pattern)]]
            k += 1
            if c['done']:
                continue
            cur['sc'], cur['world'] = c['sc'], c['w']
            try:
                ev = next(c['gen'])
            except StopIteration:
                c['done'] = True
                continue
            except ScriptEnd:
                c['w'].log('INCOMPLETE'); c['w'].recording = False; c['done'] = True
                continue
            except Exception as e:  # noqa
                c['w'].log('ESCAPED:' + type(e).__name__); c['done'] = True
                continue
            tok = show_event(ev)
            c['w'].log(tok)
            c['w'].kept.append((tok, ev))
            if ev.name == 'ready':
                c['w'].deflate_cfg = c['ws'].state.compression
            for a in c['sc'].reactions.get(c['idx'], []):
                do_act(c['w'], c['ws'], a)
            c['idx'] += 1
        out = []
        for c in conns:
            w = c['w']
            for i, (tok, ev) in enumerate(w.kept):
                if show_event(ev) != tok:
                    w.trace.append('MUTATED:%d' % i)
            out.append(' '.join(w.trace + ['END:sock=%d:sel=%d:closing=%d:closed=%d' % (1 if w.sock_open else 0, 1 if w.sel_open else 0,
                                                                                      1 if c['ws'].state.closing else 0, 1 if c['ws'].state.closed else 0)]))
        return out
    finally:
        _session.time, _events.time, _frame.make_masking_key, _websocket.os.urandom = saved


def _run_one(ws, sc, world, held=None, sess_cls=None):
    gen = None
    try:
        sess_cls = sess_cls or make_session_class(world)
        kwargs = dict(session_class=sess_cls, poll=float(sc.poll) / sc.tdiv, ping_rate=float(sc.prate) / sc.tdiv,
                      ping_timeout=(float(sc.ptimeout) / sc.tdiv if (sc.ptimeout or sc.zero) else None),
                      auto_pong=sc.autopong,
                      close_timeout=(float(sc.ctimeout) / sc.tdiv if (sc.ctimeout or sc.zero) else None))
        idx = 0
        mech = None
        for acts in sc.reactions.values():
            for a in acts:
                if a[0] == 'abandon':
                    mech = a[1]

        def handle(ev):
            nonlocal idx
            tok = show_event(ev)
            world.log(tok)
            world.kept.append((tok, ev))
            if ev.name == 'ready':
                world.deflate_cfg = ws.state.compression
            acts = sc.reactions.get(idx, [])
            idx += 1
            if idx == 2:
                release('late2')
            for a in acts:
                if a[0] == 'abandon':
                    if a[1] in ('close', 'drop', 'late', 'late2'):
                        return True
                    raise Abandon(a[1])
                do_act(world, ws, a)
            return False

        def iterate(g):
            for ev in g:
                if handle(ev):
                    break

        def release(tag):
            # an EARLIER connection's generator, abandoned but still referenced by the application, is finalised only now
            if held is not None and any(m == tag for m, _ in held):
                held[:] = [(m, g) for m, g in held if m != tag]
                gc.collect()

        gen = ws.connect(**kwargs)
        release('late')
        try:
            if mech == 'with':
                with ws:
                    iterate(gen)
            else:
                iterate(gen)
        except Abandon:
            pass
        except Exception as e:  # noqa -- an exception escaped the event iterator (C09)
            world.log('ESCAPED:' + type(e).__name__)
        if mech == 'close':
            gen.close()
        if mech in ('late', 'late2') and held is not None:
            held.append((mech, gen))      # the application keeps the abandoned generator (e.g. `gen = ws.connect()` rebinding: released after the next connect())
        gen = None
        if mech is not None:
            gc.collect()      # finalise a dropped generator even if it sits in a reference cycle
    except ScriptEnd:
        world.log('INCOMPLETE')
        world.recording = False
    except BlocksForever:
        world.log('HANG')
        world.recording = False
    for i, (tok, ev) in enumerate(world.kept):
        if show_event(ev) != tok:
            world.trace.append('MUTATED:%d' % i)
    end = 'END:sock=%d:sel=%d:closing=%d:closed=%d' % (
        1 if world.sock_open else 0, 1 if world.sel_open else 0,
        1 if ws.state.closing else 0, 1 if ws.state.closed else 0)
    return ' '.join(world.trace + [end])
