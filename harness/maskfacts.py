"""Structural facts of /repo/lomond/mask.py  ->  lean/Lomond/Generated/Mask.lean   (called by translate.py)

What is extracted from the AST (nothing is evaluated):
  * the Python-3 definition of `_XOR_TABLE`:
        [bytes(<lhs> <op> <rhs> for <inner> in range(<innerN>)) for <outer> in range(<outerN>)]
    -> outer/inner variable, the two range bounds, the element expression (operand, operator, operand), the wrapper
  * `mask_payload(<params>)`: the unpacking statement `n1, n2, .. = (<table>[<v>] for <v> in bytearray(<param 0>))`
    (names in order, canonical text of the right-hand side) and, in source order, every statement of the form
        <param 1>[s::t] = <param 1>[s'::t'].translate(<name>)         ->  (s, t, s', t', name)
    any other statement of the body is listed verbatim in `maskOtherStmts` (a theorem pins it to `[]`).
`Model/Mask.lean` *interprets* these facts (it builds the table from the element expression, runs the lane statements
in the listed order); `Properties/C03_Mask.lean` proves the interpreted program equal to the specification
`maskPayload`.  An edit of mask.py that changes a fact changes the program the theorems are about.
"""
from __future__ import annotations
import ast, os

_OPS = {ast.BitXor: '^', ast.BitAnd: '&', ast.BitOr: '|', ast.Add: '+', ast.Sub: '-', ast.Mult: '*'}


def _lean_str(s):
    return '"' + s.replace('\\', '\\\\').replace('"', '\\"') + '"'


def _range_n(node):
    """n of `range(n)` with a literal n, else None"""
    if (isinstance(node, ast.Call) and isinstance(node.func, ast.Name) and node.func.id == 'range' and len(node.args) == 1
            and not node.keywords and isinstance(node.args[0], ast.Constant) and isinstance(node.args[0].value, int)
            and node.args[0].value >= 0):
        return node.args[0].value
    return None


def _operand(node):
    if isinstance(node, ast.Name):
        return node.id
    if isinstance(node, ast.Constant) and isinstance(node.value, int) and not isinstance(node.value, bool) and node.value >= 0:
        return str(node.value)
    return None


def _py3_table_assign(tree):
    """the `_XOR_TABLE = ...` that Python 3 executes: at top level, or in the `else` of `if six.PY2` / body of `if six.PY3`"""
    def assigns(stmts):
        return [s for s in stmts if isinstance(s, ast.Assign) and len(s.targets) == 1
                and isinstance(s.targets[0], ast.Name) and s.targets[0].id == '_XOR_TABLE']
    found = []
    for s in tree.body:
        if isinstance(s, ast.If):
            t = ast.unparse(s.test)
            if t == 'six.PY2':
                found += assigns(s.orelse)
            elif t in ('six.PY3', 'not six.PY2'):
                found += assigns(s.body)
    found += assigns(tree.body)
    return found


def _slice(node, param):
    """(start, step) of `<param>[start::step]` (no upper bound), else None"""
    if not (isinstance(node, ast.Subscript) and isinstance(node.value, ast.Name) and node.value.id == param
            and isinstance(node.slice, ast.Slice) and node.slice.upper is None):
        return None
    out = []
    for part, default in ((node.slice.lower, 0), (node.slice.step, 1)):
        if part is None:
            out.append(default)
        elif isinstance(part, ast.Constant) and isinstance(part.value, int) and not isinstance(part.value, bool) and part.value >= 0:
            out.append(part.value)
        else:
            return None
    return tuple(out)


def extract(repo):
    problems = []
    with open(os.path.join(repo, 'lomond', 'mask.py')) as f:
        tree = ast.parse(f.read(), filename='mask.py')
    # sentinels: a fact that cannot be extracted keeps a value no theorem accepts
    tab = dict(outer='?', inner='?', outerN=0, innerN=0, elt=('?', '?', '?'), wrap='?')
    assigns = _py3_table_assign(tree)
    if len(assigns) != 1:
        problems.append('mask.py: %d Python-3 definitions of _XOR_TABLE found, expected 1' % len(assigns))
    else:
        v = assigns[0].value
        ok = False
        if isinstance(v, ast.ListComp) and len(v.generators) == 1:
            g = v.generators[0]
            e = v.elt
            if (isinstance(g.target, ast.Name) and not g.ifs and not g.is_async and _range_n(g.iter) is not None
                    and isinstance(e, ast.Call) and isinstance(e.func, ast.Name) and len(e.args) == 1 and not e.keywords
                    and isinstance(e.args[0], ast.GeneratorExp) and len(e.args[0].generators) == 1):
                ge = e.args[0]
                gi = ge.generators[0]
                if (isinstance(gi.target, ast.Name) and not gi.ifs and not gi.is_async and _range_n(gi.iter) is not None
                        and isinstance(ge.elt, ast.BinOp) and type(ge.elt.op) in _OPS
                        and _operand(ge.elt.left) is not None and _operand(ge.elt.right) is not None):
                    tab = dict(outer=g.target.id, inner=gi.target.id, outerN=_range_n(g.iter), innerN=_range_n(gi.iter),
                               elt=(_operand(ge.elt.left), _OPS[type(ge.elt.op)], _operand(ge.elt.right)), wrap=e.func.id)
                    ok = True
        if not ok:
            problems.append('mask.py: _XOR_TABLE is not `[bytes(x op y for i in range(n)) for o in range(m)]`: %s' % ast.unparse(v)[:200])
    fn = next((s for s in tree.body if isinstance(s, ast.FunctionDef) and s.name == 'mask_payload'), None)
    params, names, unpack_text, lanes, others = [], [], '?', [], []
    if fn is None:
        problems.append('mask.py: mask_payload not found')
        others = ['?']
    else:
        params = [a.arg for a in fn.args.args]
        if (len(params) != 2 or fn.args.vararg or fn.args.kwarg or fn.args.kwonlyargs or fn.args.defaults or fn.decorator_list):
            problems.append('mask.py: mask_payload does not take exactly two plain parameters')
            others.append('def ' + fn.name + '(' + ast.unparse(fn.args) + ')')
        body = list(fn.body)
        if body and isinstance(body[0], ast.Expr) and isinstance(body[0].value, ast.Constant) and isinstance(body[0].value.value, str):
            body = body[1:]
        dparam = params[1] if len(params) > 1 else '?'
        for idx, s in enumerate(body):
            if (idx == 0 and isinstance(s, ast.Assign) and len(s.targets) == 1 and isinstance(s.targets[0], ast.Tuple)
                    and all(isinstance(e, ast.Name) for e in s.targets[0].elts)):
                names = [e.id for e in s.targets[0].elts]
                unpack_text = ast.unparse(s.value)
                continue
            if isinstance(s, ast.Assign) and len(s.targets) == 1:
                tgt = _slice(s.targets[0], dparam)
                v = s.value
                if (tgt is not None and isinstance(v, ast.Call) and isinstance(v.func, ast.Attribute) and v.func.attr == 'translate'
                        and len(v.args) == 1 and not v.keywords and isinstance(v.args[0], ast.Name)):
                    src = _slice(v.func.value, dparam)
                    if src is not None:
                        lanes.append((tgt[0], tgt[1], src[0], src[1], v.args[0].id))
                        continue
            others.append(ast.unparse(s))
        if others:
            problems.append('mask.py: mask_payload has statements outside the modelled shapes: %s' % '; '.join(others)[:300])
        if not names:
            problems.append('mask.py: mask_payload does not start with the unpacking of the table rows')
    lean = f'''/-
  GENERATED by harness/maskfacts.py (called from harness/translate.py) from {repo}/lomond/mask.py -- do not edit.
  Structure of `_XOR_TABLE` (Python-3 branch) and of `mask_payload`, read off the AST.  `Model/Mask.lean` interprets it.
-/
namespace Lomond.Gen

/-- `_XOR_TABLE = [<wrap>(<lhs> <op> <rhs> for <inner> in range(<innerN>)) for <outer> in range(<outerN>)]` -/
def maskTableOuterVar : String := {_lean_str(tab['outer'])}
def maskTableOuterN : Nat := {tab['outerN']}
def maskTableInnerVar : String := {_lean_str(tab['inner'])}
def maskTableInnerN : Nat := {tab['innerN']}
/-- element expression: (left operand, operator, right operand) -/
def maskTableElt : String × String × String := ({', '.join(_lean_str(x) for x in tab['elt'])})
def maskTableWrap : String := {_lean_str(tab['wrap'])}
/-- parameters of `mask_payload` -/
def maskParams : List String := [{', '.join(_lean_str(p) for p in params)}]
/-- first statement: `<names> = <text>` (tuple unpacking of a generator over the key bytes) -/
def maskUnpackNames : List String := [{', '.join(_lean_str(n) for n in names)}]
def maskUnpackExpr : String := {_lean_str(unpack_text)}
/-- the statements `data[s::t] = data[s'::t'].translate(name)` in source order: (s, t, s', t', name) -/
def maskLaneStmts : List (Nat × Nat × Nat × Nat × String) := [{', '.join('(%d, %d, %d, %d, %s)' % (a, b, c, d, _lean_str(n)) for a, b, c, d, n in lanes)}]
/-- every other statement of the body (text) -/
def maskOtherStmts : List String := [{', '.join(_lean_str(o) for o in others)}]

end Lomond.Gen
'''
    return lean, problems
