#!/bin/bash
# Runs every seeded change under /verif/seeded against the checks recorded as catching it
# (and against its own property's check), using harness/seedtest.sh (scratch copies of /repo and /verif),
# ${JOBS:-4} seeds at a time.  Prints one line per (seed, check): CAUGHT / MISSED.
cd "$(dirname "$0")/.."
one() {
  d=$1
  id=$(basename $d)
  checks=$(python3 -c "import json; m=json.load(open('$d/meta.json')); print(' '.join(sorted(set(m['caught_by']+[m['property']]))))")
  out=$(harness/seedtest.sh "$PWD/$d" $checks 2>&1)
  for c in $checks; do
    if echo "$out" | grep -q "VIOLATION property=$c"; then
      if echo "$out" | grep "VIOLATION property=$c" | grep -q "no-failing-input-found"; then echo "$id $c CAUGHT (no-failing-input-found)"; else echo "$id $c CAUGHT"; fi
    elif python3 -c "import json,sys; sys.exit(0 if json.load(open('$d/meta.json')).get('not_caught') else 1)"; then echo "$id $c NOT-CAUGHT (documented in meta.json)"
    else echo "$id $c MISSED"; fi
  done
}
export -f one
ls -d seeded/*/ | sed 's#/$##' | xargs -P ${JOBS:-4} -I{} bash -c 'one {}'
