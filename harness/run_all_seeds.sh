#!/bin/bash
# Runs every seeded change under /verif/seeded against the checks recorded as catching it
# (and against its own property's check), using harness/seedtest.sh (scratch copy of /repo).
# Prints one line per (seed, check): CAUGHT / MISSED.
cd "$(dirname "$0")/.."
for d in seeded/*/; do
  id=$(basename $d)
  checks=$(python3 -c "import json; m=json.load(open('$d/meta.json')); print(' '.join(sorted(set(m['caught_by']+[m['property']]))))")
  out=$(harness/seedtest.sh "$PWD/$d" $checks 2>&1)
  for c in $checks; do
    if echo "$out" | grep -q "VIOLATION property=$c"; then echo "$id $c CAUGHT"; else echo "$id $c MISSED"; fi
  done
done
