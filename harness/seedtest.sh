#!/bin/bash
# usage: harness/seedtest.sh <dir with patch.diff [demo.py]> <Cxx> [more checks...]
# Applies the seeded change to a scratch copy of /repo, confirms the repo's suite still passes and the
# demonstration fails, runs the named checks against the copy, removes the copy.
# The checks run from a scratch copy of /verif as well (generated Lean files, build outputs, evidence and
# replays of a mutated tree never touch /verif, and several seed runs can go on side by side).
set -u
ROOT="$(cd "$(dirname "$0")/.." && pwd)"
d=$1; shift
S=/tmp/seedrepo.$$
V=/tmp/seedverif.$$
rm -rf $S $V; cp -r /repo $S; rm -rf $S/.git/worktrees
( cd $S && git apply --whitespace=nowarn "$d/patch.diff" ) || { echo "PATCH-DOES-NOT-APPLY"; rm -rf $S; exit 3; }
# the integration tests bind 127.0.0.1:8080: a private network namespace keeps parallel runs apart
NS='ip link set lo up 2>/dev/null || /venv/bin/python -c "import socket,fcntl,struct; s=socket.socket(); fcntl.ioctl(s,0x8914,struct.pack(\"16sH\",b\"lo\",0x41))"'
( cd $S && unshare -n sh -c "$NS; exec \"\$@\"" sh /venv/bin/python -m pytest -q -p no:cacheprovider --timeout=900 --deselect tests/test_integration.py::TestIntegration::test_broken --deselect tests/test_live.py --deselect tests/test_proxy.py::test_bad_proxy --deselect tests/test_proxy.py::test_proxy --deselect tests/test_session.py::test_that_on_ping_responds_with_pong tests 2>&1 | tail -1 )
if [ -f "$d/demo.py" ]; then
  ( cd $d && PYTHONPATH=$S /venv/bin/python demo.py >/tmp/seed_demo.$$.out 2>&1; echo "demo on mutated tree: exit $?"; tail -2 /tmp/seed_demo.$$.out; rm -f /tmp/seed_demo.$$.out )
  ( cd $d && PYTHONPATH=/repo /venv/bin/python demo.py >/dev/null 2>&1; echo "demo on clean tree: exit $?" )
fi
rsync -a --exclude .git --exclude seeded --exclude replays "$ROOT/" $V/
for c in "$@"; do
  LOMOND_REPO=$S timeout ${SEED_TIMEOUT:-1500} $V/check $c --tier ${TIER:-quick} 2>&1 | grep -v '^KNOWN-FINDING' | tail -3 | sed "s#$V#/verif#g"
  rc=${PIPESTATUS[0]}
  [ "$rc" = 124 ] && echo "TIMEOUT $c (the check did not finish in ${SEED_TIMEOUT:-1500}s)"
done
rm -rf $S $V
