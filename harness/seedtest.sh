#!/bin/bash
# usage: harness/seedtest.sh <dir with patch.diff [demo.py]> <Cxx> [more checks...]
# Applies the seeded change to a scratch copy of /repo, confirms the repo's suite still passes and the
# demonstration fails, runs the named checks against the copy, removes the copy.
set -u
ROOT="$(cd "$(dirname "$0")/.." && pwd)"
d=$1; shift
S=/tmp/seedrepo.$$
rm -rf $S; cp -r /repo $S; rm -rf $S/.git/worktrees
( cd $S && git apply --whitespace=nowarn "$d/patch.diff" ) || { echo "PATCH-DOES-NOT-APPLY"; rm -rf $S; exit 3; }
( cd $S && /venv/bin/python -m pytest -q -p no:cacheprovider --timeout=900 --deselect tests/test_integration.py::TestIntegration::test_broken --deselect tests/test_live.py --deselect tests/test_proxy.py::test_bad_proxy --deselect tests/test_proxy.py::test_proxy --deselect tests/test_session.py::test_that_on_ping_responds_with_pong tests 2>&1 | tail -1 )
if [ -f "$d/demo.py" ]; then
  ( cd $d && PYTHONPATH=$S /venv/bin/python demo.py >/tmp/seed_demo.out 2>&1; echo "demo on mutated tree: exit $?"; tail -2 /tmp/seed_demo.out )
  ( cd $d && PYTHONPATH=/repo /venv/bin/python demo.py >/dev/null 2>&1; echo "demo on clean tree: exit $?" )
fi
for c in "$@"; do
  LOMOND_REPO=$S "$ROOT/check" $c --tier ${TIER:-quick} 2>&1 | tail -3
done
rm -rf $S
# restore generated files for the real tree
( cd "$ROOT" && PYTHONPATH=/repo /venv/bin/python harness/translate.py >/dev/null )
