"""C04 - protocol violations are detected, reported once, and fail the connection."""
from __future__ import annotations
import random, struct
import runner, coreutil, gen_core
from coreutil import Scenario, events, reads, cut, limit_chunks, random_cuts, toks
from refcodec import server_frame, close_payload, decode_client_frames, rfc3629_valid, first_bad_utf8_index

TRUSTED = [
    'correspondence: harness/world.py (real lomond driven in-process) vs the compiled model driver on the same operation lines',
    'violation classes and the stream encoder in harness/gen_core.py + refcodec.py are written from RFC 6455, not from lomond',
    'Lean spec Spec.headerVerdict / Spec.reservedCloseCode (Proofs/Violation.lean) is a transcription of RFC 6455 5.2/5.4/5.5/7.4 (+ RFC 7692 for RSV1); header_verdict() in this file is the same classification written independently in Python',
    'generated tables (Gen.reservedOpcodes, Gen.invalidCodeRanges, error texts) are re-extracted from /repo by harness/translate.py on every run',
]
ASSUMPTIONS = [
    'a violating frame is followed by enough bytes for the parser to see the violation (headers alone for header-level classes; the theorems header_classes / header_violation_stops assume the complete body of the announced length is present, length_2_63 only the 8 length bytes)',
    'theorems are about the repaired variant ctrlLen=true (D1); no_len_check_fails is the witness for the pinned behaviour',
    'header_classes: the extended-length forms 126/127 are exercised with a real length > 125 (lomond, like the RFC text on control frames, tests the real length; it does not reject non-minimal length encodings); payloads that fail the incremental UTF-8 check are a separate class (reported as a critical ProtocolError, covered by header_violation_stops / violation_reported_once)',
    'violation_reported_once / at_most_one_protocol_error count frames written by the library itself after the ProtocolError event: the application\'s own calls and a keep-alive Ping that falls due at that yield (session._regular runs after every event; ping_rate=0 in the generated scenarios) are not library Close traffic',
    'byte values are < 256 (b0, b1 < 256 in header_classes; Bytes.WF follows from Utf8.wf for close reasons)',
]


def make(rng, cls, pick=None, force_mid=None):
    sc = Scenario([], prate=0)
    sc.compress = rng.random() < 0.3      # the client OFFERED permessage-deflate; the reply below does not grant it: nothing changes
    pre_items = [gen_core.gen_item(rng) for _ in range(rng.randint(0, 3))]
    frames, expected = [], []
    for it in pre_items:
        frames += gen_core.serialise_item(rng, it)
        expected += it.expected()
    # optionally open a fragmented message before the violation
    mid = rng.random() < 0.35 or cls == 'data-inside-fragmented'
    mid_text = False
    if cls == 'orphan-continuation':
        mid = False
    if force_mid is not None:
        mid = force_mid
    if mid:
        mid_text = rng.random() < 0.5
        first = gen_core.rand_text(rng, 3) if mid_text else gen_core.rand_bytes(rng, 3)
        frames.append(server_frame(1 if mid_text else 2, first, fin=0))
        if cls == 'bad-utf8-text' and not mid_text:
            mid_text = True
            frames[-1] = server_frame(1, b'abc', fin=0)
    bad = gen_core.gen_violation(rng, cls, mid, pick)
    marker = b'SECRETMARKER'
    rest = b''.join(gen_core.serialise_item(rng, gen_core.Item('binary', marker + gen_core.rand_bytes(rng, 3)))) + \
        b''.join(gen_core.serialise_item(rng, gen_core.Item('text', b'LATERTEXT')))
    data = sc.good_reply() + b''.join(frames) + bad + rest
    chunks = limit_chunks(cut(data, random_cuts(rng, len(data), rng.choice([0, 1, 4, 10 ** 6 if len(data) < 3000 else 5]))))
    sc.env = reads(chunks) + [('wait', 1, ('eof',))]
    r = rng.random()
    if r < 0.25:
        # the application has already called close(): violations must still be detected while closing
        sc.reactions = {rng.choice([2, 3]): [('close', 1000, ('b', b'bye'))]}
    elif r < 0.4:
        sc.reactions = gen_core.gen_reactions(rng, 8, density=0.3, allow_close=False, allow_bad=False)
    return sc, expected, bad


# peer-controlled text with format metacharacters: it ends up in event attributes and (for violations) in error messages; whatever
# the library does with it, the outcome must be the one the property names (one ProtocolError / the reason delivered unchanged)
FORMAT_TEXTS = [b'{}', b'{0}', b'{x}', b'}{', b'%s', b'%(a)s', b'{"error": "shutdown"}', b'{', b'}', b'{0.__class__}', b'{!r:>{w}}', b'100%',
                b'%d %% %', b'{{}}', b'{1}{0}', 'caf\u00e9 {} \u20ac'.encode('utf-8'), b'reserved close code ({}): {}', b'']
RESERVED_CODES = [0, 1, 999, 1004, 1005, 1006, 1014, 1015, 1016, 1100, 2000, 2999]


def violating_fragment(frags):
    """index of the fragment of a TEXT message at which the message stops being (extendable to) well-formed UTF-8 (RFC 3629, via
       refcodec), or None for a valid message.  A sequence cut short by the end of the message is charged to the final fragment."""
    whole = b''.join(frags)
    k = first_bad_utf8_index(whole)
    if k is None:
        return None if rfc3629_valid(whole) else len(frags) - 1
    pos = 0
    for i, f in enumerate(frags):
        pos += len(f)
        if k <= pos:
            return i
    raise AssertionError


def make_late(rng, cls):
    """a violation that appears only in a LATER frame of a fragmented message: 1-4 valid fragments first (cut anywhere, also inside
       a UTF-8 sequence), control frames between all of them, directly before AND after the violating frame, then the rest of the
       message, more controls and later messages.  Returns (scenario, expected message events, description)"""
    sc = Scenario([], prate=0)
    sc.compress = rng.random() < 0.2           # offered, not granted
    frames, expected = [], []
    for it in [gen_core.gen_item(rng) for _ in range(rng.randint(0, 2))]:
        frames += gen_core.serialise_item(rng, it)
        expected += it.expected()

    def ctrls(p_some, marker=None):
        out = []
        for _ in range(rng.choice([1, 1, 2, 3]) if rng.random() < p_some else 0):
            c = gen_core.gen_control(rng)
            if marker:
                c = gen_core.Item(c.kind, marker + c.payload[:20])
            out.append(c)
        return out
    nvalid = rng.randint(1, 4)                  # valid fragments before the violating frame
    ntail = rng.randint(0, 2)                   # continuation frames after it (the last one final), 0: the server never finishes the message
    if cls == 'bad-utf8-fragment':
        bad = rng.choice(gen_core.BAD_UTF8_TEXTS + [b'\xff\xfe', b'\xc0', b'\xe0\x80', b'\xf8', b'a\xed\xbf\xbf', b'\xf4\x90'])
        whole = gen_core.rand_text(rng, rng.choice([1, 2, 5, 12])) + bad + gen_core.rand_text(rng, rng.choice([0, 1, 4, 9]))
        assert not rfc3629_valid(whole)
        k = first_bad_utf8_index(whole)
        # cut so that (when possible) at least one whole fragment precedes the offending byte, the rest at random
        pts = set(rng.randint(0, len(whole)) for _ in range(nvalid + ntail))
        if k is not None and k > 1:
            pts.add(rng.randint(1, k - 1))
        frs = cut(whole, pts) if rng.random() < 0.8 else [whole[a:b] for a, b in zip([0] + sorted(pts), sorted(pts) + [len(whole)])]
        fin_last = 1 if (k is None or rng.random() < 0.7) else 0      # a truncated sequence only shows at the end of the message
        j = violating_fragment(frs)
        if j == len(frs) - 1 and k is None:
            fin_last = 1
        wire = [server_frame(1 if i == 0 else 0, f, fin=(fin_last if i == len(frs) - 1 else 0)) for i, f in enumerate(frs)]
        pre, badframe, post = wire[:j], wire[j], wire[j + 1:]
        desc = 'text message of %d fragments, invalid at fragment %d (fin=%d)' % (len(frs), j, fin_last if j == len(frs) - 1 else 0)
    else:
        text = rng.random() < 0.5
        body = gen_core.rand_text(rng, rng.choice([2, 6, 15])) if text else gen_core.rand_bytes(rng, rng.choice([2, 6, 15]))
        parts = [body[a:b] for a, b in zip(*(lambda p: ([0] + p, p + [len(body)]))(sorted(rng.randint(0, len(body)) for _ in range(nvalid - 1))))]
        pre = [server_frame((1 if text else 2) if i == 0 else 0, f, fin=0) for i, f in enumerate(parts)]
        badframe = gen_core.gen_violation(rng, cls, True)
        post = [server_frame(0, b'tail%d' % i, fin=1 if i == ntail - 1 else 0) for i in range(ntail)]
        j = len(pre)
        desc = '%s frame after %d valid fragments of a %s message' % (cls, j, 'text' if text else 'binary')
    for i, f in enumerate(pre):
        frames.append(f)
        for c in ctrls(0.75 if i == len(pre) - 1 else 0.5):
            frames += gen_core.serialise_item(rng, c)
            expected += c.expected()
    after = []
    for c in ctrls(0.8, b'SECRETMARKER'):
        after += gen_core.serialise_item(rng, c)
    for f in post:
        after.append(f)
        for c in ctrls(0.4, b'SECRETMARKER'):
            after += gen_core.serialise_item(rng, c)
    after += gen_core.serialise_item(rng, gen_core.Item('text', b'LATERTEXT'))
    data = sc.good_reply() + b''.join(frames) + badframe + b''.join(after)
    chunks = limit_chunks(cut(data, random_cuts(rng, len(data), rng.choice([0, 0, 1, 4, 10 ** 6 if len(data) < 3000 else 5]))))
    sc.env = reads(chunks) + [('wait', 1, ('eof',))]
    r = rng.random()
    if r < 0.15:
        sc.reactions = {rng.choice([2, 3]): [('close', 1000, ('b', b'bye'))]}
    elif r < 0.3:
        sc.reactions = gen_core.gen_reactions(rng, 8, density=0.3, allow_close=False, allow_bad=False)
    elif r < 0.4:
        sc.autopong = False
    return sc, expected, desc


def make_close_text(rng, code, reason, closing_first=False):
    """0-2 delivered messages, a Close frame with the given code and reason text, a later text frame"""
    sc = Scenario([], prate=0)
    frames, expected = [], []
    for it in [gen_core.gen_item(rng) for _ in range(rng.randint(0, 2))]:
        frames += gen_core.serialise_item(rng, it)
        expected += it.expected()
    data = b''.join(frames) + server_frame(8, close_payload(code, reason)) + server_frame(1, b'LATERTEXT')
    if closing_first:
        sc.env = reads([sc.good_reply()] + limit_chunks(cut(data, random_cuts(rng, len(data), rng.choice([0, 1, 3]))))) + [('wait', 1, ('eof',))]
        sc.reactions = {2: [('close', 1000, ('b', b''))]}
    else:
        data = sc.good_reply() + data
        sc.env = reads(limit_chunks(cut(data, random_cuts(rng, len(data), rng.choice([0, 0, 1, 3]))))) + [('wait', 1, ('eof',))]
    return sc, expected


def judge(res, cls, js, line, real, expected, bad):
    tk = toks(real)
    evs = [t for t in tk if t.startswith('E:')]
    msgs = [e for e in evs if e.split(':')[1] in ('text', 'binary', 'ping', 'pong', 'closing', 'closed')]
    perr = [e for e in evs if e.startswith('E:protocol_error')]
    def fail(what):
        res.failures.append(dict(cls=('oversize-control' if cls == 'oversize-control' else 'violation:' + cls), what=what, input=line[:3000], scenario=js,
                                 observed=[e[:100] for e in evs[-6:]]))
    if msgs[:len(expected)] != expected:
        return fail('messages completed before the violation were not delivered normally')
    if len(perr) != 1:
        return fail('%d ProtocolError events (expected exactly one)' % len(perr))
    if len(msgs) != len(expected):
        return fail('content of the violating frame or of something after it was delivered: %s' % msgs[len(expected):][:2])
    if '534543524554' in ' '.join(evs[len(expected):]).lower() or '4c4154455254455854' in ' '.join(evs).upper().lower():
        return fail('later content delivered')
    if not evs or not evs[-1].startswith('E:disconnected') or not evs[-1].endswith(':0'):
        return fail('connection did not end with a non-graceful Disconnected: %s' % evs[-1:])
    # what the library wrote after the ProtocolError event
    i = tk.index(perr[0])
    # writes made by the library itself (an application call is followed by its R: result token)
    written = [t for k, t in enumerate(tk) if k >= i and t.startswith(('W:', 'Z:')) and not (k + 1 < len(tk) and tk[k + 1].startswith('R:'))]
    if len(written) > 1:
        return fail('more than one frame written after the violation')
    for w in written:
        try:
            fr = decode_client_frames(bytes.fromhex(w[2:]))
        except Exception as e:  # noqa
            return fail('unparseable write after violation: %s' % e)
        if len(fr) != 1 or fr[0]['opcode'] != 8:
            return fail('a non-Close frame was written after the violation')


def explore(res, tier, seed, model_ok=True):
    import gencheck   # differential test of the translated code (Generated/Code.lean) against the original Python
    gencheck.run(res, 'C04', tier, seed, model_ok)
    rng = random.Random(seed)
    per = 14 if tier == 'quick' else 150
    res.rule = ('valid prefix (0-3 delivered messages, optionally an open fragmented message) + one violating frame of each of %d classes + later frames carrying a marker, random segmentation; '
                'violations in a LATER frame of a fragmented message (1-4 valid fragments cut anywhere, invalid UTF-8 located by refcodec in a non-final or final continuation, every other class on/inside the open message; controls between all fragments, directly before and after the violating frame; message finished or never finished); '
                'Close frames whose reason text carries format metacharacters, with reserved codes (violation) and valid codes (reason delivered unchanged); '
                'plus exhaustively all 65536 two-byte frame headers (idle stream state; thorough: also mid-text, mid-binary, with compression negotiated) and all close codes 0..65535; '
                'non-trivial = every case (each contains a violation or a header to classify); distinct by stream') % len(gen_core.VIOLATIONS)
    scs, meta = [], []
    for cls in gen_core.VIOLATIONS:
        for _ in range(per):
            sc, exp, bad = make(rng, cls)
            scs.append(sc); meta.append((cls, exp, bad))
            res.count(cls)
    # every invalid-UTF-8 payload of the list, as a whole text frame and as the final fragment of a fragmented text message
    for pick in range(len(gen_core.BAD_UTF8_TEXTS)):
        for fm in (False, True):
            sc, exp, bad = make(rng, 'bad-utf8-text', pick, fm)
            scs.append(sc); meta.append(('bad-utf8-text', exp, bad))
            res.count('bad-utf8-text')
    pairs = coreutil.run_pairs(scs, model_ok)
    for (js, line, real, model), (cls, exp, bad) in zip(pairs, meta):
        if isinstance(real, dict):
            res.crashes.append(real); continue
        res.case(line)
        judge(res, cls, js, line, real, exp, bad)
    coreutil.check_corr(res, pairs)
    # ---- violations that appear only in a LATER frame of a fragmented message, control frames before and after the violating frame
    late_classes = ['bad-utf8-fragment'] * 3 + [c for c in gen_core.VIOLATIONS if c not in ('orphan-continuation', 'bad-utf8-text')]
    lscs, lmeta = [], []
    for cls in late_classes:
        for _ in range(8 if tier == 'quick' else 120):
            sc, exp, desc = make_late(rng, cls)
            lscs.append(sc); lmeta.append((cls, exp, desc))
            res.count('late:' + cls)
    lp = coreutil.run_pairs(lscs, model_ok)
    for (js, line, real, model), (cls, exp, desc) in zip(lp, lmeta):
        if isinstance(real, dict):
            res.crashes.append(real); continue
        res.case(line)
        n0 = len(res.failures)
        judge(res, 'bad-utf8-text' if cls == 'bad-utf8-fragment' else cls, js, line, real, exp, None)
        for f in res.failures[n0:]:
            f['what'] += ' [later frame of a fragmented message: %s]' % desc
    coreutil.check_corr(res, lp)
    # ---- peer-controlled text with format metacharacters in Close reasons: reserved codes (violation: exactly one ProtocolError whatever
    # the reason says) and valid codes (no violation: the reason is delivered unchanged)
    fscs, fmeta = [], []
    texts = FORMAT_TEXTS if tier == 'thorough' else FORMAT_TEXTS[:7] + rng.sample(FORMAT_TEXTS[7:], 3)
    for reason in texts:
        rcodes = RESERVED_CODES if tier == 'thorough' else rng.sample(RESERVED_CODES, 3)
        for code in rcodes + [None]:
            if code is None:
                code = rng.choice(gen_core.VALID_CLOSE_CODES)
            for closing_first in ((False, True) if tier == 'thorough' else (rng.random() < 0.25,)):
                sc, exp = make_close_text(rng, code, reason, closing_first)
                fscs.append(sc); fmeta.append((code, reason, exp, closing_first))
    fp = coreutil.run_pairs(fscs, model_ok)
    for (js, line, real, model), (code, reason, exp, closing_first) in zip(fp, fmeta):
        if isinstance(real, dict):
            res.crashes.append(real); continue
        res.case(line)
        if code in RESERVED_CODES:
            res.count('format-text:reserved-close-code')
            n0 = len(res.failures)
            judge(res, 'reserved-close-code', js, line, real, exp, None)
            for f in res.failures[n0:]:
                f['what'] += ' [Close %d with reason %r]' % (code, reason)
        else:
            res.count('format-text:valid-close-code')
            evs = events(real)
            msgs = [e for e in evs if e.split(':')[1] in ('text', 'binary', 'ping', 'pong', 'closing', 'closed')]
            want = exp + [('E:closed:%s:%s' if closing_first else 'E:closing:%s:%s') % (code, reason.hex())]
            if msgs[:len(want)] != want or any(e.startswith('E:protocol_error') for e in evs) or any(t.startswith('ESCAPED') for t in toks(real)) \
                    or not evs[-1].startswith('E:disconnected:closed'):
                res.failures.append(dict(cls='close-reason-text', what='valid Close %d with reason %r: the reason was not delivered unchanged / the close handshake was disturbed' % (code, reason),
                                         input=line[:3000], scenario=js, observed=[e[:100] for e in evs[-5:]], expected=want[-1]))
    coreutil.check_corr(res, fp)
    # ---- the same violations on an object with a history: what an EARLIER connection negotiated or left half-parsed must not
    # make a violation acceptable on the next connection (RSV1 after a connection with permessage-deflate, a continuation after
    # a connection that ended inside a fragmented message, ...)
    g0 = Scenario([])
    prevs = [('deflate-negotiated', Scenario(reads([g0.good_reply(b'Sec-WebSocket-Extensions: permessage-deflate\r\n') + server_frame(1, b'plain')]) + [('wait', 0, ('eof',))], {}, prate=0)),
             ('mid-fragment', Scenario(reads([g0.good_reply() + server_frame(1, b'he', fin=0)]) + [('wait', 0, ('eof',))], {}, prate=0)),
             ('closing', Scenario(reads([g0.good_reply()]) + [('wait', 0, ('eof',))], {2: [('close', 1000, ('b', b''))]}, prate=0))]
    nexts = []
    for cls, frame in (('rsv-bits', server_frame(2, bytes.fromhex('f248cdc9c90700'), rsv1=1)), ('rsv-bits', server_frame(1, b'x', rsv1=1)),
                       ('orphan-continuation', server_frame(0, b'llo', fin=1)), ('reserved-opcode', server_frame(3, b''))):
        s2 = Scenario([], {}, prate=0)
        s2.key_seed = 77
        s2.env = reads([s2.good_reply() + frame + server_frame(1, b'after')]) + [('wait', 0, ('eof',))]
        nexts.append((cls, s2))
    chains = [[coreutil.scenario_to_json(a), coreutil.scenario_to_json(b)] for _, a in prevs for _, b in nexts]
    cmeta = [(pn, cls) for pn, _ in prevs for cls, _ in nexts]
    fresh = coreutil.run_pairs([b for _, b in nexts], model_ok)
    for (pn, cls), ch, tr in zip(cmeta, chains, runner.parallel_map('coreutil', 'real_chain', chains, chunk=4)):
        if isinstance(tr, dict):
            res.crashes.append(tr); continue
        res.case(('after', pn, cls)); res.count('violation_after_' + pn)
        got = tr[-1]
        want = fresh[[c for c, _ in nexts].index(cls) if cls != 'rsv-bits' else 0][2]
        evs2 = [t for t in got.split(' ') if t.startswith('E:')]
        if not any(e.startswith('E:protocol_error') for e in evs2) or any(e.startswith(('E:text', 'E:binary')) for e in evs2):
            res.failures.append(dict(cls='violation:' + cls, what='on an object whose previous connection was "%s": the violation was not reported / a message was delivered' % pn,
                                     input=dict(previous=ch[:-1], next=ch[-1]), observed=[e[:80] for e in evs2]))
    # ---- all two-byte headers ----------------------------------------------------------
    # RSV1 headers when the client offered permessage-deflate and the server did NOT grant it (still a reserved bit), and RSV2/RSV3 on a
    # continuation frame inside a message when it did (still reserved)
    tscs, tmeta = [], []
    for b0 in (0xc1, 0xc2, 0xc9, 0xc0, 0x41, 0x42, 0x49):
        for b1 in (0x00, 0x01, 0x05, 0x7d):
            sc = Scenario([], prate=0, compress=True)
            body = b'x' * (b1 & 0x7f)
            sc.env = reads([sc.good_reply() + bytes([b0, b1]) + body + server_frame(1, b'AFTER')]) + [('wait', 1, ('eof',))]
            tscs.append(sc); tmeta.append(('offered-not-granted %02x %02x' % (b0, b1)))
    for b0 in (0x20, 0x10, 0x30, 0xa0, 0x90, 0xb0, 0x60, 0xe0):
        sc = Scenario([], prate=0, compress=True)
        sc.env = reads([sc.good_reply(b'Sec-WebSocket-Extensions: permessage-deflate\r\n') + server_frame(1, b'ab', fin=0) + bytes([b0, 0x01]) + b'c' + server_frame(1, b'AFTER')]) + [('wait', 1, ('eof',))]
        tscs.append(sc); tmeta.append(('granted, continuation with RSV2/3 %02x' % b0))
    tp = coreutil.run_pairs(tscs, model_ok)
    for (js, line, real, model), what in zip(tp, tmeta):
        if isinstance(real, dict):
            res.crashes.append(real); continue
        res.case(('rsv-targeted', what)); res.count('rsv_targeted')
        evs2 = events(real)
        if len([e for e in evs2 if e.startswith('E:protocol_error')]) != 1 or any(e.split(':')[1] in ('text', 'binary', 'ping', 'pong') for e in evs2):
            res.failures.append(dict(cls='violation:rsv-bits', what='reserved bit not handled as a violation (%s)' % what, input=line[:3000], scenario=js, observed=[e[:80] for e in evs2[-5:]]))
    coreutil.check_corr(res, tp)
    states = [('idle', b'', False)]
    if tier == 'thorough':
        states += [('mid-text', server_frame(1, b'ab', fin=0), False), ('mid-binary', server_frame(2, b'ab', fin=0), False),
                   ('idle-deflate', b'', True)]
    for sname, prefix, defl in states:
        hscs, hmeta = [], []
        for b0 in range(256):
            for b1 in range(256):
                sc = Scenario([], prate=0)
                ln = b1 & 0x7f
                ext = b''
                if ln == 126:
                    ln = 130; ext = struct.pack('!H', ln)
                elif ln == 127:
                    ln = 130; ext = struct.pack('!Q', ln)      # non-minimal form, real length 130
                body = ext + (b'\x01\x02\x03\x04' if b1 & 0x80 else b'') + b'abcdefgh'[:ln] + b'x' * max(0, ln - 8)
                hs = sc.good_reply(b'Sec-WebSocket-Extensions: permessage-deflate\r\n' if defl else b'')
                # the frame after the tested one must itself be legal: a continuation while a fragmented
                # message is open (the tested frame opened one, continued one without FIN, or is a control frame inside one)
                op_, fin_ = b0 & 0x0f, b0 >> 7
                open_after = (op_ in (1, 2) and not fin_) or (bool(prefix) and (op_ >= 8 or (op_ == 0 and not fin_)))
                after = server_frame(0, b'AFTER') if open_after else server_frame(2, b'AFTER')
                data = hs + prefix + bytes([b0, b1]) + body + after
                sc.env = reads([data]) + [('wait', 1, ('eof',))]
                hscs.append(sc); hmeta.append((b0, b1))
        hp = coreutil.run_pairs(hscs, model_ok)
        for (js, line, real, model), (b0, b1) in zip(hp, hmeta):
            if isinstance(real, dict):
                res.crashes.append(real); continue
            res.case(('hdr', sname, b0, b1))
            spec = header_verdict(b0, b1, sname, defl)
            evs = events(real)
            perr = [e for e in evs if e.startswith('E:protocol_error')]
            delivered_after = any('4146544552' in e for e in evs)
            # the prefix of these streams completes no message: ANY message event would carry content of the violating frame or of what follows it
            delivered_any = [e for e in evs if e.split(':')[1] in ('text', 'binary', 'ping', 'pong', 'closing', 'closed')]
            closes_written = sum(1 for t in real.split(' ') if t.startswith('W:88'))
            if spec == 'violation':
                if len(perr) != 1 or delivered_after or delivered_any or closes_written > 1 or not evs[-1].startswith('E:disconnected') or not evs[-1].endswith(':0'):
                    res.failures.append(dict(cls='oversize-control' if (b0 & 0x0f) >= 8 and (b1 & 0x7f) > 125 and header_verdict(b0, b1 & 0x80 | 5, sname, defl) != 'violation' else 'header-class',
                                             what='header %02x %02x in state %s is a violation but was not handled as one' % (b0, b1, sname),
                                             input=line[:3000], scenario=js, observed=[e[:80] for e in evs[-5:]]))
            elif spec == 'ok':
                if perr and 'utf' not in perr[0] and 'decompress' not in perr[0] and 'close' not in perr[0]:
                    res.failures.append(dict(cls='header-false-alarm', what='legal header %02x %02x in state %s reported as violation %s' % (b0, b1, sname, perr[0]),
                                             input=line[:3000], scenario=js))
        coreutil.check_corr(res, hp)
        res.exhaustive['two_byte_headers_state_' + sname] = len(hscs)
    # ---- all close codes ------------------------------------------------------------------
    step = 1 if tier == 'thorough' else 7
    codes = sorted(set(list(range(0, 65536, step)) + list(range(990, 1030)) + list(range(2990, 3010)) + [4999, 5000, 65535]))
    cscs, cmeta = [], []
    for closing_first in (False, True):
        for c in (codes if not closing_first else codes[::3] + list(range(990, 1030)) + list(range(2990, 3010))):
            sc = Scenario([], prate=0)
            sc.env = reads([sc.good_reply() + server_frame(8, close_payload(c, b'r'))]) + [('wait', 1, ('eof',))]
            if closing_first:
                sc.env = reads([sc.good_reply(), server_frame(8, close_payload(c, b'r'))]) + [('wait', 1, ('eof',))]
                sc.reactions = {2: [('close', 1000, ('b', b''))]}
            cscs.append(sc); cmeta.append(c)
    cp = coreutil.run_pairs(cscs, model_ok)
    for (js, line, real, model), c in zip(cp, cmeta):
        if isinstance(real, dict):
            res.crashes.append(real); continue
        res.case(('code', c))
        reserved = c < 1000 or c in (1004, 1005, 1006) or 1014 <= c <= 2999
        evs = events(real)
        perr = [e for e in evs if e.startswith('E:protocol_error')]
        closing = [e for e in evs if e.startswith(('E:closing', 'E:closed'))]
        if reserved and (len(perr) != 1 or closing):
            res.failures.append(dict(cls='close-code', what='reserved close code %d accepted' % c, input=line[:2000], scenario=js))
        if not reserved and (perr or len(closing) != 1):
            res.failures.append(dict(cls='close-code-false-alarm', what='valid close code %d rejected' % c, input=line[:2000], scenario=js))
    coreutil.check_corr(res, cp)
    res.exhaustive['close_codes'] = len(codes)
    res.samples += [pairs[0][1][:300] if pairs else '', 'header 0x89 0x7e in state idle', 'close code 1005']


def header_verdict(b0, b1, state, deflate):
    """independent classification of a 2-byte header from RFC 6455 (+ RFC 7692 for RSV1)"""
    fin, rsv1, rsv2, rsv3, op = b0 >> 7, (b0 >> 6) & 1, (b0 >> 5) & 1, (b0 >> 4) & 1, b0 & 15
    masked, ln = b1 >> 7, b1 & 0x7f
    if rsv2 or rsv3 or (rsv1 and not deflate):
        return 'violation'
    if op in (3, 4, 5, 6, 7, 11, 12, 13, 14, 15):
        return 'violation'
    if op >= 8 and (not fin or ln > 125):
        return 'violation'
    if masked:
        return 'violation'
    mid = state.startswith('mid')
    if op == 0 and not mid:
        return 'violation'
    if op in (1, 2) and mid:
        return 'violation'
    if rsv1 and deflate and (op >= 8 or op == 0):
        # RFC 7692 6.1: RSV1 belongs on the first frame of a data message only.  Property C04 lists "a reserved bit without a
        # negotiated extension", so either behaviour satisfies it (lomond accepts these frames; a stricter client may refuse them)
        return 'either'
    return 'ok'


def replay(rp):
    inp = rp.get('input')
    if isinstance(inp, dict) and 'previous' in inp:
        for t in coreutil.real_chain(inp['previous'] + [inp['next']]):
            print(t)
        return 0
    return coreutil.replay_core(rp)
