"""C13 - abandoning the event loop at any event releases the socket (and the selector)."""
from __future__ import annotations
import copy, random
import runner, coreutil, gen_core
from coreutil import Scenario, events, reads
from refcodec import server_frame, close_payload

TRUSTED = ['correspondence: harness/world.py (records close() on the simulated socket and selector)']
ASSUMPTIONS = ['when CPython finalises a dropped generator is runtime behaviour: the harness uses explicit close(), or drops the last reference and calls gc.collect()',
               'four mechanisms: gen.close(), break + drop, exception raised in the handler, exception leaving a with-block']
MECHS = ['close', 'drop', 'raise', 'with']


def base_scenarios(rng, n):
    out = []
    fixed = []
    sc = Scenario([], poll=5, prate=0)
    fixed.append(Scenario(reads([sc.good_reply()]) + [('wait', 5, None), ('wait', 5, None), ('wait', 0, ('data', server_frame(1, b'hi') + server_frame(9, b'p'))),
                                                      ('wait', 0, ('data', server_frame(8, close_payload(1000, b'bye')))), ('wait', 1, ('eof',))], {}, poll=5, prate=0))
    fixed.append(Scenario(reads([sc.good_reply() + server_frame(1, b'\xff')]) + [('wait', 1, ('eof',))], {}, prate=0))
    fixed.append(Scenario(reads([sc.good_reply() + server_frame(3, b'')]) + [('wait', 1, ('eof',))], {}, prate=0))
    fixed.append(Scenario(reads([sc.good_reply()]) + [('wait', 5, None), ('wait', 5, None), ('wait', 5, None), ('wait', 1, ('eof',))], {}, poll=5, prate=0, ptimeout=8))
    fixed.append(Scenario(reads([b'HTTP/1.1 404 Nope\r\n\r\n']) + [('wait', 1, ('eof',))], {}, prate=0))
    fixed.append(Scenario(reads([sc.good_reply()]) + [('wait', 0, ('data', server_frame(8, close_payload(1001, b''))))] + [('wait', 1, ('eof',))], {2: [('close', 1000, ('b', b'x'))]}, prate=0))
    fixed.append(Scenario([('wait', 1, ('eof',))], {}, conn='sockfail'))
    fixed.append(Scenario([('wait', 1, ('eof',))], {}, conn='selfail'))        # the selector cannot be created
    fixed.append(Scenario([('wait', 1, ('eof',))], {}, wfail={0}))          # upgrade request cannot be written
    fixed.append(Scenario([('wait', 1, ('eof',))], {0: [('close', 1000, ('b', b''))]}))     # close() at Connecting: request refused
    fixed.append(Scenario(reads([sc.good_reply()]) + [('wait', 0, ('sockerr',))], {}, prate=0))
    # closing handshake under way (started by the application / by the server) while housekeeping Polls, pings and a violation go by
    fixed.append(Scenario(reads([sc.good_reply()]) + [('wait', 5, None)] * 3 + [('wait', 0, ('data', server_frame(3, b'')))] + [('wait', 1, ('eof',))],
                          {2: [('close', 1000, ('b', b'bye'))]}, poll=5, prate=0))
    fixed.append(Scenario(reads([sc.good_reply() + server_frame(8, close_payload(1000, b'bye'))]) + [('wait', 5, None)] * 3 + [('wait', 1, ('eof',))], {}, poll=5, prate=0))
    fixed.append(Scenario(reads([sc.good_reply()]) + [('wait', 2, None)] * 6 + [('wait', 1, ('eof',))], {3: [('close', 1001, ('b', b''))]}, poll=2, prate=3, ptimeout=0, ctimeout=7))
    # wss://: the socket is an SSLSocket (it has unwrap() / pending(); a peer that is gone does not answer a close_notify)
    W = 'wss://example.com/chat'
    fixed.append(Scenario(reads([sc.good_reply()]) + [('wait', 5, None), ('wait', 0, ('data', server_frame(1, b'hi') + server_frame(9, b'p'))),
                                                      ('wait', 0, ('data', server_frame(8, close_payload(1000, b'bye')))), ('wait', 1, ('eof',))], {}, poll=5, prate=0, url=W))
    fixed.append(Scenario(reads([sc.good_reply()]) + [('wait', 5, None)] * 2 + [('wait', 1, ('eof',))], {2: [('close', 1000, ('b', b'bye'))]}, poll=5, prate=0, url=W))
    fixed.append(Scenario(reads([sc.good_reply() + server_frame(1, b'\xff')]) + [('wait', 0, ('sockerr',))], {}, prate=0, url=W))
    out += fixed
    while len(out) < n:
        out.append(gen_core.gen_history(rng, n_steps=rng.randint(1, 6), timers=rng.random() < 0.5, reactions=rng.random() < 0.3))
    return out


def explore(res, tier, seed, model_ok=True):
    rng = random.Random(seed)
    nbase = 30 if tier == 'quick' else 250
    res.rule = ('%d base scenarios (17 fixed - three of them wss:// connections, whose socket has unwrap()/pending() like an SSLSocket - covering every yield point of run(): Connecting, ConnectFail, Connected, housekeeping Poll, Unresponsive, Ready, messages, Closing, Closed, Rejected, ProtocolError, Disconnected; rest random) '
                'x every event index x 4 abandonment mechanisms (generator close(), break+drop, exception in handler, exception leaving a with-block); '
                'a sample of the same abandonments as the second connection on an object whose first connection ran in a with-block / raised / was closed by the server; the generator closed while ANOTHER THREAD is inside a send (plain, compressed, ping, close()) at every sync point of that send (deterministic scheduler of C11; each run compared with the thread model, loop call `.abandon`, on step log, chunks, results and flags); oracle: simulated socket and selector both closed afterwards; non-trivial = abandonment at an event where a socket exists; distinct by (scenario, index, mechanism)') % nbase
    import closesock
    closesock.run(res, model_ok)
    bases = base_scenarios(rng, nbase)
    base_pairs = coreutil.run_pairs(bases, model_ok)
    scs, meta = [], []
    for sc, (js, line, real, model) in zip(bases, base_pairs):
        if isinstance(real, dict):
            res.crashes.append(real); continue
        # also when nobody abandons anything: however the run ends (normally, or with an exception leaving the iterator) nothing stays open
        end0 = real.split(' ')[-1]
        res.case((line, 'not-abandoned'), nontrivial='E:connected' in real)
        if 'sock=1' in end0 or 'sel=1' in end0:
            res.failures.append(dict(cls='leak-at-end', what='the iteration ended (%s) and left %s open' % ('an exception escaped' if 'ESCAPED' in real else 'normally', 'the socket' if 'sock=1' in end0 else 'the selector'),
                                     input=line[-1200:], scenario=js, observed=end0))
        evs = events(real)
        for i in range(len(evs)):
            for mech in MECHS:
                s2 = coreutil.scenario_from_json(js)
                rx = dict(s2.reactions)
                rx[i] = list(rx.get(i, [])) + [('abandon', mech)]
                s2.reactions = rx
                scs.append(s2); meta.append((evs[i].split(':')[1], mech))
    pairs = coreutil.run_pairs(scs, model_ok)
    for (js, line, real, model), (evname, mech) in zip(pairs, meta):
        if isinstance(real, dict):
            res.crashes.append(real); continue
        res.case((line, mech), nontrivial=evname not in ('connecting', 'connect_fail'))
        res.count('at_' + evname); res.count('mech_' + mech)
        end = real.split(' ')[-1]
        if 'sock=1' in end or 'sel=1' in end:
            res.failures.append(dict(cls='leak-at-' + evname, what='abandoning at %s by %s leaves %s open' % (evname, mech, 'socket' if 'sock=1' in end else 'selector'),
                                     input=line[-1200:], scenario=js, observed=end))
    coreutil.check_corr(res, pairs)
    explore_threads(res, tier, model_ok)
    # the same abandonments on an object with a history: earlier connections on the SAME WebSocket object that were used
    # inside a with-block / abandoned in other ways (state kept on the object must not keep the new connection's generator alive)
    g = Scenario([]).good_reply()
    prevs = [('with-abandoned', Scenario(reads([g + server_frame(2, b'zz')]), {4: [('abandon', 'with')]}, prate=0)),
             ('with-completed', Scenario(reads([g]) + [('wait', 0, ('eof',))], {0: [('abandon', 'with')]}, prate=0)),
             ('raised', Scenario(reads([g]), {2: [('abandon', 'raise')]}, prate=0)),
             ('closed-by-server', Scenario(reads([g + server_frame(8, close_payload(1000, b''))]) + [('wait', 0, ('eof',))], {}, prate=0))]
    # 'with-completed': the with-block is entered, the abandonment at Connecting leaves it at once (no socket yet)
    step = max(1, len(scs) // (60 if tier == 'quick' else 600))
    chains, cmeta = [], []
    for k in range(0, len(scs), step):
        name, prev = prevs[(k // step) % len(prevs)]
        js = pairs[k][0]
        if isinstance(pairs[k][2], dict):
            continue
        pj = coreutil.scenario_to_json(prev)
        pj['compress'], pj['url'], pj['protocols'] = js['compress'], js['url'], js['protocols']      # constructor arguments belong to the object
        chains.append([pj, js]); cmeta.append((name, k))
    # ... and systematically: after each kind of previous connection, a plain connection abandoned at every event by every mechanism
    plain = Scenario(reads([g + server_frame(1, b'hello') + server_frame(9, b'p')]) + [('wait', 5, None), ('wait', 1, ('eof',))], {}, prate=0)
    plain_evs = events(coreutil.real_one(coreutil.scenario_to_json(plain)))
    sys_chains, sys_meta = [], []
    for name, prev in prevs:
        for i in range(len(plain_evs)):
            for mech in MECHS:
                nx = coreutil.scenario_from_json(coreutil.scenario_to_json(plain))
                nx.reactions = {i: [('abandon', mech)]}
                sys_chains.append([coreutil.scenario_to_json(prev), coreutil.scenario_to_json(nx)]); sys_meta.append((name, plain_evs[i].split(':')[1], mech))
    for ch, tr, (name, evname, mech) in zip(sys_chains, runner.parallel_map('coreutil', 'real_chain', sys_chains, chunk=10), sys_meta):
        if isinstance(tr, dict):
            res.crashes.append(tr); continue
        res.case(('after-sys', name, evname, mech), nontrivial=evname not in ('connecting',)); res.count('after_' + name)
        end = tr[-1].split(' ')[-1]
        if 'sock=1' in end or 'sel=1' in end:
            res.failures.append(dict(cls='leak-at-' + evname, what='on an object whose previous connection was "%s": abandoning at %s by %s leaves %s open' % (name, evname, mech, 'socket' if 'sock=1' in end else 'selector'),
                                     input=dict(previous=ch[:-1], next=ch[-1]), observed=end))
    traces = runner.parallel_map('coreutil', 'real_chain', chains, chunk=10)
    for ch, tr, (name, k) in zip(chains, traces, cmeta):
        if isinstance(tr, dict):
            res.crashes.append(tr); continue
        evname, mech = meta[k]
        res.case(('after', name, pairs[k][1], mech), nontrivial=evname not in ('connecting', 'connect_fail'))
        res.count('after_' + name)
        end = tr[-1].split(' ')[-1]
        if 'sock=1' in end or 'sel=1' in end:
            res.failures.append(dict(cls='leak-at-' + evname, what='on an object whose previous connection was "%s": abandoning at %s by %s leaves %s open' % (name, evname, mech, 'socket' if 'sock=1' in end else 'selector'),
                                     input=dict(previous=ch[:-1], next=ch[-1]), observed=end))
        elif tr[-1] != pairs[k][2]:
            res.diffs.append(dict(input=pairs[k][1][:2000], real=tr[-1][-1000:], model=(pairs[k][3] or pairs[k][2])[-1000:], scenario=pairs[k][0], previous=ch[:-1]))
    # abandoned generators that the application keeps (finalised only after the NEXT connect() on the object, or in the middle of
    # the next connection): when everything has been finalised, every connection's socket and selector must be closed
    g = Scenario([]).good_reply()
    nxt = Scenario(reads([g + server_frame(1, b'next')]) + [('wait', 0, ('eof',))], {}, prate=0)
    nxt.key_seed = 9
    kchains, kmeta = [], []
    for mech in ('late', 'late2'):
        for k in (1, 2, 3, 4, 5):
            prev = Scenario(reads([g + server_frame(1, b'one') + server_frame(9, b'p') + server_frame(1, b'two')]) + [('wait', 5, None)], {k: [('abandon', mech)]}, prate=0)
            kchains.append([coreutil.scenario_to_json(prev), coreutil.scenario_to_json(nxt)]); kmeta.append((mech, k))
            kchains.append([coreutil.scenario_to_json(prev), coreutil.scenario_to_json(prev), coreutil.scenario_to_json(nxt)]); kmeta.append((mech + 'x2', k))
    for ch, out, (mech, k) in zip(kchains, runner.parallel_map('coreutil', 'real_chain_final', kchains, chunk=5), kmeta):
        if '__crash__' in out:
            res.crashes.append(out); continue
        res.case(('kept', mech, k)); res.count('kept_generator_' + mech)
        open_ = [i for i, (so, se) in enumerate(out['final']) if so or se]
        if open_:
            res.failures.append(dict(cls='leak-kept-generator', what='generator abandoned at event %d and kept until after the next connect() (%s): connection(s) %s still have a socket / selector open after everything was finalised' % (k, mech, open_),
                                     input=dict(previous=ch[:-1], next=ch[-1]), observed=out['final']))
    res.samples += [pairs[9][1][-300:], pairs[-1][1][-300:]]


def thread_cases(tier):
    """the consumer walks away (the loop thread closes the event generator) WHILE another thread is inside a send - before it, inside
    the write lock at every sync point (also of a compressed send: compress, flush, the chunks of sendall), after it: whatever the
    interleaving, the socket is closed once both threads are done.  (harness/sched.py, loop program `ab`; compared with the thread
    model - loop call `.abandon` - and judged by the oracle.)  `abandon-window`: the sender gets the lock right after the loop has shut the
    socket down and before `_sock = None` / `closed = True` are stored: its sendall fails on the closed socket (TransportFail), in the
    thread model as well (`failWrite` on `sockShut`): compared with the model like all other runs, and counted."""
    import props.c11 as c11
    out = []
    shapes = [(0, ['st0']), (1, ['st1']), (2, ['sb1']), (1, ['sb1', 'st0']), (0, ['pi']), (0, ['cl'])]
    for z, kinds in shapes:
        prog = [('cl=1000,' + b'bye'.hex()) if k == 'cl' else c11.prog(0, [k])[0] for k in kinds]
        for j in range(0, 14 if tier == 'quick' else 24):
            for back in ((0,) if tier == 'quick' else (0, 1, 3)):
                out.append(dict(z=z, progs=[prog, ['ab']], mode='sync', family='abandon-while-sending',
                                schedule=[0] * j + [1] * (3 + back) + [0] * back + [1] * 40))
        # the loop up to its release (rd:sock, acq, sockclose, rel), the sender k steps, the loop one store at a time
        for j in (0, 1):
            for k in (1, 2, 3, 4, 5, 8):
                for m in (0, 1, 2, 3):
                    out.append(dict(z=z, progs=[prog, ['ab']], mode='sync', family='abandon-window',
                                    schedule=[0] * j + [1] * 4 + [0] * k + [1] * m + [0] * 12 + [1] * 40))
        # ROUND-ROBIN schedules (Properties/C13_Fair.lean: `round_robin_completes`, `abandon_round_robin_socket_shut`): one or two
        # senders and the abandoning loop, entry j = thread (j + rot) % n, far longer than needed: see `rr_walk`
        for second in (None, 'pi', 'st0'):
            progs = [prog] + ([c11.prog(1, [second])] if second else []) + [['ab']]
            n = len(progs)
            for rot in (range(n) if tier != 'quick' else (0, n - 1)):
                out.append(dict(z=z, progs=progs, mode='sync', family='round-robin', rr=[n, rot],
                                schedule=[(j + rot) % n for j in range(RR_LEN)]))
    return out


RR_LEN = 400
# `example`s of Properties/C13_Fair.lean (kernel-checked): programs send_text (uncompressed) / send_ping / abandon, round-robin from
# thread 0: all threads are done after exactly 60 entries, 23 of which moved a thread (model bound: 3 * 23 = 69 entries)
RR_ANCHOR = dict(kinds=('st0', 'pi', 'ab'), rot=0, entries=60, moving=23, bound=69)


def rr_walk(n, rot, length, steps):
    """Re-read the step log of a run under the round-robin schedule `(j + rot) % n`, j < length: an entry of an unfinished thread logs
    exactly one record (its sync step, or `blocked`), an entry of a finished thread logs nothing.  Returns (entries consumed up to the
    last record, records that are steps, longest run of consecutive entries without a step before the end), or None when the log is not
    that of the round-robin schedule alone (the schedule ran out and the scheduler had to drain the threads itself)."""
    tot = [sum(1 for t, _ in steps if t == u) for u in range(n)]
    used = [0] * n
    i = j = idle = worst = moving = 0
    while i < len(steps):
        if j >= length:
            return None
        t = (j + rot) % n
        j += 1
        if used[t] == tot[t]:
            idle += 1
        else:
            if steps[i][0] != t:
                return None
            used[t] += 1
            if steps[i][1] == 'blocked':
                idle += 1
            else:
                moving += 1
                idle = 0
            i += 1
        worst = max(worst, idle)
    return j, moving, worst


def explore_threads(res, tier, model_ok=True):
    import thrutil
    cases = thread_cases(tier)
    reals = runner.parallel_map('thrutil', 'real_case', cases, chunk=20)
    todo = [(c, r) for c, r in zip(cases, reals) if '__crash__' not in r]
    lines = [thrutil.model_line(c, r['steps']) for c, r in todo]
    models = dict(zip((id(r) for _, r in todo), runner.model_run(lines) if (model_ok and lines) else [None] * len(lines)))
    if model_ok and lines:
        models = dict(zip((id(r) for _, r in todo), thrutil.align_models(res, todo, [models[id(r)] for _, r in todo])))
    mlines = dict(zip((id(r) for _, r in todo), lines))
    for c, r in zip(cases, reals):
        if '__crash__' in r:
            res.crashes.append(r); continue
        res.case((c['family'], c['z'], tuple(c['progs'][0]) if c['family'] != 'round-robin' else tuple(map(tuple, c['progs'])), tuple(t for t, _ in r['steps'])), nontrivial=True)
        res.count('abandon_while_another_thread_sends')
        res.count('family_' + c['family'])
        if any(k == 'blocked' for t, k in r['steps'] if t == 1):
            res.count('abandon_waited_for_the_write_lock')
        thrutil.note_soft_problems(res, r['problems'])
        if thrutil.hard_problems(r['problems']):
            res.diffs.append(dict(input=c, real=' '.join('%d:%s' % x for x in r['steps'])[-1200:], model='(harness) ' + '; '.join(thrutil.hard_problems(r['problems']))[:800]))
        m = models.get(id(r))
        if thrutil.dead_writes(r):
            res.count('model_compared_write_attempted_on_socket_already_shut_by_the_loop' if m is not None
                      else 'NOT_model_compared_write_attempted_on_socket_already_shut_by_the_loop')
            for t, i in sorted(thrutil.dead_writes(r)):
                got = r['results'].get(t, [])
                if i < len(got) and got[i] == 'ok' and not c['progs'][t][i].startswith('cl='):
                    res.failures.append(dict(cls='swallowed-transport-fail', what='call %d of thread %d was attempted on the socket the loop had shut down and returned ok' % (i, t),
                                             input=dict(threads=c), observed=repr(r['results'])))
        if m is not None:
            res.traces_validated += 1
            res.count('abandon_compared_with_thread_model')
            real_line = thrutil.canon_real(c, r)
            mm, peer = thrutil.strip_peer(m)
            if not thrutil.same_observables(mm, real_line):
                res.diffs.append(dict(input=c, line=mlines[id(r)], real=real_line[-2500:], model=mm[-2500:]))
        if c['family'] == 'round-robin':
            # ORACLE (from the property text, no model): under round-robin every thread finishes without help, no full round passes
            # without a step while a thread is unfinished (no deadlock, no livelock), hence within n * (steps made) entries
            n, rot = c['rr']
            w = rr_walk(n, rot, len(c['schedule']), r['steps'])
            if w is None or w[2] >= n or w[0] > n * max(w[1], 1):
                res.failures.append(dict(cls='round-robin-stalls', what='round-robin over %d threads (%s) does not bring every thread to completion with a step in every round: %r' % (n, thrutil.progs_str(c), w),
                                         input=dict(threads=c), observed=' '.join('%d:%s' % x for x in r['steps'])[-1200:],
                                         expected='all threads done within n * steps entries, fewer than n consecutive entries without a step'))
            else:
                res.count('round_robin_completed_within_n_times_steps')
                res.count('round_robin_needed_%s_times_its_steps' % ('<=1.5' if 2 * w[0] <= 3 * w[1] else '<=2' if w[0] <= 2 * w[1] else '<=3' if w[0] <= 3 * w[1] else '>3'))
                a = RR_ANCHOR
                if c['z'] == 0 and rot == a['rot'] and tuple(p[0].split('=')[0] for p in c['progs']) == a['kinds']:
                    # MODEL vs real: the numbers the Lean `example` states for this very run
                    res.count('round_robin_anchor_compared_with_lean_example')
                    if (w[0], w[1]) != (a['entries'], a['moving']) or w[0] > a['bound']:
                        res.diffs.append(dict(input=c, real='entries=%d moving=%d' % w[:2], model='entries=%d moving=%d bound=%d (Properties/C13_Fair.lean)' % (a['entries'], a['moving'], a['bound'])))
        if not r['flags']['shut']:
            res.failures.append(dict(cls='leak-while-sending', what='the event generator was closed while another thread was inside %s; both threads have finished and the socket is still open' % c['progs'][0],
                                     input=dict(threads=c), observed=' '.join('%d:%s' % x for x in r['steps'])[-1200:]))


def replay(rp):
    if isinstance(rp.get('input'), dict) and 'closesock' in rp['input']:
        import closesock
        print(closesock.real_one(tuple(rp['input']['closesock'])))
        return 0
    if isinstance(rp.get('input'), dict) and 'threads' in rp['input']:
        import thrutil
        return thrutil.replay(dict(input=rp['input']['threads']))
    inp = rp.get('input')
    if isinstance(inp, dict) and 'previous' in inp:
        for t in coreutil.real_chain(inp['previous'] + [inp['next']]):
            print(t)
        return 0
    return coreutil.replay_core(rp)
