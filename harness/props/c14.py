"""C14 - every Ping is answered by exactly one matching Pong, in order."""
from __future__ import annotations
import random
import runner, coreutil, gen_core
from coreutil import Scenario, events, reads, toks, cut, random_cuts, limit_chunks
from refcodec import server_frame, close_payload, decode_client_frames

TRUSTED = ['correspondence: harness/world.py']
ASSUMPTIONS = ['library writes are distinguished from application writes by the call-result token that follows every application call']


def make(rng, lens):
    sc = Scenario([], prate=0, autopong=rng.random() < 0.8)
    peer, extra = None, b''
    if rng.random() < 0.3:
        # permessage-deflate negotiated: Pings also arrive between the fragments of COMPRESSED messages
        from refcodec import DeflatePeer
        peer = DeflatePeer()
        extra = b'Sec-WebSocket-Extensions: permessage-deflate\r\n'
        sc.compress = True
    frames = []
    sent_pings = []        # payloads of the Pings the (valid) stream contains, in order
    n = rng.randint(1, 12)
    for _ in range(n):
        r = rng.random()
        if r < 0.5:
            p = gen_core.rand_bytes(rng, rng.choice(lens))
            frames.append(server_frame(9, p)); sent_pings.append(p)
        elif r < 0.7:
            it = gen_core.gen_item(rng, gen_core.SMALL_SIZES, peer)
            if it.frags and len(it.frags) > 1:
                it.between = [[gen_core.Item('ping', gen_core.rand_bytes(rng, rng.choice(lens))) for _ in range(rng.choice([1, 2]))] for _ in it.frags[:-1]]
                sent_pings += [x.payload for grp in it.between for x in grp]
            else:
                sent_pings += [x.payload for grp in (it.between or []) for x in grp if x.kind == 'ping']
            frames += gen_core.serialise_item(rng, it)
        elif r < 0.8:
            frames.append(server_frame(10, b'pong'))
        else:
            it = gen_core.gen_item(rng)
            sent_pings += [x.payload for grp in (it.between or []) for x in grp if x.kind == 'ping']
            frames += gen_core.serialise_item(rng, it)
    if rng.random() < 0.3:
        frames.append(server_frame(8, close_payload(1000, b'')))
        frames.append(server_frame(9, b'after-close'))
        sent_pings.append(b'after-close')      # still handed to the application as an event (no Pong: the connection is closing)
    data = sc.good_reply(extra) + b''.join(frames)
    sc.env = reads(limit_chunks(cut(data, random_cuts(rng, len(data), rng.choice([0, 0, 2, 6]))))) + [('wait', 1, ('eof',))]
    if rng.random() < 0.5:
        sc.reactions = gen_core.gen_reactions(rng, 16, density=0.3, allow_bad=rng.random() < 0.5)
    if rng.random() < 0.2:
        sc.wfail = {rng.randint(1, 4)}
    sc.sent_pings = pings_in_stream(b''.join(frames))
    return sc


def make_violation(rng, lens):
    """a valid stream with Pings anywhere (also inside an open fragmented message), then a frame that violates RFC 6455 (every class of
       gen_core.VIOLATIONS that applies in the stream state), then a Ping and a text frame that must never be seen.  Segmentations put the
       violating frame in the SAME read as the Pings before it, in a later read, or cut the stream anywhere."""
    sc = Scenario([], prate=0, autopong=rng.random() < 0.8)
    frames = []
    for _ in range(rng.randint(0, 5)):
        r = rng.random()
        if r < 0.5:
            frames.append(server_frame(9, gen_core.rand_bytes(rng, rng.choice(lens))))
        elif r < 0.8:
            it = gen_core.gen_item(rng, gen_core.SMALL_SIZES)
            if it.frags and len(it.frags) > 1:
                it.between = [[gen_core.Item('ping', gen_core.rand_bytes(rng, rng.choice(lens))) for _ in range(rng.choice([1, 2]))] for _ in it.frags[:-1]]
            frames += gen_core.serialise_item(rng, it)
        else:
            frames.append(server_frame(10, b'pong'))
    mid = rng.random() < 0.3
    mid_text = mid and rng.random() < 0.5
    if mid:
        frames.append(server_frame(1 if mid_text else 2, b'open' , fin=0))
        if rng.random() < 0.5:
            frames.append(server_frame(0, b'', fin=0))
    # Pings received completely just before the violating frame
    for _ in range(rng.choice([0, 1, 1, 2, 3])):
        frames.append(server_frame(9, gen_core.rand_bytes(rng, rng.choice(lens))))
    cls = rng.choice([c for c in gen_core.VIOLATIONS if gen_core.applicable(c, mid, mid_text)])
    bad = gen_core.gen_violation(rng, cls, mid)
    after = server_frame(9, b'after-violation') + server_frame(1, b'LATERTEXT')
    hs, prefix = sc.good_reply(), b''.join(frames)
    mode = rng.choice(['same-read', 'same-read', 'tail-same-read', 'frames', 'random', 'bytes'])
    if mode == 'bytes' and len(prefix) + len(bad) > 300:
        mode = 'random'
    if mode == 'same-read':
        chunks = [hs + prefix + bad + after] if rng.random() < 0.5 else [hs, prefix + bad + after]
    elif mode == 'tail-same-read':
        k = len(b''.join(frames[:-rng.randint(1, 3)])) if frames else 0
        head = hs + prefix[:k]
        chunks = cut(head, random_cuts(rng, len(head), rng.choice([0, 1, 3]))) + [prefix[k:] + bad + (after if rng.random() < 0.5 else b'')]
        if len(chunks[-1]) < len(prefix[k:] + bad + after):
            chunks.append(after)
    elif mode == 'frames':
        chunks = [hs] + frames + [bad, after]
    elif mode == 'bytes':
        data = prefix + bad + after
        chunks = [hs] + [data[i:i + 1] for i in range(len(data))]
    else:
        data = hs + prefix + bad + after
        chunks = cut(data, random_cuts(rng, len(data), rng.choice([1, 2, 6])))
    sc.env = reads(limit_chunks([c for c in chunks if c])) + [('wait', 1, ('eof',))]
    r = rng.random()
    if r < 0.3:
        sc.reactions = gen_core.gen_reactions(rng, 12, density=0.3, allow_close=False, allow_bad=False)
    elif r < 0.45:
        sc.reactions = gen_core.gen_reactions(rng, 12, density=0.3, allow_close=True, allow_bad=False)      # closing state
        # a close() before the connection is ready ends it before anything is received: keep the closes on the established connection
        sc.reactions = {k: v for k, v in sc.reactions.items() if k >= 3 or not any(a[0] == 'close' for a in v)}
    sc.sent_pings = pings_in_stream(prefix)
    sc.vcls, sc.vmode = cls, mode
    return sc


def pings_in_stream(data):
    """payloads of the Ping frames of a (valid, unmasked) server frame stream, in order - an independent reading of the bytes"""
    import struct
    out, pos = [], 0
    while pos + 2 <= len(data):
        b0, b1 = data[pos], data[pos + 1]
        n, pos = b1 & 0x7f, pos + 2
        if n == 126:
            n, pos = struct.unpack('!H', data[pos:pos + 2])[0], pos + 2
        elif n == 127:
            n, pos = struct.unpack('!Q', data[pos:pos + 8])[0], pos + 8
        if b0 & 0x0f == 9:
            out.append(bytes(data[pos:pos + n]))
        pos += n
    return out


def judge(res, js, line, real, autopong, sent_pings=None, violation=None):
    """violation: None for a valid server stream; otherwise a description of the violating frame that follows the valid part of the stream
       (sent_pings = the Pings completely received before that frame)"""
    tk = toks(real)
    def fail(msg):
        if violation:
            msg += ' [stream: valid frames, then a protocol violation: %s]' % violation
        res.failures.append(dict(cls='pong', what=msg, input=line[-1500:], scenario=js, observed=[t[:60] for t in tk[-8:]]))
    # token placement (Lean: C14Tokens.tokens_well_placed): every call-result token directly follows an event, a token, or exactly
    # one write / socket close that itself directly follows an event or a token - so "followed by R:" classifies writes unambiguously
    def _att(j):
        return j >= 0 and tk[j].startswith(('E:', 'R:'))
    for i, t in enumerate(tk):
        if t.startswith('R:') and not (_att(i - 1) or (i >= 1 and (tk[i - 1].startswith(('W:', 'WF:', 'Z:')) or tk[i - 1] == 'SC') and _att(i - 2))):
            return fail('call-result token at position %d is not attached to an event through one call block (the write classification would be ambiguous)' % i)
    # classify writes: application writes are followed (immediately) by an R: token
    client_closed = False
    lib_pongs, expected = [], []
    for i, t in enumerate(tk):
        is_app = i + 1 < len(tk) and tk[i + 1].startswith('R:')
        if t.startswith(('W:', 'WF:')):
            raw = bytes.fromhex(t.split(':')[1])
            try:
                f = decode_client_frames(raw)[0]
            except Exception:  # noqa  (the handshake request is not a frame)
                continue
            if f['opcode'] == 10 and not is_app:
                lib_pongs.append((i, f['payload'], t.startswith('WF:')))
            if f['opcode'] == 8 and t.startswith('W:'):
                client_closed = True
            if f['opcode'] == 8 and t.startswith('WF:'):
                pass
        if t.startswith('E:ping:'):
            payload = bytes.fromhex(t.split(':')[2])
            if autopong and not client_closed:
                expected.append((i, payload))
    # the stream is valid and nothing but socket writes can fail: an unwritable Pong is dropped silently, it never breaks the loop
    for t in tk:
        if violation:
            break       # the connection is failed by the violation: judged below
        if t.startswith('E:disconnected:') and t.split(':')[2] in ('error', 'forced') or t.startswith('E:disconnected:other'):
            return fail('the event stream was disturbed: %s in a run whose server stream is valid (a Pong that cannot be written must be dropped silently)' % t)
        if t.startswith('ESCAPED'):
            return fail('an exception escaped the iterator in a run whose server stream is valid')
    # the stream is valid: every Ping it contains must come out as a Ping event, in order (all of them unless the connection was cut
    # short by a write fault or by the application's own close / session close)
    if violation:
        if any(t.startswith('ESCAPED') for t in tk):
            return fail('an exception escaped the iterator')
        if not any(t.startswith('E:ready') for t in tk):
            return      # the WebSocket connection was never established: no frame was received
        perr = [i for i, t in enumerate(tk) if t.startswith('E:protocol_error')]
        got = [p for _, p in all_pings(tk)]
        n_events = sum(1 for t in tk if t.startswith('E:'))
        hard_cut = any(a and a[0] in ('session_close', 'abandon') for k, acts in js.get('reactions', {}).items() if int(k) < n_events for a in acts)
        # every Ping that was completely received before the violating frame is an event (the application's close() does not end the
        # connection, and the scenario has no write faults); nothing that follows the violating frame is
        if got != sent_pings and not hard_cut:
            return fail('Pings completely received before the violating frame %s, Ping events %s' % ([p.hex()[:12] for p in sent_pings], [p.hex()[:12] for p in got]))
        if perr and any(i > perr[0] for i, _ in all_pings(tk)):
            return fail('a Ping event after the ProtocolError event')
        if not autopong:
            if lib_pongs:
                fail('library wrote a Pong although automatic pongs are disabled')
            return
        if [p for _, p, _ in lib_pongs] != [p for _, p in expected]:
            return fail('library Pongs %s do not match the Pings received before the violation (and before the client\'s Close) %s' % ([p.hex()[:16] for _, p, _ in lib_pongs], [p.hex()[:16] for _, p in expected]))
        for (wi, p, _), (ei, q) in zip(lib_pongs, expected):
            if not wi < ei:
                return fail('Pong for a Ping written after the Ping event was handed to the application')
            if any(tk[k].startswith('R:') for k in range(wi + 1, ei)):
                return fail('application write between the Pong and its Ping event')
            if perr and wi > perr[0]:
                return fail('a Pong written after the error handling began (ProtocolError event / Close 1002)')
        return
    if sent_pings is not None:
        got = [p for _, p in all_pings(tk)]
        # only calls that were really made count (the reaction at event index i runs iff at least i+1 events were yielded)
        n_events = sum(1 for t in tk if t.startswith('E:'))
        app_closes = any(a and a[0] in ('close', 'session_close', 'abandon') for k, acts in js.get('reactions', {}).items() if int(k) < n_events for a in acts)
        hard_cut = any(a and a[0] in ('session_close', 'abandon') for k, acts in js.get('reactions', {}).items() if int(k) < n_events for a in acts)
        if not hard_cut and not any(t.startswith('WF:') for t in tk) and any(t.startswith('E:ready') for t in tk) and (client_closed or app_closes):
            # the application only called close(): the connection lives on until the server's Close, every Ping before it is still an event
            allowed = [sent_pings, sent_pings[:-1]] if sent_pings and sent_pings[-1] == b'after-close' else [sent_pings]
            if got not in allowed and not any(t.startswith('E:disconnected:close-timeout') for t in tk):
                return fail('after the application\'s close() the Pings of the stream were not all delivered as events: %s of %s' % ([p.hex()[:12] for p in got], [p.hex()[:12] for p in sent_pings]))
        cut_short = any(t.startswith('WF:') for t in tk) or client_closed or app_closes or not any(t.startswith('E:ready') for t in tk)
        if got != sent_pings[:len(got)] or (len(got) < len(sent_pings) and not cut_short):
            return fail('Ping events %s do not match the Pings the server sent %s' % ([p.hex()[:12] for p in got], [p.hex()[:12] for p in sent_pings]))
    if not autopong:
        if lib_pongs:
            fail('library wrote a Pong although automatic pongs are disabled')
        return
    # a Close *attempt* that failed leaves closing set: pongs after it are legitimately dropped; only compare up to that point
    if [p for _, p, _ in lib_pongs] != [p for _, p in expected][:len(lib_pongs)] or (len(lib_pongs) < len(expected) and not any(t.startswith('WF:') for t in tk) and not client_closed_attempt(tk)):
        return fail('library Pongs %s do not match received Pings %s' % ([p.hex()[:16] for _, p, _ in lib_pongs], [p.hex()[:16] for _, p in expected]))
    for (wi, p, _), (ei, q) in zip(lib_pongs, expected):
        if not wi < ei:
            return fail('Pong for a Ping written after the Ping event was handed to the application')
        if any(tk[k].startswith('R:') for k in range(wi + 1, ei)):
            return fail('application write between the Pong and its Ping event')


def all_pings(tk):
    return [(i, bytes.fromhex(t.split(':')[2])) for i, t in enumerate(tk) if t.startswith('E:ping:')]


def client_closed_attempt(tk):
    return any(t.startswith('WF:88') for t in tk)


def explore(res, tier, seed, model_ok=True):
    rng = random.Random(seed)
    n = 300 if tier == 'quick' else 5000
    res.rule = ('Ping payload lengths 0..125 exhaustively (one stream each), then %d random streams with 1-12 frames (Pings anywhere incl. between fragments and several per read, Pongs, data, server Close followed by a Ping), '
                'auto_pong on/off, application writes at random events, write failures; plus streams in which the Pings are followed by a frame of any violation class (same read / later read / any cut / bytewise; '
                'also inside an open fragmented message and while closing): every Ping completely received before the violating frame is an event and is answered before the error handling; '
                'non-trivial = stream with >= 1 Ping; distinct by operation line') % n
    scs, aps, sps = [], [], []
    for ln in range(126):
        sc = Scenario([], prate=0)
        sc.env = reads([sc.good_reply() + server_frame(9, gen_core.rand_bytes(rng, ln)) + server_frame(9, b'2nd')]) + [('wait', 1, ('eof',))]
        scs.append(sc); aps.append(True); sps.append(None)
    res.exhaustive['ping_lengths_0_125'] = 126
    for _ in range(n):
        sc = make(rng, [0, 0, 1, 2, 7, 125, rng.randint(0, 125)])
        scs.append(sc); aps.append(sc.autopong); sps.append(sc.sent_pings)
    viol = [None] * len(scs)
    # Pings followed - in the same read and in later reads - by a frame that is a protocol violation
    for _ in range(150 if tier == 'quick' else 3000):
        sc = make_violation(rng, [0, 0, 1, 2, 7, 125, rng.randint(0, 125)])
        scs.append(sc); aps.append(sc.autopong); sps.append(sc.sent_pings); viol.append('%s, segmentation %s' % (sc.vcls, sc.vmode))
    pairs = coreutil.run_pairs(scs, model_ok)
    for (js, line, real, model), ap, sp, vi in zip(pairs, aps, sps, viol):
        if isinstance(real, dict):
            res.crashes.append(real); continue
        res.case(line, nontrivial='E:ping' in real or bool(sp))
        res.count('autopong' if ap else 'no_autopong')
        res.count('pings', real.count('E:ping'))
        if vi:
            res.count('pings-then-violation:' + vi.split(', segmentation ')[1])
        judge(res, js, line, real, ap, sp, vi)
    coreutil.check_corr(res, pairs)
    res.samples += [pairs[3][1][-200:], pairs[-1][1][-300:]]


def replay(rp):
    return coreutil.replay_core(rp)
