"""C06 - permessage-deflate is lossless both ways for every negotiated configuration.

   (T) Lomond.Properties.C06: token-level LZ77 model (any compressor obeying zlib's distance
       bound x a sliding-window inflater) + statements about the core model (RSV1 selection,
       fragments joined before inflate, contexts untouched by uncompressed / control frames,
       parameter parsing) + the BFINAL defect as a closed evaluation of the bit-level inflater.
   (K) A. the Lean bit-level inflater (Model/Inflate.lean) against zlib on thousands of streams
          (zlib output at several levels / strategies / windows / flush modes, hand-encoded
          blocks, every truncation, corruptions, BFINAL + trailing data, window-edge distances);
       B. parameter spellings of the response header: real handshake vs core model;
       C. client -> peer: real `send_text/send_binary(compress=...)`; the raw frames are inflated
          by an independent zlib peer with the negotiated client window over the whole history
          *and* by the Lean inflater; the core model predicts which frames are compressed;
       D. peer -> client: messages compressed by the zlib peer (negotiated server window, both
          takeover modes, any fragmentation, mixed with uncompressed messages and control
          frames) fed to the real client *and* to the Lean core model (which inflates them with
          Model/Inflate.lean).
   Two shapes of `Deflate.decompress` are handled (finding D6): `world.bfinal_safe()` probes the real
   class with the RFC 7692 7.2.3.4 pair; the model driver is started with the matching inflater
   (`zsafe=1` -> Inflate.inflateAllSafe).  On the repaired shape the real class is also compared, at
   unit level, with a zdict-restart reference on histories full of BFINAL=1 blocks.
   (S) oracle (model-free): the zlib peer / the original plaintext: original content or a
       ProtocolError, never different content; RSV1 only when negotiated and requested; the
       largest match distance of every compressed message (measured by an independent RFC 1951
       decoder in refcodec.py) is checked against maxDist = 2^w - 262."""
from __future__ import annotations
import random, zlib
import runner, coreutil, world, refcodec
from coreutil import Scenario, server_frame, cut, reads, events
from refcodec import DeflatePeer

TRUSTED = ['correspondence: harness/props/c06.py + harness/world.py + harness/refcodec.py (zlib peer, RFC 1951 reference decoder/encoder)',
           'zlib as the independent RFC 7692 peer and as the judge of the bit-level inflater']
ASSUMPTIONS = ['zlib deflate with window 2^w only emits matches with distance <= 2^w - 262 and within the data it has seen (measured on every compressed message of every run)',
               'zlib sync-flush output ends in 00 00 ff ff (asserted on every message)',
               'the bit-level inflater in Model/Inflate.lean is proved correct for stored, fixed-Huffman and dynamic-Huffman blocks (canonical codes of any complete code lengths; the lengths sent one by one or as any sequence of code-length symbols with the repeat codes 16/17/18, in any complete code-length code, any HCLEN) '
               'against the reference encoder of Model/DeflEnc.lean (Properties/C06_Inflate.lean, C06_InflateRle.lean; the encoder is validated against zlib here); '
               'incomplete / over-subscribed codes and all error paths are validated against zlib only; '
               'its window rule is the strict RFC one (distance <= 2^wbits) where zlib is more lenient inside one inflate() call',
               'single-threaded use (concurrent compressed sends belong to C11)']

STRATEGIES = [zlib.Z_DEFAULT_STRATEGY, zlib.Z_FIXED, zlib.Z_HUFFMAN_ONLY, zlib.Z_RLE, zlib.Z_FILTERED]
WORDS = [b'the', b'quick', b'brown', b'fox', b'jumps', b'over', b'lazy', b'dog', b'{"id":', b'"value":', b'null', b'true',
         b'lomond', b'websocket', b'permessage-deflate', b'\r\n', b' ', b' ', b', ', b'0123456789', b'\xe2\x82\xac', b'\xf0\x9f\x98\x80']


def rbytes(rng, n):
    return rng.randbytes(n)


def gen_plain(rng, kind, size):
    if kind == 'empty' or size == 0:
        return b''
    if kind == 'rand':
        return rbytes(rng, size)
    if kind == 'text':
        out = bytearray()
        while len(out) < size:
            out += rng.choice(WORDS)
        return bytes(out[:size])
    if kind == 'runs':
        out = bytearray()
        while len(out) < size:
            out += bytes([rng.randrange(256)]) * rng.choice([1, 2, 3, 4, 10, 100, 258, 259, 600])
        return bytes(out[:size])
    if kind == 'mixed':
        out = bytearray()
        while len(out) < size:
            out += gen_plain(rng, rng.choice(['rand', 'text', 'runs']), rng.choice([5, 30, 200]))
        return bytes(out[:size])
    raise ValueError(kind)


def repeat_at(rng, dist, blk=24):
    """plaintext whose tail repeats a random block that started `dist` bytes earlier"""
    b = rbytes(rng, blk)
    fill = rbytes(rng, max(0, dist - blk))
    return b + fill + b


# ---------------------------------------------------------------------------------------------
# A. the bit-level inflater against zlib

def zlib_feed(w, chunks):
    """what decompressobj(-w) returns when fed the chunks one call each: ('ok', bytes) | ('error', msg)"""
    d = zlib.decompressobj(-w)
    out = bytearray()
    try:
        for c in chunks:
            out += d.decompress(c)
    except zlib.error as e:
        return 'error', str(e)
    return 'ok', bytes(out)


def zlib_feed_safe(w, chunks):
    """reference for the repaired `Deflate.decompress`: whenever the deflate stream ends (BFINAL=1)
       the rest goes to a new decompressobj(-w) that knows the last 2^w bytes of output (here through
       `zdict`, which the patch itself cannot use: Python 2)"""
    wsize = 1 << w
    d = zlib.decompressobj(-w)
    out = bytearray()
    try:
        for c in chunks:
            data = c
            while True:
                out += d.decompress(data)
                if not d.eof:
                    break
                data = d.unused_data
                win = bytes(out[-wsize:])
                d = zlib.decompressobj(-w, zdict=win) if win else zlib.decompressobj(-w)
                if not data:
                    break
    except zlib.error as e:
        return 'error', str(e)
    return 'ok', bytes(out)


def zlib_stream(rng, w, plains, level=None, strategy=None, mem=None, flushes=None, finish=False):
    """list of compressed pieces, one per plaintext (pieces are NOT stripped of their tails)"""
    level = rng.choice([0, 1, 6, 9]) if level is None else level
    strategy = rng.choice(STRATEGIES) if strategy is None else strategy
    mem = rng.choice([1, 2, 8, 9]) if mem is None else mem
    c = zlib.compressobj(level, zlib.DEFLATED, -w, mem, strategy)
    out = []
    for i, p in enumerate(plains):
        mode = (flushes[i] if flushes else zlib.Z_SYNC_FLUSH)
        if finish and i == len(plains) - 1:
            mode = zlib.Z_FINISH
        out.append(c.compress(p) + c.flush(mode))
    return out


def random_tokens(rng, n, have):
    """n tokens valid after `have` bytes of history; returns (tokens, bytes produced)"""
    toks, produced = [], 0
    for _ in range(n):
        avail = have + produced
        if avail and rng.random() < 0.35:
            d = rng.choice([1, 2, 3, 4, avail, max(1, avail - 1), rng.randint(1, avail)])
            d = max(1, min(d, 32768, avail))
            ln = rng.choice([3, 4, 5, 10, 11, 18, 19, 34, 35, 66, 67, 130, 131, 257, 258, rng.randint(3, 258)])
            toks.append((d, ln))
            produced += ln
        else:
            toks.append(rng.choice([0, 65, 97, 143, 144, 200, 255, rng.randrange(256)]))
            produced += 1
    return toks, produced


def crafted_stream(rng, nblocks, final_at=None, align_after_final=False):
    """hand-encoded blocks (stored / fixed / dynamic mixed); returns (bytes, plaintext if valid)"""
    bw = refcodec.BitWriter()
    hist = bytearray()
    for b in range(nblocks):
        fin = (final_at == b)
        k = rng.choice(['stored', 'fixed', 'dynamic', 'dynamic-norep'])
        if k == 'stored':
            data = rbytes(rng, rng.choice([0, 1, 5, 300]))
            refcodec.put_stored_block(bw, data, fin)
            hist += data
        else:
            toks, _ = random_tokens(rng, rng.choice([0, 1, 3, 20, 120]), len(hist))
            hist += refcodec.expand_tokens(toks, bytes(hist))
            if k == 'fixed':
                refcodec.put_fixed_block(bw, toks, fin)
            else:
                refcodec.put_dynamic_block(bw, toks, fin, use_repeats=(k == 'dynamic'))
        if fin and align_after_final:
            bw.align()
    refcodec.sync_tail(bw)
    return bw.bytes(), bytes(hist)


def odd_blocks():
    """(name, bytes) of hand-made blocks around zlib's table rules; each is followed by a fixed block
       carrying 'Z' so that acceptance is visible in the output"""
    R = refcodec
    out = []

    def finish(bw, name):
        R.put_fixed_block(bw, [90])
        R.sync_tail(bw)
        out.append((name, bw.bytes()))

    def dyn(name, litlens, distlens, body, cl_lens=None, use_repeats=True):
        bw = R.BitWriter()
        R.put_dynamic_header(bw, litlens, distlens, False, use_repeats, cl_lens)
        body(bw)
        finish(bw, name)

    def lits(**kw):
        l = [0] * 286
        for k, v in kw.items():
            l[int(k[1:])] = v
        return l
    # complete 2-symbol literal code, no distance code at all, only literals: accepted
    dyn('nodist-literals', lits(s65=1, s256=1), [0], lambda bw: (bw.code(0, 1), bw.code(0, 1), bw.code(1, 1)))
    # single literal/length code (only end-of-block, 1 bit): incomplete but tolerated
    dyn('single-eob', lits(s256=1), [0], lambda bw: bw.code(0, 1))
    # ... and its unused code 1 is an invalid literal/length code
    dyn('single-eob-invalid', lits(s256=1), [0], lambda bw: bw.code(1, 1))
    # single distance code of length 1 (incomplete, tolerated): used with bit 0
    one_d = [1] + [0] * 29
    l3 = lits(s65=2, s256=2, s257=1)    # 257: length 3
    def use_single(bw):
        cc = R.canonical_codes(l3)
        bw.code(*cc[65]); bw.code(*cc[257]); bw.put(0, 1); bw.code(*cc[256])
    dyn('single-dist-used', l3, one_d, use_single)
    def use_single_bad(bw):
        cc = R.canonical_codes(l3)
        bw.code(*cc[65]); bw.code(*cc[257]); bw.put(1, 1); bw.code(*cc[256])
    dyn('single-dist-invalid-code', l3, one_d, use_single_bad)
    # no distance code, but a length symbol is used: invalid distance code
    def len_without_dist(bw):
        cc = R.canonical_codes(l3)
        bw.code(*cc[65]); bw.code(*cc[257]); bw.put(0, 1); bw.code(*cc[256])
    dyn('nodist-length-used', l3, [0], len_without_dist)
    # incomplete literal code whose longest code has 2 bits: rejected
    dyn('incomplete-lit', lits(s65=2, s256=2), [0], lambda bw: bw.code(1, 2))
    # over-subscribed literal code
    dyn('oversubscribed-lit', lits(s65=1, s66=1, s256=1), [0], lambda bw: bw.code(0, 1))
    # incomplete distance code with two 2-bit codes: rejected
    dyn('incomplete-dist', l3, [2, 2] + [0] * 28, lambda bw: bw.code(0, 1))
    # over-subscribed distance code
    dyn('oversubscribed-dist', l3, [1, 1, 1] + [0] * 27, lambda bw: bw.code(0, 1))
    # no end-of-block code
    dyn('no-eob', lits(s65=1, s66=1), [0], lambda bw: bw.code(0, 1))
    # distance code of 30 symbols, all used lengths equal (complete 32 would need 32 symbols): 16 x 4 bits
    dyn('dist16x4', l3, [4] * 16 + [0] * 14, lambda bw: (bw.code(*R.canonical_codes(l3)[65]), bw.code(*R.canonical_codes(l3)[256])))
    # code-length code given explicitly: incomplete (one symbol of length 1 only) -> rejected
    cl = [0] * 19
    cl[0] = 1
    dyn('incomplete-clcode', [0] * 286, [0], lambda bw: None, cl_lens=cl, use_repeats=False)
    # hand-written headers
    def raw(name, fields, tail=b''):
        bw = R.BitWriter()
        for v, n in fields:
            bw.put(v, n)
        bw.align()
        out.append((name, bw.bytes() + tail))
    raw('blocktype3', [(0, 1), (3, 2)], b'\x00' * 4)
    raw('blocktype3-final', [(1, 1), (3, 2)], b'\x00' * 4)
    raw('nlen-287', [(0, 1), (2, 2), (30, 5), (0, 5), (0, 4)], b'\x00' * 8)
    raw('nlen-288', [(0, 1), (2, 2), (31, 5), (0, 5), (0, 4)], b'\x00' * 8)
    raw('ndist-31', [(0, 1), (2, 2), (0, 5), (30, 5), (0, 4)], b'\x00' * 8)
    raw('ndist-32', [(0, 1), (2, 2), (0, 5), (31, 5), (0, 4)], b'\x00' * 8)
    # empty code-length code (all 3-bit lengths zero): every length decodes as 0 with one bit each
    raw('empty-clcode', [(0, 1), (2, 2), (0, 5), (0, 5), (0, 4)] + [(0, 3)] * 4, b'\x00' * 40)
    raw('empty-clcode-short', [(0, 1), (2, 2), (0, 5), (0, 5), (0, 4)] + [(0, 3)] * 4, b'\x00' * 20)
    # repeat-previous (16) as the very first length: cl code = {16: 1 bit, 0: 1 bit}
    cl = [0] * 19
    cl[16], cl[0] = 1, 1
    bw = R.BitWriter()
    bw.put(0, 1); bw.put(2, 2); bw.put(0, 5); bw.put(0, 5); bw.put(0, 4)     # ncode 4: 16,17,18,0
    for k in range(4):
        bw.put(cl[refcodec._CLORDER[k]], 3)
    cc = R.canonical_codes(cl)
    bw.code(*cc[16]); bw.put(0, 2)
    bw.align()
    out.append(('repeat-first', bw.bytes() + b'\x00' * 40))
    # repeat overflowing the table: 258 lengths wanted; 18 (11+127=138) twice = 276 > 258
    cl = [0] * 19
    cl[18], cl[0] = 1, 1
    bw = R.BitWriter()
    bw.put(0, 1); bw.put(2, 2); bw.put(0, 5); bw.put(0, 5); bw.put(0, 4)
    for k in range(4):
        bw.put(cl[refcodec._CLORDER[k]], 3)
    cc = R.canonical_codes(cl)
    bw.code(*cc[18]); bw.put(127, 7); bw.code(*cc[18]); bw.put(127, 7)
    bw.align()
    out.append(('repeat-overflow', bw.bytes() + b'\x00' * 40))
    # stored blocks
    out.append(('stored-bad-nlen', bytes([0, 5, 0, 0xfb, 0xff]) + b'hello'))
    out.append(('stored-good', bytes([0, 5, 0, 0xfa, 0xff]) + b'hello' + bytes([0x8a, 0x02, 0]) ))
    out.append(('stored-final-then-junk', bytes([1, 5, 0, 0xfa, 0xff]) + b'hello' + b'\xff' * 9))
    out.append(('stored-65535', bytes([0, 0xff, 0xff, 0, 0]) + bytes(range(256)) * 255 + bytes(255) + bytes([0, 0, 0, 0xff, 0xff])))
    # fixed block using the two reserved literal/length symbols and the two reserved distance symbols
    fl = R.canonical_codes([8] * 144 + [9] * 112 + [7] * 24 + [8] * 8)
    for s in (286, 287):
        bw = R.BitWriter()
        bw.put(0, 1); bw.put(1, 2); bw.code(*fl[65]); bw.code(*fl[s]); bw.put(0, 16)
        bw.align()
        out.append(('fixed-lit-%d' % s, bw.bytes() + b'\x00' * 4))
    for ds in (29, 30, 31):
        bw = R.BitWriter()
        bw.put(0, 1); bw.put(1, 2)
        for _ in range(4):
            bw.code(*fl[65])
        bw.code(*fl[257]); bw.code(ds, 5); bw.put(0, 13)
        bw.align()
        out.append(('fixed-dist-%d' % ds, bw.bytes() + b'\x00' * 4))
    return out


def window_edge_cases(rng, tier):
    """two pieces: history of `have` bytes (stored blocks, sync flushed), then a fixed block that
       starts with one match at distance d.  zlib is fed the pieces in two calls, so that its own
       test (distance <= bytes in the window) coincides with the strict rule."""
    R = refcodec
    out = []
    for w in range(8, 16):
        ws = 1 << w
        for have in sorted({1, 3, ws - 1, ws, ws + 1, ws + 300, 3 * ws + 7} - ({3 * ws + 7} if (tier == 'quick' and w > 12) else set())):
            for d in sorted({1, have - 1, have, have + 1, ws - 1, ws, ws + 1, ws - 262, ws - 261, 32768} - {0, -1}):
                if d < 1 or d > 32768:
                    continue
                bw = R.BitWriter()
                data = rbytes(rng, have)
                for i in range(0, have, 60000):
                    R.put_stored_block(bw, data[i:i + 60000])
                R.sync_tail(bw)
                p1 = bw.bytes()
                bw = R.BitWriter()
                R.put_fixed_block(bw, [(d, 5), 33])
                R.sync_tail(bw)
                p2 = bw.bytes()
                out.append(dict(w=w, chunks=[p1, p2], kind='window-edge', expect_ok=(d <= have and d <= ws),
                                plain=(data + R.expand_tokens([(d, 5), 33], data)) if (d <= have) else None))
    return out


def corrupt(rng, z):
    z = bytearray(z)
    if not z:
        return bytes([rng.randrange(256)])
    m = rng.random()
    if m < 0.5:
        for _ in range(rng.choice([1, 1, 2, 3])):
            i = rng.randrange(len(z))
            z[i] ^= 1 << rng.randrange(8)
    elif m < 0.7:
        z[rng.randrange(len(z))] = rng.randrange(256)
    elif m < 0.85:
        del z[rng.randrange(len(z))]
    else:
        z.insert(rng.randrange(len(z) + 1), rng.randrange(256))
    return bytes(z)


def inflate_cases(rng, tier):
    """list of dict(w, chunks, kind)"""
    quick = tier == 'quick'
    cases = []
    add = lambda w, chunks, kind, **kw: cases.append(dict(w=w, chunks=list(chunks), kind=kind, **kw))
    streams = []     # (w_compress, pieces) kept for truncation / corruption
    # 1. zlib output: levels x strategies x windows, message sequences with context takeover
    for level in (0, 1, 6, 9):
        for strat in STRATEGIES:
            for w in ([9, 12, 15] if quick else range(9, 16)):
                nmsg = rng.choice([1, 2, 3, 5])
                plains = []
                for _ in range(nmsg):
                    kind = rng.choice(['text', 'rand', 'runs', 'mixed', 'empty', 'text'])
                    size = rng.choice([0, 1, 7, 60, 300, 2000] if quick else [0, 1, 7, 60, 300, 2000, 9000, 40000])
                    plains.append(gen_plain(rng, kind, size))
                if rng.random() < 0.4:
                    # a later message repeats an earlier one: matches reach across messages
                    plains.append(plains[0])
                flushes = [rng.choice([zlib.Z_SYNC_FLUSH] * 4 + [zlib.Z_FULL_FLUSH, zlib.Z_PARTIAL_FLUSH, zlib.Z_BLOCK]) for _ in plains]
                pieces = zlib_stream(rng, w, plains, level, strat, None, flushes)
                wd = rng.choice([w, w, 15, rng.randint(w, 15)])
                add(wd, pieces, 'zlib-l%d-s%d' % (level, strat), plain=b''.join(plains) if all(f != zlib.Z_BLOCK and f != zlib.Z_PARTIAL_FLUSH for f in flushes[-1:]) else None)
                streams.append((w, pieces))
    # 2. long-range repeats at distances straddling the window of the compressor and of the inflater
    for w in range(9, 16):
        ws = 1 << w
        for d in sorted({ws - 263, ws - 262, ws - 261, ws - 1, ws, ws + 1, 250, 256, 506, 512}):
            if d < 30:
                continue
            p = repeat_at(rng, d)
            for wc in {w, 15}:
                pieces = zlib_stream(rng, wc, [p[:len(p) // 2], p[len(p) // 2:]], rng.choice([6, 9]), zlib.Z_DEFAULT_STRATEGY, 8)
                add(w, pieces, 'repeat-d%s-wc%d' % ('=ws%+d' % (d - ws) if abs(d - ws) < 300 else str(d), wc))
    # 3. BFINAL streams followed by more data
    for i in range(12 if quick else 60):
        w = rng.randint(9, 15)
        plains = [gen_plain(rng, rng.choice(['text', 'rand', 'empty']), rng.choice([0, 5, 100, 1000])) for _ in range(rng.choice([1, 2, 3]))]
        pieces = zlib_stream(rng, w, plains, finish=True)
        extra = rng.choice([b'', b'\x00\x00\xff\xff', rbytes(rng, 10), zlib_stream(rng, w, [b'more data'])[0]])
        add(w, pieces + [extra], 'bfinal+trailing')
        streams.append((w, pieces + [extra]))
    add(15, [bytes.fromhex('f348cdc9c9070000'), bytes.fromhex('0000ffff'), bytes.fromhex('f248cdc9c90700'), bytes.fromhex('0000ffff')], 'bfinal-rfc7692-example')
    # 4. hand-encoded streams
    for i in range(60 if quick else 600):
        z, plain = crafted_stream(rng, rng.choice([1, 2, 3, 6]), final_at=rng.choice([None, None, None, 0, 1]))
        add(15, [z], 'crafted')
        streams.append((15, [z]))
    # blocks that go on after a BFINAL=1 block, at the next byte boundary (a new deflate stream that
    # refers back into the old one): what the repaired decompress must read, and zlib's object must not
    for i in range(40 if quick else 400):
        z, plain = crafted_stream(rng, rng.choice([2, 3, 6]), final_at=rng.choice([0, 0, 1, 2]), align_after_final=True)
        w = rng.choice([15, 15, 9, 12])
        add(w, cut(z, coreutil.random_cuts(rng, len(z), rng.choice([0, 1, 3]))) or [z], 'crafted-after-final', plain_safe=plain if w == 15 else None)
        streams.append((w, [z]))
    for name, z in odd_blocks():
        for w in (9, 15):
            add(w, [z], 'odd:' + name)
        streams.append((15, [z]))
    # 5. the window edge
    cases.extend(window_edge_cases(rng, tier))
    # 6. truncation at every byte (short streams) or at random points (long ones)
    for w, pieces in list(streams):
        z = b''.join(pieces)
        if len(z) <= (120 if quick else 400):
            pts = range(len(z))
        else:
            pts = sorted(rng.sample(range(len(z)), 6 if quick else 25))
        for k in pts:
            add(rng.choice([w, 15]), [z[:k]], 'truncated')
    # 7. corruption
    for w, pieces in list(streams):
        z = b''.join(pieces)
        for _ in range(2 if quick else 8):
            add(rng.choice([w, w, 15, 9]), [corrupt(rng, z)], 'corrupted')
    # 8. random bytes
    for _ in range(100 if quick else 1500):
        add(rng.randint(8, 15), [rbytes(rng, rng.choice([1, 2, 5, 20, 80]))], 'random-bytes')
    return cases


def check_inflater(res, rng, tier, model_ok):
    """both inflaters of Model/Inflate.lean: `inflate` (zlib's object: BFINAL ends everything) against
       zlib itself, `inflatesafe` (the repaired Deflate.decompress: a new stream after BFINAL, same
       window) against the zdict-restart reference"""
    cases = inflate_cases(rng, tier)
    total = 0
    lenient = {'inflate': 0, 'inflatesafe': 0}
    for op, feed in (('inflate', zlib_feed), ('inflatesafe', zlib_feed_safe)):
        lines = ['%s %d %s' % (op, c['w'], b''.join(c['chunks']).hex()) for c in cases]
        models = runner.model_run(lines) if model_ok else [None] * len(lines)
        for c, line, m in zip(cases, lines, models):
            st, val = feed(c['w'], c['chunks'])
            real = 'ok ' + val.hex() if st == 'ok' else 'error'
            z = b''.join(c['chunks'])
            res.case((op, c['w'], z), nontrivial=len(z) > 4)
            if op == 'inflate':
                res.count('inflate:' + c['kind'].split('-l')[0].split(':')[0].split('-d')[0])
            res.count(op + ':zlib-' + st)
            res.traces_validated += 1
            total += 1
            if op == 'inflate' and c.get('plain') is not None and st == 'ok' and val != c['plain']:
                res.failures.append(dict(cls='zlib-roundtrip', what='zlib inflate of zlib deflate differs from the plaintext', input=line[:2000]))
            if op == 'inflatesafe' and c.get('plain_safe') is not None and (st != 'ok' or val != c['plain_safe']):
                res.diffs.append(dict(input=line[:600], real=real[:200], model='(expected plaintext %s)' % c['plain_safe'][:40].hex(),
                                      note='the zdict-restart reference does not return what the hand-encoded blocks mean'))
            if 'expect_ok' in c and c['expect_ok'] != (st == 'ok'):
                res.diffs.append(dict(input=line[:300], real=real[:200], model='(window-edge expectation: ok=%s)' % c['expect_ok'], note='zlib does not follow the strict window rule where it was expected to'))
            if m is None or m == real:
                continue
            if m == 'error' and st == 'ok':
                # the one tolerated difference: a distance beyond 2^wbits that zlib serves from the
                # output of the same inflate() call.  Judged by the independent decoder.
                stop = (op == 'inflate')
                try:
                    ref = refcodec.inflate_log(z, stop_at_final=stop)
                    tolerated = ref['max_dist'] > (1 << c['w'])
                except refcodec.InflateError:
                    # the reference decoder insists on complete blocks; retry on the strict prefix rule
                    tolerated = False
                    try:
                        refcodec.inflate_log(z, max_window=1 << c['w'], stop_at_final=stop)
                    except refcodec.InflateError as e:
                        tolerated = 'distance too far back' in str(e)
                if tolerated:
                    lenient[op] += 1
                    res.count(op + ':zlib-lenient-window')
                    continue
            res.diffs.append(dict(input=line[:3000], real=real[:600], model=m[:600], kind=c['kind']))
    res.notes.append('inflater validation: %d streams x 2 inflaters; zlib accepted a distance beyond 2^wbits inside one inflate() call (model: error) on %d / %d of them'
                     % (len(cases), lenient['inflate'], lenient['inflatesafe']))
    res.samples += ['inflate 15 f348cdc9c90700000000fffff248cdc9c907000000ffff', 'inflatesafe 15 f348cdc9c90700000000fffff248cdc9c907000000ffff']
    return total


# ---------------------------------------------------------------------------------------------
# A''. the reference ENCODER of Model/DeflEnc.lean (`deflenc`), about which Properties/C06_Inflate.lean
#      proves that the Lean inflater reads it correctly: its output is given to REAL zlib.

def _tok_spec(t):
    return 'L%d' % t if isinstance(t, int) else 'C%d.%d' % t


def dyn_lens(toks, flat=False):
    """complete code lengths (literal/length, distance) covering the tokens and end-of-block, trimmed as the header sends them"""
    lf, df = [0] * 286, [0] * 30
    lf[256] = 1
    for t in toks:
        if isinstance(t, int):
            lf[t] += 1
        else:
            lf[refcodec._len_sym(t[1])[0]] += 1
            df[refcodec._dist_sym(t[0])[0]] += 1
    if sum(1 for x in lf if x) < 2:
        lf[0] += 1
    k = 0
    while sum(1 for x in df if x) < 2:
        if not df[k]:
            df[k] = 1
        k += 1
    if flat:
        lf = [1 if x else 0 for x in lf]
        df = [1 if x else 0 for x in df]
    ll, dl = refcodec.huff_lengths(lf, 15), refcodec.huff_lengths(df, 15)
    nlen = max(257, max(i + 1 for i, l in enumerate(ll) if l))
    ndist = max(1, max(i + 1 for i, l in enumerate(dl) if l))
    return ll[:nlen], dl[:ndist]


def _blk_spec(b):
    k, fin, toks = b[0], b[1], b[2]
    if k is True:
        k = 's'
    elif k is False:
        k = 'f'
    hd = '%s%d' % (k, 1 if fin else 0)
    if k in ('d', 'R'):
        ll, dl = b[3]
        hd += ';' + ''.join('%x' % l for l in ll) + ';' + ''.join('%x' % l for l in dl)
    elif k == 'r':
        cll, nc, nl, items = b[3]
        hd += ';' + ''.join('%x' % l for l in cll) + ';%d;%d;' % (nc, nl) + '.'.join('%s%d' % it for it in items)
    return hd + ':' + ','.join(_tok_spec(t) for t in toks)


def _msg_spec(blocks):
    """blocks: list of (kind 's'|'f'|'d'|'R'|'r', final?, tokens[, (ll, dl) | (cll, nc, nl, items)]):
       'R' = dynamic, the code lengths run-length coded by the Lean encoder's own `rle` in its default code-length code;
       'r' = dynamic, the header given as code-length items (refcodec.rle_items) + code-length code + HCLEN"""
    if not blocks:
        return '-'
    return '/'.join(_blk_spec(b) for b in blocks)


CL_LENS = [4] * 16 + [0, 0, 0]


def _dyn_ok(ll, dl, toks):
    def complete(lens):
        return sum(1 << (15 - l) for l in lens if l) == 1 << 15
    if not (257 <= len(ll) <= 286 and 1 <= len(dl) <= 30 and all(l <= 15 for l in ll + dl)):
        return False
    if not (complete(ll) and complete(dl) and ll[256]):
        return False
    for t in toks:
        if isinstance(t, int):
            if not (t < len(ll) and ll[t]):
                return False
        else:
            ls, ds = refcodec._len_sym(t[1])[0], refcodec._dist_sym(t[0])[0]
            if not (ls < len(ll) and ll[ls] and ds < len(dl) and dl[ds]):
                return False
    return True


CL_DEFAULT = [4] * 13 + [5] * 6


def _cl_ok(cll, nc):
    """19 lengths 0..7 of a complete code-length code, 4..19 of them sent, those not sent are 0 (RFC 1951 3.2.7)"""
    return (len(cll) == 19 and all(l <= 7 for l in cll) and sum(1 << (15 - l) for l in cll if l) == 1 << 15 and
            4 <= nc <= 19 and all(cll[refcodec._CLORDER[k]] == 0 for k in range(nc, 19)))


def _rle_ok(cll, nc, nl, items, toks):
    if not _cl_ok(cll, nc):
        return False
    if not all(refcodec.item_in_range(it) and cll[refcodec.item_symbol(it)] >= 1 for it in items):
        return False
    lens = refcodec.expand_items(items)
    if lens is None:
        return False
    return _dyn_ok(lens[:nl], lens[nl:], toks)


def _written_dynamic(b):
    """is this block written as a dynamic block (else: the fixed-Huffman fallback)?"""
    if b[0] in ('d', 'R'):
        return _dyn_ok(b[3][0], b[3][1], b[2])
    if b[0] == 'r':
        return _rle_ok(b[3][0], b[3][1], b[3][2], b[3][3], b[2])
    return False


def _ref_encode(blocks):
    """the same message through the independent Python bit writer of refcodec.py (payload without the tail);
       also which of the dynamic blocks are written as such"""
    bw = refcodec.BitWriter()
    dyn = ''
    for b in blocks:
        st, fin, toks = b[0], b[1], b[2]
        st = {True: 's', False: 'f'}.get(st, st)
        if st == 's' and all(isinstance(t, int) for t in toks) and len(toks) <= 65535:
            refcodec.put_stored_block(bw, bytes(toks), fin)
        elif st == 'd' and _dyn_ok(b[3][0], b[3][1], toks):
            dyn += '1'
            ll, dl = b[3]
            refcodec.put_dynamic_header(bw, ll, dl, fin, use_repeats=False, cl_lens=CL_LENS)
            refcodec.put_tokens(bw, toks, refcodec.canonical_codes(ll), refcodec.canonical_codes(dl))
        elif st == 'R' and _written_dynamic(b):
            dyn += '1'
            ll, dl = b[3]
            refcodec.put_dynamic_header_items(bw, len(ll), len(dl), refcodec.rle_items(list(ll) + list(dl)), CL_DEFAULT, 19, fin)
            refcodec.put_tokens(bw, toks, refcodec.canonical_codes(ll), refcodec.canonical_codes(dl))
        elif st == 'r' and _written_dynamic(b):
            dyn += '1'
            cll, nc, nl, items = b[3]
            lens = refcodec.expand_items(items)
            refcodec.put_dynamic_header_items(bw, nl, len(lens) - nl, items, cll, nc, fin)
            refcodec.put_tokens(bw, toks, refcodec.canonical_codes(lens[:nl]), refcodec.canonical_codes(lens[nl:]))
        else:
            if st in ('d', 'R', 'r'):
                dyn += '0'
            refcodec.put_fixed_block(bw, toks, fin)
        if fin:
            bw.align()
    refcodec.sync_tail(bw)
    z = bw.bytes()
    assert z.endswith(TAIL_BYTES)
    return z[:-4], dyn


TAIL_BYTES = b'\x00\x00\xff\xff'
LBASE = [3, 4, 5, 6, 7, 8, 9, 10, 11, 13, 15, 17, 19, 23, 27, 31, 35, 43, 51, 59, 67, 83, 99, 115, 131, 163, 195, 227, 258]
DBASE = [1, 2, 3, 4, 5, 7, 9, 13, 17, 25, 33, 49, 65, 97, 129, 193, 257, 385, 513, 769, 1025, 1537, 2049, 3073, 4097, 6145, 8193, 12289, 16385, 24577]


def _is_stored(b):
    return b[0] in (True, 's') and all(isinstance(t, int) for t in b[2]) and len(b[2]) <= 65535


def encoder_cases(rng, tier):
    """histories of messages of blocks of tokens: (kind, w, [message = [(block kind, final, tokens[, lens])]], valid)"""
    quick = tier == 'quick'
    cases = []

    def dyn(fin, toks, flat=False):
        return ('d', fin, toks, dyn_lens(toks, flat))

    def pad_lens(ll, dl):
        """the same codes announced with more symbols: trailing zeros (and so zero runs across the HLIT/HDIST boundary)"""
        ll, dl = list(ll), list(dl)
        if rng.random() < 0.4:
            ll += [0] * rng.randint(0, 286 - len(ll))
        if rng.random() < 0.4:
            dl += [0] * rng.randint(0, 30 - len(dl))
        return ll, dl

    def rle_block(fin, toks, ll, dl, greedy, nc_min=True, extra_sym=False):
        """kind 'r': items from the independent run-length coder (greedy, or a random legal segmentation), the
           code-length code from the item frequencies, HCLEN minimal or larger"""
        items = refcodec.rle_items(list(ll) + list(dl), None if greedy else rng)
        f = [0] * 19
        for it in items:
            f[refcodec.item_symbol(it)] += 1
        while sum(1 for x in f if x) < 2:
            f[rng.randrange(19)] += 1
        if extra_sym:
            f[rng.randrange(19)] += 1
        cll = refcodec.huff_lengths(f, 7)
        ncmin = max(4, max(k + 1 for k in range(19) if cll[refcodec._CLORDER[k]]))
        nc = ncmin if nc_min else rng.randint(ncmin, 19)
        return ('r', fin, toks, (cll, nc, len(ll), items))

    def spoil(b):
        """an 'r' block that must NOT be written as such (falls back to fixed)"""
        cll, nc, nl, items = b[3]
        cll, items = list(cll), list(items)
        r = rng.randrange(6)
        if r == 0:
            items[rng.randrange(len(items))] = rng.choice([('b', 2), ('b', 11), ('c', 10), ('c', 139), ('a', 2), ('a', 7), ('l', 16)])
        elif r == 1:
            cll[refcodec.item_symbol(rng.choice(items))] = 0           # an item without a code word (and an incomplete code)
        elif r == 2:
            nc = max(4, nc - 1) if nc > 4 else 3                          # a non-zero length not sent / HCLEN out of range
        elif r == 3:
            items = [('a', 3)] + items                                    # symbol 16 first: no previous length
        elif r == 4:
            items = items[:-1] if rng.random() < 0.5 else items + [('c', 11)]      # the wrong number of lengths
        else:
            cll = [min(7, l + 1) if l else 0 for l in cll]               # an incomplete code-length code
        return ('r', b[1], b[2], (cll, nc, nl, items))

    def rand_block(have, w, allow_final=True):
        k = rng.choice(['s', 'f', 'f', 'd', 'd', 'R', 'r', 'r'])
        fin = allow_final and rng.random() < 0.15
        n = rng.choice([0, 1, 2, 5, 20, 60])
        if k == 's' and rng.random() < 0.7:
            toks = [rng.randrange(256) for _ in range(n)]
        else:
            toks, _ = random_tokens(rng, n, have)
            toks = [t if isinstance(t, int) else (min(t[0], 1 << w), t[1]) for t in toks]
        if k in ('R', 'r'):
            ll, dl = pad_lens(*dyn_lens(toks, rng.random() < 0.3))
            if k == 'R':
                return ('R', fin, toks, (ll, dl))
            b = rle_block(fin, toks, ll, dl, greedy=rng.random() < 0.3, nc_min=rng.random() < 0.6, extra_sym=rng.random() < 0.3)
            return spoil(b) if rng.random() < 0.12 else b
        if k == 'd':
            r = rng.random()
            if r < 0.85:
                return dyn(fin, toks, flat=rng.random() < 0.2)
            ll, dl = dyn_lens(toks)
            if r < 0.9 and toks:                      # a code that lacks a symbol of the block: falls back to fixed
                return ('d', fin, toks, dyn_lens(toks[:-1] if toks[-1] not in toks[:-1] else []))
            if r < 0.95:                              # an incomplete code: falls back to fixed
                ll = list(ll)
                ll[256] += 1
                return ('d', fin, toks, (ll, dl))
            return ('d', fin, toks, (ll + [0] * (300 - len(ll)), dl))       # too many symbols: falls back to fixed
        return (k, fin, toks)

    def rand_history(w, nmsgs, allow_final=True):
        hist, msgs = b'', []
        for _ in range(nmsgs):
            blocks = []
            for _ in range(rng.choice([0, 1, 1, 2, 3, 5])):
                b = rand_block(len(hist), w, allow_final)
                hist += refcodec.expand_tokens(b[2], hist)
                blocks.append(b)
            msgs.append(blocks)
        return msgs

    # 1. random histories, all windows
    for _ in range(1200 if quick else 4000):
        w = rng.randint(9, 15)
        cases.append(('random', w, rand_history(w, rng.choice([1, 1, 2, 3, 4])), True))
    for _ in range(100 if quick else 600):
        w = rng.randint(9, 15)
        cases.append(('random-nofinal', w, rand_history(w, rng.choice([1, 2, 3]), allow_final=False), True))
    # 2. every literal, every length, all block kinds, final or not
    for fin in (False, True):
        cases.append(('all-literals', 15, [[('f', fin, list(range(256)))], [('s', fin, list(range(256)))], [dyn(fin, list(range(256)))]], True))
        cases.append(('all-lengths-d1', 15, [[('f', fin, [7] + [(1, n) for n in range(3, 259)])], [dyn(fin, [(1, n) for n in range(3, 259)])]], True))
        cases.append(('all-lengths-d3', 15, [[('f', False, [1, 2, 3])], [('f', fin, [(3, n) for n in range(3, 259)])],
                                           [dyn(fin, [(3, n) for n in range(3, 259)], flat=True)]], True))
    # 3. overlapping matches: distance 1 length 258, distance 2 length 257, ...
    for d in (1, 2, 3, 4, 5, 257, 258, 259):
        pre = [rng.randrange(256) for _ in range(d)]
        cases.append(('overlap', 15, [[('f', False, pre + [(d, 258), (d, 257), (d, 3)])], [dyn(False, [(d, 258), (d, 257), (d, 3)])]], True))
    # 4. every distance-code boundary, with a 32 KiB history made of stored blocks (max LEN = 65535 as well)
    big = [rng.randrange(256) for _ in range(65535)]
    edges = sorted(set(DBASE + [b - 1 for b in DBASE[1:]] + [32768, 32767, 24576]))
    for fin in ((False,) if quick else (False, True)):
        etoks = [(d, rng.choice([3, 4, 258])) for d in edges]
        cases.append(('all-distance-edges', 15, [[('s', False, big)], [('f', fin, etoks)], [dyn(fin, etoks)], [dyn(fin, etoks, flat=True)]], True))
    if not quick:
        for _ in range(6):
            ds = [rng.randint(1, 32768) for _ in range(300)]
            ft = [(d, rng.randint(3, 258)) for d in ds]
            cases.append(('far-distances', 15, [[('s', False, big[:40000])], [('f', False, ft)], [dyn(False, ft)]], True))
    cases.append(('stored-max', 15, [[('s', True, big), ('s', False, big[:1]), ('s', False, [])]], True))
    cases.append(('stored-too-long-falls-back-to-fixed', 15, [[('s', False, big + [1])]], True))
    # 5. window edges: distance = 2^w exactly with >= 2^w bytes of history (valid)
    for w in range(9, 16):
        n = 1 << w
        pre = [rng.randrange(256) for _ in range(n)]
        cases.append(('window-edge', w, [[('s', False, pre)], [('f', False, [(n, 258), (n - 1, 3), (n, 3)])], [dyn(False, [(n, 258), (n - 1, 3), (n, 3)])]], True))
    # 6. empty things
    cases.append(('empty', 15, [[]], True))
    cases.append(('empty', 15, [[('f', False, [])], [('s', False, [])], [('f', True, [])], [('s', True, [])], [dyn(False, [])], [dyn(True, [])], [('f', False, [65])]], True))
    cases.append(('finals-only', 15, [[('f', True, [65]), ('f', True, [(1, 5)]), ('s', True, [66]), dyn(True, [(3, 4), 67]), ('f', False, [(7, 7)])]], True))
    # 6b. code lengths up to 15 (a skewed frequency distribution)
    skew = []
    for i in range(15):
        skew += [i] * (1 << i)
    rng.shuffle(skew)
    b15 = dyn(False, skew)
    assert max(b15[3][0]) == 15, max(b15[3][0])
    cases.append(('dynamic-15-bit-codes', 15, [[b15]], True))
    # 6c. headers with the repeat codes 16 / 17 / 18: runs of exactly 3, 6, 7, 10, 11, 138, 139 zeros; runs of 3, 4, 7
    #     (and 6, 8, 10) equal non-zero lengths; zero and non-zero runs across the HLIT/HDIST boundary; each through the
    #     Lean encoder's own `rle` ('R'), the independent greedy coder and random legal segmentations ('r')
    def all_forms(kind, toks, ll, dl, pre=()):
        for fin in (False, True):
            forms = [('R', fin, toks, (ll, dl)), ('d', fin, toks, (ll, dl)), rle_block(fin, toks, ll, dl, greedy=True)]
            forms += [rle_block(fin, toks, ll, dl, greedy=False, nc_min=rng.random() < 0.5, extra_sym=rng.random() < 0.5)
                      for _ in range(3 if quick else 12)]
            cases.append((kind, 15, [[('f', False, list(pre))] if pre else []] + [[b] for b in forms], True))
    za = [0, 4, 11, 19, 30, 42, 181]                     # gaps of 3, 6, 7, 10, 11, 138 zeros (then 74 up to end-of-block)
    all_forms('rle-zero-runs-3-6-7-10-11-138', za, *dyn_lens(za))
    all_forms('rle-zero-run-139', [0, 140], *dyn_lens([0, 140]))
    l4 = [0] * 258
    for i in list(range(0, 3)) + list(range(10, 14)) + list(range(20, 27)) + [256, 257]:
        l4[i] = 4                                        # sixteen 4-bit codes: runs of 3, 4, 7 and 256..257
    t4 = [i for i in range(256) if l4[i]] + [(1, 3)]
    all_forms('rle-same-runs-3-4-7+crossing-18', t4, l4, [4] * 16)                       # 257, 256 and 16 distance lengths: one run of 18
    all_forms('rle-zero-run-crossing', t4, l4 + [0] * 12, [0, 0, 0] + [4] * 16)         # 12 + 3 zeros across the boundary
    all_forms('rle-zero-run-138-crossing', t4, l4 + [0] * 28, [0] * 14 + [4] * 16)      # 28 + 14 zeros across the boundary
    l5 = [0] * 263
    for i in list(range(0, 6)) + list(range(10, 18)) + list(range(30, 40)) + [100] + list(range(256, 263)):
        l5[i] = 5                                        # thirty-two 5-bit codes: runs of 6, 8, 10, 1 and 256..262
    t5 = [i for i in range(256) if l5[i]] + [(1, n) for n in range(3, 9)]
    all_forms('rle-same-runs-6-8-10+crossing-23', t5, l5, [5] * 16 + [4] * 8)
    all_forms('rle-longest-header', list(range(256)), *dyn_lens(list(range(256)) + [(d, n) for d in DBASE for n in LBASE], flat=True),
              pre=[1] * 4)
    for _ in range(20 if quick else 200):                 # 'r' blocks that must fall back to fixed, one by one
        toks, _ = random_tokens(rng, rng.choice([1, 5, 30]), 0)
        b = rle_block(False, toks, *pad_lens(*dyn_lens(toks)), greedy=rng.random() < 0.5)
        cases.append(('rle-refused', 15, [[spoil(b)]], True))
    # 7. invalid: a distance that reaches before the start of the history
    for _ in range(40 if quick else 300):
        w = rng.randint(9, 15)
        msgs = rand_history(w, rng.choice([1, 2]))
        plain = b''
        for m in msgs:
            for b in m:
                plain += refcodec.expand_tokens(b[2], plain)
        have = len(plain)
        if have + 2 > 32768:
            continue
        bad = [65, (have + 2, rng.randint(3, 258))]
        msgs.append([('f', rng.random() < 0.3, bad) if rng.random() < 0.5 else dyn(rng.random() < 0.3, bad)])
        cases.append(('too-far-back', w, msgs, False))
    return cases


UNENCODABLE = ['f0:L256', 'f0:C0.3', 'f0:C32769.3', 'f0:C1.2', 'f0:C1.259', 's1:L1,L300', 'f0:L1/f1:C5.0']


def check_encoder(res, rng, tier, model_ok):
    """`deflenc` (DeflEnc.encMsgK) against (a) the independent Python bit writer, byte for byte, and (b) REAL zlib:
       the payloads + tails of a history, inflated by zlib (with the zdict restart after BFINAL=1 blocks), must be the
       LZ77 expansion of the tokens (computed here by refcodec.expand_tokens), or a zlib.error for an invalid distance;
       (c) the Lean inflaters on the same bytes (what Properties/C06_Inflate.lean proves, observed)"""
    if not model_ok:
        return 0
    cases = encoder_cases(rng, tier)
    lines, where = [], []
    for ci, (kind, w, msgs, valid) in enumerate(cases):
        for mi, m in enumerate(msgs):
            lines.append('deflenc ' + _msg_spec(m))
            where.append((ci, mi))
    outs = model_run_par(lines)
    payloads = {}
    for (ci, mi), line, o in zip(where, lines, outs):
        ref, dynflags = _ref_encode(cases[ci][2][mi])
        if o != 'ok ' + ref.hex() + ' dyn=' + dynflags:
            res.diffs.append(dict(input=line[:2000], real='(refcodec bit writer) ok ' + ref.hex()[:600] + ' dyn=' + dynflags, model=str(o)[:600],
                                  note='the Lean reference encoder and the independent Python bit writer disagree'))
            payloads[(ci, mi)] = None
        else:
            payloads[(ci, mi)] = ref
    inf_lines, inf_expect = [], []
    for ci, (kind, w, msgs, valid) in enumerate(cases):
        zs = [payloads[(ci, mi)] for mi in range(len(msgs))]
        if any(z is None for z in zs):
            continue
        chunks = [z + TAIL_BYTES for z in zs]
        nofinal = not any(b[1] for m in msgs for b in m)
        plain = None
        if valid:
            plain = b''
            for m in msgs:
                for b in m:
                    plain += refcodec.expand_tokens(b[2], plain)
        want = ('ok', plain) if valid else ('error', None)
        res.case(('deflenc', w, tuple(zs)), nontrivial=any(b[2] for m in msgs for b in m))
        res.count('deflenc:' + kind)
        res.count('deflenc:blocks-stored', sum(1 for m in msgs for b in m if _is_stored(b)))
        res.count('deflenc:blocks-dynamic', sum(1 for m in msgs for b in m if b[0] == 'd' and _dyn_ok(b[3][0], b[3][1], b[2])))
        res.count('deflenc:blocks-dynamic-refused-lens', sum(1 for m in msgs for b in m if b[0] == 'd' and not _dyn_ok(b[3][0], b[3][1], b[2])))
        res.count('deflenc:blocks-dynamic-rle(lean-rle)', sum(1 for m in msgs for b in m if b[0] == 'R' and _written_dynamic(b)))
        res.count('deflenc:blocks-dynamic-rle(items)', sum(1 for m in msgs for b in m if b[0] == 'r' and _written_dynamic(b)))
        res.count('deflenc:blocks-dynamic-rle-refused', sum(1 for m in msgs for b in m if b[0] in ('R', 'r') and not _written_dynamic(b)))
        for m in msgs:
            for b in m:
                if b[0] == 'r' and _written_dynamic(b):
                    for it in b[3][3]:
                        if it[0] != 'l':
                            res.count('deflenc:rle-items-sym%d' % refcodec.item_symbol(it))
                    lens = refcodec.expand_items(b[3][3])
                    pos = 0
                    for it in b[3][3]:
                        n = 1 if it[0] == 'l' else it[1]
                        if pos < b[3][2] < pos + n:
                            res.count('deflenc:rle-run-across-hlit-hdist-boundary')
                        pos += n
                    res.count('deflenc:rle-hclen-%s' % ('minimal' if b[3][1] == max(4, max(k + 1 for k in range(19) if b[3][0][refcodec._CLORDER[k]])) else 'longer'))
        res.count('deflenc:blocks-fixed', sum(1 for m in msgs for b in m if not _is_stored(b) and not _written_dynamic(b)))
        res.count('deflenc:blocks-final', sum(1 for m in msgs for b in m if b[1]))
        res.count('deflenc:matches', sum(1 for m in msgs for b in m for t in b[2] if not isinstance(t, int)))
        res.traces_validated += 1
        feeds = [('zlib-restart', zlib_feed_safe)] + ([('zlib', zlib_feed)] if nofinal else [])
        for name, feed in feeds:
            st, val = feed(w, chunks)
            ok = (st == 'ok' and val == plain) if valid else (st == 'error' and 'too far back' in val)
            if not ok:
                res.diffs.append(dict(input=' | '.join(_msg_spec(m) for m in msgs)[:3000], model='deflenc: ' + ' '.join(z.hex() for z in zs)[:600] +
                                      ' ; expansion ' + (plain[:60].hex() if plain is not None else 'invalid'),
                                      real='%s(-%d): %s %s' % (name, w, st, (val[:60].hex() if st == 'ok' else val)),
                                      note='real zlib does not read the reference encoder\'s output as the LZ77 expansion of the tokens'))
        hx = b''.join(chunks).hex()
        if len(hx) < 300000:
            inf_lines.append('inflatesafe %d %s' % (w, hx))
            inf_expect.append('ok ' + plain.hex() if valid else 'error')
            if nofinal:
                inf_lines.append('inflate %d %s' % (w, hx))
                inf_expect.append('ok ' + plain.hex() if valid else 'error')
    for line, want, got in zip(inf_lines, inf_expect, model_run_par(inf_lines)):
        res.count('deflenc:lean-inflater-run')
        if got != want:
            res.diffs.append(dict(input=line[:3000], real='(LZ77 expansion) ' + want[:600], model=str(got)[:600],
                                  note='Model/Inflate.lean on the reference encoder\'s output: contradicts Properties/C06_Inflate.lean'))
    for spec, o in zip(UNENCODABLE, runner.model_run(['deflenc ' + u for u in UNENCODABLE])):
        res.count('deflenc:unencodable')
        if o != 'unencodable':
            res.diffs.append(dict(input='deflenc ' + spec, real='(RFC 1951: not representable) unencodable', model=str(o)[:200]))
    res.exhaustive['deflenc_all_match_lengths_3_258'] = 256
    res.exhaustive['deflenc_all_literals'] = 256
    res.exhaustive['deflenc_distance_code_boundaries'] = 62
    res.exhaustive['deflenc_rle_run_lengths_3_6_7_10_11_138_139'] = 7
    res.notes.append('reference encoder (Model/DeflEnc.lean) validated against zlib on %d histories / %d messages' % (len(cases), len(lines)))
    res.samples += ['deflenc f0:L72,L101,L108,L108,L111', 'deflenc s0:L72,L105/f1:L33,C1.258,C3.100/f0:L1',
                    'deflenc ' + _msg_spec([('d', False, [65, 66, 65, (2, 3)], dyn_lens([65, 66, 65, (2, 3)]))])]
    return len(cases)


# ---------------------------------------------------------------------------------------------
# A'. the real `Deflate.decompress` on histories with BFINAL=1 blocks (repaired shape only)

class RefInflater:
    """message-level reference: zlib + `zdict` restart after every end of stream"""

    def __init__(self, w, reset):
        self.w, self.reset = w, reset
        self.d = zlib.decompressobj(-w)
        self.win = b''
        self.restarts = 0

    def message(self, parts):
        out = bytearray()
        for c in list(parts) + [TAIL]:
            data = c
            while True:
                out += self.d.decompress(data)
                if not self.d.eof:
                    break
                data = self.d.unused_data
                self.restarts += 1
                win = (self.win + bytes(out))[-(1 << self.w):]
                self.d = zlib.decompressobj(-self.w, zdict=win) if win else zlib.decompressobj(-self.w)
                if not data:
                    break
        if self.reset:
            self.d, self.win = zlib.decompressobj(-self.w), b''
        else:
            self.win = (self.win + bytes(out))[-(1 << self.w):]
        return bytes(out)


def real_deflate_histories(items):
    from lomond.compression import Deflate
    from lomond.frame import Frame
    outs = []
    for w, reset, msgs in items:
        d = Deflate(w, 15, reset, False)
        res = []
        for parts in msgs:
            try:
                res.append(bytes(d.decompress([Frame(2 if i == 0 else 0, p, fin=1 if i == len(parts) - 1 else 0) for i, p in enumerate(parts)])).hex())
            except zlib.error:
                res.append('error')
                break
            except Exception as e:  # noqa -- anything else escaping decompress() kills the session loop instead of becoming a ProtocolError
                res.append('exception:' + type(e).__name__)
                break
        outs.append(res)
    return outs


def check_deflate_unit(res, rng, tier):
    if not world.bfinal_safe():
        res.notes.append('Deflate.decompress unit run skipped: the code under test is the unrepaired shape (D6 is reported by the connection scenarios)')
        return 0
    items = []
    for _ in range(300 if tier == 'quick' else 4000):
        w = rng.choice([15, 15, 15, 8, 9, 10, 12])
        reset = rng.random() < 0.25
        msgs = []
        for k in range(rng.choice([1, 2, 3, 5])):
            r = rng.random()
            if r < 0.45:
                z, _ = crafted_stream(rng, rng.choice([1, 2, 3]), final_at=rng.choice([None, 0, 0, 1]), align_after_final=True)
                z = z[:-4]
            elif r < 0.6:
                c = zlib.compressobj(rng.choice([1, 6, 9]), zlib.DEFLATED, -max(9, w))
                z = c.compress(gen_plain(rng, rng.choice(['text', 'runs', 'empty']), rng.choice([0, 5, 300, 3000]))) + c.flush(zlib.Z_FINISH) + b'\x00'
            elif r < 0.7:
                z = bytes.fromhex(rng.choice(['f348cdc9c9070000', 'f248cdc9c90700', 'f200110000', '0300', '01000000ffff']))
            else:
                z = zlib_stream(rng, max(9, w), [gen_plain(rng, rng.choice(['text', 'mixed', 'rand']), rng.choice([1, 40, 700, 40000]))])[0][:-4]
            if rng.random() < 0.08:
                z = corrupt(rng, z)
            msgs.append(cut(z, coreutil.random_cuts(rng, len(z), rng.choice([0, 0, 1, 3]))) or [z])
        items.append((w, reset, msgs))
    reals = real_deflate_histories(items)
    for (w, reset, msgs), real in zip(items, reals):
        ref = RefInflater(w, reset)
        want = []
        for parts in msgs:
            try:
                want.append(ref.message(parts).hex())
            except zlib.error:
                want.append('error')
                break
        res.case(('deflate-unit', w, reset, tuple(b''.join(p) for p in msgs)), nontrivial=True)
        res.count('deflate-unit:' + ('error' if 'error' in want else 'ok'))
        res.traces_validated += 1
        if real != want:
            k = next((i for i, (a, b) in enumerate(zip(real, want)) if a != b), min(len(real), len(want)))
            res.failures.append(dict(cls='wrong-content-unit', what='Deflate.decompress differs from the zdict-restart reference at message %d' % k,
                                     input='w=%d reset=%s msgs=%s' % (w, reset, [[p.hex() for p in parts] for parts in msgs])[:3000],
                                     observed=[x[:80] for x in real[k:k + 1]], expected=[x[:80] for x in want[k:k + 1]]))
    return len(items)


# ---------------------------------------------------------------------------------------------
# B. parameter spellings

KEYS = ['server_max_window_bits', 'client_max_window_bits']
# value spelling -> what RFC 7692 7.1.2 says: an int (must be accepted with that value), 'bad'
# (must be refused) or 'lenient' (not a valid spelling; Python's int() takes it: either way is
# tolerated, but if accepted the value must be the obvious one)
VALUE_SPELLINGS = [(str(v), v) for v in range(8, 16)] + [('"%d"' % v, v) for v in range(8, 16)] + [
    ('7', 'bad'), ('16', 'bad'), ('0', 'bad'), ('1', 'bad'), ('100', 'bad'), ('-1', 'bad'), ('-8', 'bad'), ('-15', 'bad'),
    ('abc', 'bad'), ('1e1', 'bad'), ('10.0', 'bad'), ('0x0a', 'bad'), ('8 9', 'bad'), ('', 'bad'), ('""', 'bad'),
    ('"', 'bad'), ('ten', 'bad'), ('1__0', 'bad'), ('_10', 'bad'), ('10_', 'bad'), ('+', 'bad'), ('-', 'bad'), ('"7"', 'bad'), ('"16"', 'bad'),
    ('+9', ('lenient', 9)), ('09', ('lenient', 9)), ('015', ('lenient', 15)), ('1_0', ('lenient', 10)), ('+15', ('lenient', 15)),
    ('"10', ('lenient', 10)), ('10"', ('lenient', 10)), ('""12""', ('lenient', 12)), ('" 11 "', ('lenient', 11)), ('-0', 'bad'), ('00', 'bad'),
    ('8\t', 8), (' 9', 9)]
EQ_SPELLINGS = ['=', ' = ', '= ', ' =', '\t=\t']


def real_parse_exts(items):
    from lomond.extension import parse_extension
    from lomond.compression import Deflate
    from lomond.errors import CompressionParameterError
    out = []
    for ext in items:
        tok, opts = parse_extension(ext)
        try:
            d = Deflate.from_options(opts)
            out.append('tok=%s ok %d %d %d %d' % (tok.encode('utf-8').hex(), d.decompress_wbits, d.compress_wbits,
                                                   1 if d.reset_decompress else 0, 1 if d.reset_compress else 0))
        except CompressionParameterError as e:
            out.append('tok=%s error %s' % (tok.encode('utf-8').hex(), str(e).encode('utf-8').hex()))
        except Exception as e:  # noqa -- anything else is not a HandshakeError: the connection would die with 'error'
            out.append('tok=%s crash %s' % (tok.encode('utf-8').hex(), type(e).__name__))
    return out


def check_params(res, rng, tier, model_ok):
    exts = []      # (string, expected) expected = (dw, cw, rd, rc) | 'bad' | ('lenient', tuple)
    for ki, key in enumerate(KEYS):
        for sp, meaning in VALUE_SPELLINGS:
            for eq in (EQ_SPELLINGS if tier != 'quick' else EQ_SPELLINGS[:2]):
                for sep in ('; ', ';', ' ;  '):
                    ext = 'permessage-deflate' + sep + key + eq + sp
                    if isinstance(meaning, int):
                        exp = (meaning, 15, 0, 0) if ki == 0 else (15, meaning, 0, 0)
                    elif meaning == 'bad':
                        exp = 'bad'
                    else:
                        exp = ('lenient', (meaning[1], 15, 0, 0) if ki == 0 else (15, meaning[1], 0, 0))
                    exts.append((ext, exp))
        # bare parameter (no value) is not allowed in a response
        exts.append(('permessage-deflate; ' + key, 'bad'))
        exts.append(('permessage-deflate;' + key + ';', 'bad'))
    # all 8x8x2x2 configurations in a canonical and a noisy spelling, any order
    for sw in range(8, 16):
        for cw in range(8, 16):
            for snt in (0, 1):
                for cnt in (0, 1):
                    parts = ['server_max_window_bits=%d' % sw, 'client_max_window_bits = "%d"' % cw]
                    if snt:
                        parts.append('server_no_context_takeover')
                    if cnt:
                        parts.append(rng.choice(['client_no_context_takeover', ' client_no_context_takeover ', 'client_no_context_takeover=1']))
                    rng.shuffle(parts)
                    exts.append(('permessage-deflate; ' + rng.choice(['; ', ';', ' ;']).join(parts), (sw, cw, snt, cnt)))
    exts += [('permessage-deflate', (15, 15, 0, 0)), ('permessage-deflate;', (15, 15, 0, 0)), (' permessage-deflate ; ', (15, 15, 0, 0)),
             ('permessage-deflate; server_max_window_bits=10; server_max_window_bits=12', ('lenient', (12, 15, 0, 0))),
             ('permessage-deflate; server_max_window_bits=10; server_max_window_bits=99', 'bad'),
             ('permessage-deflate; unknown_param=3', ('lenient', (15, 15, 0, 0))),
             ('permessage-deflate; SERVER_MAX_WINDOW_BITS=9', ('lenient', (15, 15, 0, 0)))]
    res.exhaustive['deflate_parameter_combinations_8x8x2x2'] = 256
    res.exhaustive['parameter_value_spellings'] = len(VALUE_SPELLINGS) * 2
    strs = [e for e, _ in exts]
    reals = real_parse_exts(strs)
    models = runner.model_run(['deflateopts ' + '.'.join(str(ord(c)) for c in e) for e in strs]) if model_ok else [None] * len(strs)
    for (ext, exp), real, m in zip(exts, reals, models):
        res.case(('ext', ext), nontrivial=True)
        res.count('params:unit')
        res.traces_validated += 1
        if m is not None and m != real:
            res.diffs.append(dict(input='deflateopts ' + repr(ext), real=real, model=m))
        fields = real.split(' ')
        if fields[1] == 'crash':
            res.failures.append(dict(cls='param-crash', what='parameter handling raised %s instead of accepting or raising CompressionParameterError' % fields[2], input=ext, observed=real, expected=exp))
            continue
        got = tuple(int(x) for x in fields[2:6]) if fields[1] == 'ok' else 'bad'
        if exp == 'bad':
            if got != 'bad':
                res.failures.append(dict(cls='param-accepted', what='invalid permessage-deflate parameter accepted', input=ext, observed=real, expected='CompressionParameterError'))
        elif isinstance(exp, tuple) and exp and exp[0] == 'lenient':
            res.count('params:lenient-' + ('accepted' if got != 'bad' else 'refused'))
            if got != 'bad' and got != exp[1]:
                res.failures.append(dict(cls='param-value', what='parameter parsed to a different value', input=ext, observed=real, expected=exp[1]))
        else:
            if got != exp:
                res.failures.append(dict(cls='param-value', what='valid parameter spelling not parsed to its value', input=ext, observed=real, expected=exp))
    return exts


# ---------------------------------------------------------------------------------------------
# C + D. whole connections, both directions

ALL_CONFIGS = [(sw, cw, snt, cnt) for sw in range(8, 16) for cw in range(8, 16) for snt in (0, 1) for cnt in (0, 1)]
SPREAD_64 = [(sw, cw, ((3 * sw + cw) % 4) >> 1, ((3 * sw + cw) % 4) & 1) for sw in range(8, 16) for cw in range(8, 16)]
KINDS = ['repeats', 'incompressible', 'small', 'large']
TAIL = b'\x00\x00\xff\xff'


def max_dist(w):
    """zlib: MAX_DIST = w_size - MIN_LOOKAHEAD"""
    return (1 << w) - 262


def spell_header(rng, sw, cw, snt, cnt):
    def val(name, v):
        return rng.choice(['%s=%d', '%s="%d"', '%s = %d', '%s= "%d"', '%s=%d ', '%s =%d']) % (name, v)
    parts = []
    if sw != 15 or rng.random() < 0.6:
        parts.append(val('server_max_window_bits', sw))
    if cw != 15 or rng.random() < 0.6:
        parts.append(val('client_max_window_bits', cw))
    if snt:
        parts.append('server_no_context_takeover')
    if cnt:
        parts.append('client_no_context_takeover')
    rng.shuffle(parts)
    sep = rng.choice(['; ', ';', ' ; ', ';  '])
    ext = sep.join(['permessage-deflate'] + parts)
    r = rng.random()
    if r < 0.1:
        ext = 'x-unknown-ext; a=1, ' + ext
    elif r < 0.15:
        return ('Sec-WebSocket-Extensions: x-unknown-ext\r\nSec-WebSocket-Extensions: %s\r\n' % ext).encode()
    return ('Sec-WebSocket-Extensions: %s\r\n' % ext).encode()


ALNUM = b'abcdefghijklmnopqrstuvwxyzABCDEFGHIJKLMNOPQRSTUVWXYZ0123456789+/'


_TO_ALNUM = bytes(ALNUM[b & 63] for b in range(256))


def rascii(rng, n):
    return rng.randbytes(n).translate(_TO_ALNUM)


def plain_history(rng, kind, w, tier):
    """list of (type, payload): the plaintext messages of one direction; `w` = window bits of the
       compressor of that direction (distances of interest are placed around its limits)"""
    ws = 1 << w
    if kind == 'repeats':
        cands = [250, 256, 506, 512, ws - 263, ws - 262, ws - 261, ws - 1, ws, ws + 1]
        if w == 15 or rng.random() < (0.15 if tier == 'quick' else 0.3):
            cands += [32768 - 262, 32768, 32769]
        cands = [d for d in cands if d >= 40]
        ds = rng.sample(cands, min(len(cands), rng.choice([2, 3, 4])))
        s = bytearray()
        for d in ds:
            b = rascii(rng, rng.choice([12, 24, 40]))
            s += b + rascii(rng, d - len(b)) + b
        cuts = sorted(rng.sample(range(1, len(s)), min(len(s) - 1, rng.choice([1, 2, 3, 5]))))
        parts = cut(bytes(s), cuts)
        return [(rng.choice(['text', 'binary']), p) for p in parts]
    if kind == 'incompressible':
        out = []
        for _ in range(rng.choice([2, 3, 5])):
            n = rng.choice([1, 2, 50, 300, 1000, 5000])
            r_ = rng.random()
            if r_ < 0.2:
                # incompressible data (zlib emits stored blocks) that CONTAINS the octets of the sync-flush tail 00 00 ff ff, also right
                # at the start / end, and the 255-byte payload starting with ff (its stored-block header ends in ..ff 00 00 ff): removing
                # "the tail" must mean the last four octets, not the first occurrence of the pattern
                body = bytearray(rbytes(rng, max(n, 12)))
                for _k in range(rng.choice([1, 2, 3])):
                    pos = rng.choice([0, len(body) - 4, rng.randrange(0, len(body) - 3)])
                    body[pos:pos + 4] = b'\x00\x00\xff\xff'
                out.append(('binary', bytes(body)))
                if rng.random() < 0.5:
                    out.append(('binary', b'\xff' + rbytes(rng, 254)))
            elif r_ < 0.6:
                out.append(('binary', rbytes(rng, n)))
            else:
                import gen_core
                out.append(('text', gen_core.rand_text(rng, n)))
        return out
    if kind == 'small':
        out = []
        for _ in range(rng.choice([3, 5, 8])):
            r = rng.random()
            if r < 0.2:
                out.append((rng.choice(['text', 'binary']), b''))
            elif r < 0.4 and out:
                out.append(rng.choice(out))                # an earlier message again
            elif r < 0.7:
                out.append(('text', gen_plain(rng, 'text', rng.choice([1, 5, 30, 200, 700]))))
            else:
                out.append(('binary', gen_plain(rng, rng.choice(['runs', 'mixed', 'rand']), rng.choice([1, 3, 100, 600]))))
        return out
    if kind == 'large':
        a = ('text', gen_plain(rng, 'text', rng.choice([40, 300])))
        n = rng.choice([33000, 40000, 66000] if tier == 'quick' else [32768, 33000, 40000, 66000, 70000, 140000])
        big = bytearray()
        while len(big) < n:
            big += gen_plain(rng, rng.choice(['text', 'rand', 'runs']), rng.choice([500, 3000, 9000]))
        return [a, ('binary', bytes(big[:n])), a, ('binary', bytes(big[:200])), a]
    raise ValueError(kind)


def text_ok(p):
    try:
        p.decode('utf-8')
        return True
    except UnicodeDecodeError:
        return False


def build_scenario(rng, cfg, kind, tier, negotiated=True):
    """one connection: the peer sends a history, the application sends a history.
       returns (Scenario, meta)"""
    import gen_core
    sw, cw, snt, cnt = cfg
    sc = Scenario([], prate=0, compress=True)
    peer = DeflatePeer(sw, cw, bool(snt), bool(cnt))
    # peer -> client
    items, srv = [], []
    ctx = bytearray()           # what the peer's compressor has seen (context takeover)
    for typ, payload in plain_history(rng, kind, max(9, sw), tier):
        if typ == 'text' and not text_ok(payload):
            typ = 'binary'
        compressed = negotiated and rng.random() < 0.8
        if compressed:
            wire = peer.compress(payload)
            srv.append(dict(wire=wire.hex(), window=bytes(ctx[-32768:]).hex(), plain=payload.hex()))
            if not snt:
                ctx += payload
                del ctx[:-40000]
        else:
            wire = payload
        frags = gen_core.fragment(rng, wire, maxfrags=5)
        between = [[gen_core.gen_control(rng) for _ in range(rng.choice([0, 0, 0, 1, 2]))] for _ in range(len(frags) - 1)]
        items.append(gen_core.Item(typ, payload, frags, between, compressed=compressed))
        if rng.random() < 0.2:
            items.append(gen_core.gen_control(rng))
    expected = [e for it in items for e in it.expected()]
    frames = [f for it in items for f in gen_core.serialise_item(rng, it)]
    hs = sc.good_reply(spell_header(rng, sw, cw, snt, cnt) if negotiated else rng.choice([b'', b'Sec-WebSocket-Extensions: x-unknown-ext; permessage-deflate\r\n']))
    data = hs + b''.join(frames)
    k = rng.choice([0, 1, 3, 8, 40])
    chunks = coreutil.limit_chunks(cut(data, coreutil.random_cuts(rng, len(data), k)))
    sc.env = reads(chunks) + [('wait', 1, ('eof',))]
    # client -> peer
    sends = []
    for typ, payload in plain_history(rng, rng.choice(KINDS) if kind != 'large' else 'small', max(9, cw), tier):
        if typ == 'text' and not text_ok(payload):
            typ = 'binary'
        flag = rng.random() < 0.8
        if typ == 'text':
            sends.append(('send_text', ('s', [ord(c) for c in payload.decode('utf-8')]), flag))
        else:
            sends.append(('send_binary', ('b', payload), flag))
    n_ev = len(expected)
    rx = {}
    for a in sends:
        idx = 2 if rng.random() < 0.5 else rng.randint(2, 2 + n_ev)
        rx.setdefault(idx, []).append(a)
    sc.reactions = rx
    meta = dict(cfg=list(cfg), kind=kind, negotiated=negotiated, expected=expected, srv=srv, mode='conforming')
    return sc, meta


def special_scenarios(rng, tier):
    """BFINAL blocks (RFC 7692 7.2.3.4), corrupted compressed payloads, a peer that ignores the
       negotiated window"""
    out = []
    R = refcodec

    def mk(cfg, msgs, mode, expected, extra=None):
        sw, cw, snt, cnt = cfg
        sc = Scenario([], prate=0, compress=True)
        frames = b''
        for op, wire in msgs:
            frs = wire if isinstance(wire, list) else [wire]          # a list = the fragments of the message
            for i, part in enumerate(frs):
                frames += server_frame(op if i == 0 else 0, part, fin=1 if i == len(frs) - 1 else 0, rsv1=1 if i == 0 else 0)
        data = sc.good_reply(spell_header(rng, sw, cw, snt, cnt)) + frames
        sc.env = reads(cut(data, coreutil.random_cuts(rng, len(data), rng.choice([0, 2])))) + [('wait', 1, ('eof',))]
        meta = dict(cfg=list(cfg), kind=mode, negotiated=True, expected=expected, srv=[], mode=mode)
        meta.update(extra or {})
        out.append((sc, meta))

    hello1 = bytes.fromhex('f348cdc9c9070000')      # RFC 7692 7.2.3.4: "Hello", BFINAL=1 (+ 00)
    hello2 = bytes.fromhex('f248cdc9c90700')        # "Hello", BFINAL=0
    want = ['E:text:' + b'Hello'.hex()] * 2
    # the known defect: context takeover, a BFINAL=1 block, then another compressed message
    mk((15, 15, 0, 0), [(1, hello1), (1, hello2)], 'bfinal', want)
    mk((rng.randint(8, 15), rng.randint(8, 15), 0, rng.randint(0, 1)), [(1, hello1), (1, hello2), (1, hello2)], 'bfinal', want + want[:1])
    # ... the same peer with server_no_context_takeover: the decompressor is renewed per message
    mk((15, 15, 1, 0), [(1, hello1), (1, hello2), (1, hello1)], 'bfinal', want + want[:1])
    # ... zlib Z_FINISH streams (a new deflate stream per message, final block + one 00 byte)
    for _ in range(2 if tier == 'quick' else 10):
        snt = rng.randint(0, 1)
        msgs, exp = [], []
        for _ in range(rng.choice([2, 3])):
            p = gen_plain(rng, 'text', rng.choice([0, 5, 200]))
            c = zlib.compressobj(rng.choice([1, 6, 9]), zlib.DEFLATED, -15)
            msgs.append((2, c.compress(p) + c.flush(zlib.Z_FINISH) + b'\x00'))
            exp.append('E:binary:' + p.hex())
        mk((15, rng.randint(8, 15), snt, 0), msgs, 'bfinal', exp)
    # ... hand-encoded messages in which a BFINAL=1 block is followed (at the next byte boundary) by
    # further blocks that refer back across it and into earlier messages; fragments cut right
    # after the final block, inside it, anywhere.  Expected content: what the blocks mean according
    # to the independent decoder (every block of the message, window carried over).
    for _ in range(6 if tier == 'quick' else 120):
        snt = rng.choice([0, 0, 0, 1])
        sw = rng.choice([15, 15, 12, 9])
        ctx = bytearray()
        msgs, exp = [], []
        for k in range(rng.choice([2, 3, 4])):
            bw = R.BitWriter()
            plain = bytearray()
            marks = []
            nb = rng.choice([1, 2, 3])
            fin_at = rng.choice([None, 0, 0, nb - 1]) if k < 3 else None
            for b in range(nb):
                toks, _ = random_tokens(rng, rng.choice([1, 3, 20, 60]), len(ctx) + len(plain))
                toks = [t if isinstance(t, int) else (min(t[0], 1 << sw), t[1]) for t in toks]      # a conforming peer
                plain += R.expand_tokens(toks, bytes(ctx + plain))
                fin = (fin_at == b)
                rng.choice([R.put_fixed_block, R.put_dynamic_block])(bw, toks, fin)
                if fin:
                    bw.align()
                    marks.append(len(bw.out))
            # the data ends with an empty stored block minus its last four bytes; when the last block
            # is the final one this is the single 00 byte of RFC 7692 7.2.3.4
            R.sync_tail(bw)
            wire = bw.bytes()[:-4]
            ref = R.inflate_log(wire + TAIL, bytes(ctx), stop_at_final=False)
            assert ref['out'] == bytes(plain), 'encoder / reference decoder disagree'
            cuts = [m for m in marks if rng.random() < 0.6] + coreutil.random_cuts(rng, len(wire), rng.choice([0, 0, 1, 2]))
            msgs.append((2, cut(wire, cuts) or [wire]))
            exp.append('E:binary:' + bytes(plain).hex())
            if not snt:
                ctx += plain
                del ctx[:-40000]
        mk((sw, rng.randint(8, 15), snt, 0), msgs, 'bfinal', exp)
    # corrupted compressed payloads (server window 15, where zlib's window test and the strict one coincide)
    for _ in range(12 if tier == 'quick' else 150):
        snt = rng.randint(0, 1)
        peer = DeflatePeer(15, 15, bool(snt), False)
        msgs, ref = [], []
        d = RefInflater(15, bool(snt))      # what the (corrupted) data means: every block, window carried over
        bad_at = rng.randrange(3)
        failed = False
        for i in range(3):
            p = gen_plain(rng, rng.choice(['text', 'mixed', 'runs']), rng.choice([5, 60, 400]))
            wire = peer.compress(p)
            if i == bad_at:
                wire = corrupt(rng, wire)
            msgs.append((2, wire))
            if not failed:
                try:
                    ref.append('E:binary:' + d.message([wire]).hex())
                except zlib.error:
                    ref.append('ERR')
                    failed = True
        # a flipped bit can set BFINAL: then the pinned code shows finding D6 on this history
        mk((15, 15, snt, 0), msgs, 'corrupted', ref, dict(had_final=d.restarts > 0))
    # invalid parameters in the response: the handshake must be refused (Rejected), nothing delivered
    bad_exts = ['permessage-deflate; %s=%s' % (k, v) for k in KEYS for v in ('7', '16', '0', '-8', 'abc', '', '""', '8.5', '1e1', '99')]
    bad_exts += ['permessage-deflate; client_max_window_bits', 'permessage-deflate; server_max_window_bits',
                 'permessage-deflate; server_max_window_bits=10; client_max_window_bits=1',
                 'permessage-deflate; server_max_window_bits=10, permessage-deflate; server_max_window_bits=77',
                 'permessage-deflate; server_max_window_bits="7"', 'permessage-deflate;client_max_window_bits = 16 ']
    for ext in (bad_exts if tier != 'quick' else rng.sample(bad_exts, 12)):
        sc = Scenario([], prate=0, compress=True)
        data = sc.good_reply(('Sec-WebSocket-Extensions: %s\r\n' % ext).encode()) + server_frame(1, bytes.fromhex('f248cdc9c90700'), rsv1=1)
        sc.env = reads(cut(data, coreutil.random_cuts(rng, len(data), rng.choice([0, 2])))) + [('wait', 1, ('eof',))]
        sc.reactions = {2: [('send_text', ('s', [104, 105]), True)]}
        out.append((sc, dict(cfg=[0, 0, 0, 0], kind='bad-param', negotiated=False, expected=[], srv=[], mode='bad-param', ext=ext)))
    # a peer that compresses with a larger window than it promised: the match reaches back beyond 2^sw
    for sw in ([8, 9, 12] if tier == 'quick' else range(8, 15)):
        for delta in (0, 1):
            ws = 1 << sw
            first = rascii(rng, ws + 40)
            bw = R.BitWriter()
            for i in range(0, len(first), 60000):
                R.put_stored_block(bw, first[i:i + 60000])
            R.sync_tail(bw)
            m1 = bw.bytes()[:-4]
            bw = R.BitWriter()
            R.put_fixed_block(bw, [(ws + delta, 7), 33])
            R.sync_tail(bw)
            m2 = bw.bytes()[:-4]
            second = R.expand_tokens([(ws + delta, 7), 33], first)
            exp = ['E:binary:' + first.hex(), 'E:binary:' + second.hex() if delta == 0 else 'ERR']
            mk((sw, 15, 0, 0), [(2, m1), (2, m2)], 'window-violation' if delta else 'window-edge', exp)
    return out


def real_c06(item):
    """worker: run one scenario on the real code; measure every compressed frame independently"""
    js, meta = item
    sc = coreutil.scenario_from_json(js)
    worlds = []
    trace = world.run_chain([sc], worlds)[0]
    w = worlds[0]
    cfg = w.deflate_cfg
    neg = None if cfg is None else [cfg.decompress_wbits, cfg.compress_wbits, 1 if cfg.reset_decompress else 0, 1 if cfg.reset_compress else 0]
    raw = [bytes(x) for x in w.raw[1:]]
    frames = []
    for x in raw:
        try:
            fs = refcodec.decode_client_frames(x)
        except refcodec.ClientFrameError as e:
            frames.append(dict(bad=str(e), raw=x.hex()))
            continue
        for f in fs:
            frames.append(dict(fin=f['fin'], rsv1=f['rsv1'], rsv2=f['rsv2'], rsv3=f['rsv3'], opcode=f['opcode'], payload=f['payload'].hex()))
    # largest match distance of the peer's compressed messages (the assumption made about zlib)
    dist = []
    for m in meta['srv']:
        try:
            r = refcodec.inflate_log(bytes.fromhex(m['wire']) + TAIL, bytes.fromhex(m['window']))
            dist.append([r['max_dist'], r['out'].hex() == m['plain']])
        except refcodec.InflateError as e:
            dist.append([-1, str(e)])
    r = dict(trace=trace, neg=neg, frames=frames, srvdist=dist)
    # the oracle runs here too (it is pure: plaintexts from the scenario, frames from the wire)
    col = _Collector()
    pl = judge(col, js, meta.get('line', ''), meta, r)
    return dict(trace=trace, failures=col.failures, counts=col.distribution,
                peer=[[cw, z.hex(), p.hex()] for cw, z, p in (pl or [])])


class _Collector:
    """what `judge` needs of a runner.Result, picklable"""

    def __init__(self):
        self.failures, self.distribution = [], {}

    def count(self, name, k=1):
        self.distribution[name] = self.distribution.get(name, 0) + k


def sends_executed(sc_json, trace):
    """the application calls that were made, in order, with their outcomes (from the trace)"""
    rx = {int(k): v for k, v in sc_json['reactions'].items()}
    out, ev = [], 0
    toks = trace.split(' ')
    i = 0
    while i < len(toks):
        t = toks[i]
        i += 1
        if t.startswith('E:'):
            acts = rx.get(ev, [])
            ev += 1
            # the outcomes of this event's calls follow, interleaved with the writes they caused
            k = 0
            while k < len(acts) and i < len(toks):
                if toks[i].startswith('R:'):
                    out.append((acts[k], toks[i][2:]))
                    k += 1
                elif toks[i].startswith('E:'):
                    break
                i += 1
    return out


def judge(res, js, line, meta, r):
    """the model-free oracle on one real run"""
    sw, cw, snt, cnt = meta['cfg']
    trace = r['trace']
    evs = [e for e in events(trace) if e.startswith(('E:text', 'E:binary', 'E:ping', 'E:pong', 'E:protocol_error'))]
    data_evs = [e for e in evs if not e.startswith('E:protocol_error')]
    perr = [e for e in evs if e.startswith('E:protocol_error')]
    mode = meta['mode']
    if mode == 'bad-param':
        res.count('handshake-bad-param')
    fail = lambda cls, what, **kw: res.failures.append(dict(cls=cls, what=what, input=line[:6000], cfg=meta['cfg'], **kw))
    if mode == 'bad-param':
        all_evs = events(trace)
        if not any(e.startswith('E:rejected:') for e in all_evs) or any(e.startswith(('E:ready', 'E:text', 'E:binary')) for e in all_evs):
            fail('param-accepted', 'handshake with an invalid permessage-deflate parameter (%s) was not refused' % meta['ext'],
                 observed=[e[:120] for e in all_evs], expected='Rejected')
        if any(('bad' not in f) and f['opcode'] in (1, 2) for f in r['frames']):
            fail('send-after-reject', 'data frame written after the handshake was refused', observed=r['frames'])
        return None
    # negotiated parameters
    if meta['negotiated']:
        if r['neg'] != [sw, cw, snt, cnt]:
            fail('negotiation', 'negotiated parameters differ from the response header', observed=r['neg'], expected=[sw, cw, snt, cnt])
    elif r['neg'] is not None:
        fail('negotiation', 'compression enabled although the response did not negotiate permessage-deflate', observed=r['neg'])
    # --- peer -> client
    exp = meta['expected']
    if mode == 'conforming':
        if perr or data_evs != exp:
            bad = next((i for i, (a, b) in enumerate(zip(data_evs, exp)) if a != b), min(len(data_evs), len(exp)))
            fail('wrong-content' if (bad < len(data_evs) and not perr) else 'conforming-peer-refused',
                 'messages of a conforming peer not delivered with their original content',
                 observed=[e[:200] for e in evs[max(0, bad - 1):bad + 2]], expected=[e[:200] for e in exp[max(0, bad - 1):bad + 2]])
        # the assumption about zlib (peer side)
        for (d, ok), m in zip(r['srvdist'], meta['srv']):
            res.count('maxdist-measured')
            if ok is not True or d > max_dist(max(9, sw)):
                fail('assumption-zlib-maxdist', 'zlib (peer) emitted a match distance beyond 2^w-262 or the reference decoder disagrees',
                     observed=[d, ok], expected=max_dist(max(9, sw)))
            if d > (1 << sw):
                fail('assumption-zlib-maxdist', 'peer match distance beyond the negotiated server window', observed=d, expected=1 << sw)
    else:
        # BFINAL / corrupted / window: every delivered message must be the expected one, in order;
        # where the reference fails ('ERR') a ProtocolError must be reported instead
        ok = True
        k = 0
        for e in exp:
            if e == 'ERR':
                if not perr or len(data_evs) != k:
                    ok = False
                break
            if k < len(data_evs):
                if data_evs[k] != e:
                    ok = False
                    break
                k += 1
            else:
                ok = bool(perr)         # refused instead of delivered: allowed by the property
                break
        else:
            if len(data_evs) > len(exp):
                ok = False
        if not ok:
            cls = {'bfinal': 'bfinal-context-takeover', 'corrupted': 'wrong-content-corrupted', 'window-violation': 'window-violation-delivered',
                   'window-edge': 'window-edge-refused'}[mode]
            if mode == 'corrupted' and meta.get('had_final'):
                cls = 'bfinal-context-takeover'

            fail(cls, 'a compressed message was delivered with content that differs from what its DEFLATE data means (and no ProtocolError)'
                 if mode == 'bfinal' else 'compressed message neither delivered with the reference content nor refused',
                 observed=[e[:120] for e in evs], expected=[e[:120] for e in exp])
    # --- client -> peer
    calls = sends_executed(js, trace)
    peer = DeflatePeer(sw, cw, bool(snt), bool(cnt))
    dframes = [f for f in r['frames'] if 'bad' in f or f['opcode'] in (0, 1, 2)]
    for f in r['frames']:
        if 'bad' in f:
            fail('client-frame-invalid', 'the client wrote bytes that are not a valid client frame: ' + f['bad'], observed=f['raw'][:200])
            return None
    oks = [(a, o) for a, o in calls if o == 'ok']
    if len(oks) != len(dframes):
        fail('frame-count', 'number of data frames written differs from the number of successful sends', observed=len(dframes), expected=len(oks))
        return None
    ctx = bytearray()
    hist_z, hist_plain = [], []
    for (act, _), f in zip(oks, dframes):
        kind, arg, flag = act
        if arg[0] == 'b':
            plain = bytes.fromhex(arg[1]) if isinstance(arg[1], str) else bytes(arg[1])
        else:
            plain = ''.join(chr(c) for c in arg[1]).encode('utf-8')
        want_rsv1 = 1 if (flag and meta['negotiated']) else 0
        payload = bytes.fromhex(f['payload'])
        res.count('client-frame:' + ('compressed' if f['rsv1'] else 'plain'))
        if f['opcode'] != (1 if kind == 'send_text' else 2) or f['fin'] != 1 or f['rsv2'] or f['rsv3']:
            fail('client-frame-header', 'data frame header wrong', observed=f, expected=kind)
            continue
        if f['rsv1'] and not want_rsv1:       # compression is permitted when negotiated and requested, never required
            fail('rsv1', 'RSV1=%d on a send with compress=%s, negotiated=%s' % (f['rsv1'], flag, meta['negotiated']), observed=f['rsv1'], expected=want_rsv1)
            continue
        if not f['rsv1']:
            if payload != plain:
                fail('uncompressed-content', 'uncompressed frame payload differs from the data sent', observed=payload[:60].hex(), expected=plain[:60].hex())
            continue
        try:
            got = peer.decompress(payload)
        except zlib.error as e:
            fail('peer-cannot-inflate', 'the RFC 7692 peer (window 2^%d) cannot inflate the client frame: %s' % (cw, e), observed=payload[:80].hex())
            break
        if got != plain:
            fail('peer-restores-different', 'the RFC 7692 peer restores different content', observed=got[:80].hex(), expected=plain[:80].hex())
        try:
            lg = refcodec.inflate_log(payload + TAIL, bytes(ctx[-32768:]))
            res.count('maxdist-measured')
            if lg['out'] != plain or lg['max_dist'] > max_dist(max(9, cw)) or lg['max_dist'] > (1 << cw):
                fail('assumption-zlib-maxdist', 'client frame: match distance %d beyond 2^w-262 (w=%d), or reference decoder disagrees' % (lg['max_dist'], max(9, cw)),
                     observed=lg['max_dist'], expected=max_dist(max(9, cw)))
            if lg['max_dist'] > 250:
                res.count('client-far-match')
        except refcodec.InflateError as e:
            fail('assumption-zlib-maxdist', 'reference decoder cannot read the client frame: %s' % e, observed=payload[:80].hex())
        if not cnt:
            ctx += plain
            del ctx[:-40000]
        hist_z.append(payload + TAIL)
        hist_plain.append(plain)
    # for the Lean inflater acting as the peer
    if not hist_z:
        return []
    if cnt:
        return [(cw, z, p) for z, p in zip(hist_z, hist_plain)]
    return [(cw, b''.join(hist_z), b''.join(hist_plain))]


def model_run_par(lines, batch=200, threads=8):
    """the model driver on many (large) lines: several driver processes side by side"""
    from concurrent.futures import ThreadPoolExecutor
    parts = [lines[i:i + batch] for i in range(0, len(lines), batch)]
    if len(parts) <= 1:
        return runner.model_run(lines)
    with ThreadPoolExecutor(max_workers=threads) as ex:
        outs = list(ex.map(runner.model_run, parts))
    return [o for part in outs for o in part]


def check_connections(res, rng, tier, model_ok):
    import gen_core
    configs = SPREAD_64 if tier == 'quick' else ALL_CONFIGS
    per_kind = 2 if tier == 'quick' else 10
    todo = []
    for cfg in configs:
        for kind in KINDS:
            n = per_kind if kind != 'large' else (1 if tier == 'quick' else 2)
            if kind == 'large' and tier == 'quick' and (cfg[0] + cfg[1]) % 4:
                kind = 'small'          # quick: the >window history for a quarter of the spread
            for _ in range(n):
                todo.append(build_scenario(rng, cfg, kind, tier))
    # not negotiated: the client must never set RSV1
    for _ in range(8 if tier == 'quick' else 60):
        todo.append(build_scenario(rng, (15, 15, 0, 0), 'small', tier, negotiated=False))
    todo += special_scenarios(rng, tier)
    res.exhaustive['deflate_configurations_run'] = len(set(tuple(m['cfg']) for _, m in todo))
    scs = [sc for sc, _ in todo]
    metas = [m for _, m in todo]
    js = [coreutil.scenario_to_json(s) for s in scs]
    lines = [world.scenario_line(s) for s in scs]
    for m, l in zip(metas, lines):
        m['line'] = l[:6000]
    reals = runner.parallel_map('props.c06', 'real_c06', list(zip(js, metas)), chunk=8)
    models = model_run_par(lines) if model_ok else [None] * len(lines)
    peer_lines = []
    for j, line, meta, r, m in zip(js, lines, metas, reals, models):
        if '__crash__' in r:
            res.crashes.append(r)
            continue
        res.case((tuple(meta['cfg']), meta['kind'], hash(line)), nontrivial=True)
        res.count('conn:' + meta['mode'] + (':' + meta['kind'] if meta['mode'] == 'conforming' else ''))
        res.count('conn:flags=%d%d' % (meta['cfg'][2], meta['cfg'][3]))
        res.traces_validated += 1
        if m is not None and r['trace'] != m:
            res.diffs.append(dict(input=line[:6000], real=r['trace'][-1500:], model=m[-1500:], scenario=j, cfg=meta['cfg'], kind=meta['kind']))
        for f in r['failures']:
            f['input'] = dict(j, line=f.get('input'))      # the replayable scenario (plus the model's op line)
            res.failures.append(f)
        for k, v in r['counts'].items():
            res.count(k, v)
        for cw, zh, ph in r['peer']:
            peer_lines.append(('inflate %d %s' % (cw, zh), 'ok ' + ph, meta['cfg']))
    # the Lean inflater as the independent peer of the frames the client wrote
    if model_ok and peer_lines:
        outs = model_run_par([l for l, _, _ in peer_lines])
        for (l, want, cfg), got in zip(peer_lines, outs):
            res.count('lean-peer-inflate')
            res.traces_validated += 1
            if got != want:
                res.failures.append(dict(cls='lean-peer-restores-different', what='the Lean RFC 1951 inflater (window 2^cw) does not restore what the client sent',
                                         input=l[:3000], observed=got[:200], expected=want[:200], cfg=cfg))
    # two connections with the SAME negotiated parameters alive at the same time in one process (two WebSocket objects, their
    # event loops advanced alternately): each must write and deliver exactly what it does alone - a compression context
    # belongs to one connection, whatever else is open
    by_cfg = {}
    for k, (meta, r) in enumerate(zip(metas, reals)):
        if meta['mode'] == 'conforming' and meta['negotiated'] and '__crash__' not in r and len(lines[k]) < 40000:
            by_cfg.setdefault(tuple(meta['cfg']), []).append(k)
    groups = [v for v in by_cfg.values() if len(v) >= 2]
    rng.shuffle(groups)
    duos, dmeta = [], []
    for g in groups[:(16 if tier == 'quick' else 200)]:
        i, j = rng.sample(g, 2)
        pattern = rng.choice([(0, 1), (0, 0, 1), (0, 1, 1), (0, 0, 0, 1, 1)])
        duos.append((js[i], js[j], list(pattern))); dmeta.append((i, j))
    for item, out, (i, j) in zip(duos, runner.parallel_map('coreutil', 'real_duo', duos, chunk=4), dmeta):
        if isinstance(out, dict):
            res.crashes.append(out); continue
        res.case(('duo', hash(lines[i]), hash(lines[j]), tuple(item[2])), nontrivial=True); res.count('conn:two-at-once-same-parameters')
        for which, idx in ((0, i), (1, j)):
            if out[which] != reals[idx]['trace']:
                a, b = out[which].split(' '), reals[idx]['trace'].split(' ')
                at = next((n for n, (x, y) in enumerate(zip(a, b)) if x != y), min(len(a), len(b)))
                res.failures.append(dict(cls='context-shared-between-connections',
                                         what='with a second connection with the same deflate parameters alive in the same process (event loops advanced alternately %s) '
                                              'this connection\'s trace (frames written as decoded by its own peer, events delivered) differs from what it does alone' % (item[2],),
                                         input=dict(duo=[item[0], item[1]], pattern=item[2], which=which), cfg=metas[idx]['cfg'],
                                         observed=' '.join(a[at:at + 3])[:400], expected=' '.join(b[at:at + 3])[:400]))
    if len(res.samples) < 8:
        res.samples += [lines[0][:400], lines[-1][:400]]
    return len(todo)


# ---------------------------------------------------------------------------------------------
# E. message SIZES: very large, highly compressible messages (a few tens of KiB on the wire) in ONE frame and in
#    fragments, in both directions, with ordinary messages before and after them (the context is carried across).
#    Oracle only for the sizes beyond BIG_MODEL_MAX (the model driver is not asked to inflate 16 MiB into a list);
#    the judge is the independent zlib peer of refcodec (plaintexts compared whole, reported as length + sha256).

BIG_ASCII_WORDS = [w for w in WORDS if all(b < 128 for b in w)]
BIG_EDGES = [1 << 16, 1 << 20, 1 << 24]
BIG_MODEL_MAX = (1 << 20) + 4096                # whole-connection plaintext up to which the Lean core model is also run (quick)
BIG_MODEL_MAX_THOROUGH = (1 << 20) + 4096   # larger messages made the interpreted model driver overflow its stack in a full thorough run: oracle-only beyond this size


def big_plain(seed, typ, size):
    """`size` bytes, highly compressible but not periodic: a unit of text / runs / mixed data repeated, with single bytes changed
       at ~1 per 8 KiB random places and a distinctive tail; deterministic in (seed, typ, size).  'text' is ASCII."""
    r = random.Random(seed * 1000003 + size * 31 + (1 if typ == 'text' else 2))
    ulen = r.choice([700, 1500, 4093, 9001])
    if typ == 'text':
        unit = bytearray()
        while len(unit) < ulen:
            unit += r.choice(BIG_ASCII_WORDS)
    else:
        unit = bytearray(gen_plain(r, r.choice(['runs', 'mixed', 'text']), ulen))
    data = bytearray((bytes(unit) * (size // len(unit) + 1))[:size])
    for _ in range(min(4096, size // 8192 + (3 if size else 0))):
        data[r.randrange(size)] = ALNUM[r.randrange(64)] if typ == 'text' else r.randrange(256)
    tail = b'<end %d %d>' % (size, seed)
    if size >= len(tail):
        data[size - len(tail):] = tail
    return bytes(data)


def big_sizes(rng, tier):
    """inflated sizes of one message: the 2^16 / 2^20 / 2^24 boundaries -1/0/+1 and a little around, 20 MiB, some in between"""
    out = [e + d for e in BIG_EDGES for d in (-1, 0, 1)]
    out += [e + rng.choice([-1, 1]) * rng.randint(2, 300) for e in BIG_EDGES]
    out += [20 << 20, (17 << 20) + rng.randint(1, 99999), rng.randint(1 << 20, 1 << 24)]
    if tier != 'quick':
        out += [(1 << 24) + rng.randint(2, 70000), 2 * (1 << 24), 2 * (1 << 24) + 1, (1 << 25) + rng.randint(2, 5000), 40 << 20,
                (1 << 22), (1 << 23) + 1, rng.randint(1 << 16, 1 << 20)]
    return out


def big_specs(rng, tier):
    """one connection per spec: rx = what the peer sends [typ, size, pieces, compressed], tx = what the application sends
       [typ, size, compress flag, after which event]"""
    sizes = big_sizes(rng, tier)
    rng.shuffle(sizes)
    specs = []
    cfgs = rng.sample(ALL_CONFIGS, 6 if tier == 'quick' else 40) + [(15, 15, 0, 0), (12, 15, 1, 0)]
    rng.shuffle(cfgs)
    per = 3 if tier == 'quick' else 2
    k = 0
    for cfg in cfgs:
        mine = [sizes[(k + i) % len(sizes)] for i in range(per)]
        k += per
        rx, tx = [['text', rng.choice([5, 60, 400]), 1, 1]], []
        for n in mine:
            typ = 'text' if (tier != 'quick' and rng.random() < 0.15) else 'binary'
            r_ = rng.random()
            pieces = 1 if r_ < 0.7 else rng.choice([2, 3, 7])          # ONE frame mostly; also big messages in a few fragments
            if rng.random() < 0.7:
                rx.append([typ, n, pieces, 1])
                rx.append([rng.choice(['text', 'binary']), rng.choice([0, 1, 30, 700]), 1, 1])      # the context after a big message
            else:
                tx.append([typ, n, 1, rng.randint(2, 2 + len(rx))])
                tx.append(['binary', rng.choice([0, 1, 30, 700]), 1, rng.randint(2, 2 + len(rx))])
        if rng.random() < 0.3:
            rx.insert(rng.randrange(len(rx) + 1), ['binary', rng.choice([65535, 65536, 70000]), 1, 0])     # an uncompressed one among them
        if rng.random() < 0.3:
            tx.append(['binary', rng.choice([65535, 65536, 65537]), 0, 2])                                  # compress=False on a send
        specs.append(dict(big=1, cfg=list(cfg), seed=rng.randrange(1 << 30), rx=rx, tx=sorted(tx, key=lambda t: t[3])))
    # small enough for the Lean core model as well (it inflates into a list: ~1 s per MiB): one big message per connection, one frame,
    # at the 2^16 and 2^20 boundaries (thorough: 2^24 too), each direction
    if tier == 'quick':
        edges = [((1 << 16) + d, rng.random() < 0.5) for d in (-1, 0, 1)] + [((1 << 20) + rng.choice([-1, 0, 1]), True), ((1 << 20) + rng.choice([-1, 0, 1]), False)]
    else:
        edges = [((1 << 16) + d, rng.random() < 0.5) for d in (-2, -1, 0, 1, 2, 3)] + [((1 << 20) + d, way) for d in (-1, 0, 1) for way in (True, False)]
        edges += [((1 << 24) + d, way) for d in (0, 1) for way in (True, False)]
    for n, inbound in edges:
        cfg = rng.choice(ALL_CONFIGS)
        if inbound:
            rx, tx = [['binary', n, 1, 1], ['text', 20, 1, 1]], [['binary', 10, 1, 2]]
        else:
            rx, tx = [['text', 20, 1, 1]], [['binary', n, 1, 2], ['binary', 10, 1, 3]]
        specs.append(dict(big=1, cfg=list(cfg), seed=rng.randrange(1 << 30), rx=rx, tx=tx))
    limit = BIG_MODEL_MAX if tier == 'quick' else BIG_MODEL_MAX_THOROUGH
    for sp in specs:
        sp['model'] = 1 if sum(t[1] for t in sp['rx']) + sum(t[1] for t in sp['tx']) <= limit else 0
    return specs


def big_scenario(spec):
    """spec -> (Scenario, expected data events, plaintexts of the sends in call order); no randomness but spec['seed']"""
    sw, cw, snt, cnt = spec['cfg']
    rng = random.Random(spec['seed'])
    sc = Scenario([], prate=0, compress=True)
    peer = DeflatePeer(sw, cw, bool(snt), bool(cnt))
    frames, expected = [], []
    for i, (typ, size, pieces, compressed) in enumerate(spec['rx']):
        p = big_plain(spec['seed'] + i, typ, size)
        wire = peer.compress(p) if compressed else p
        parts = cut(wire, coreutil.random_cuts(rng, len(wire), pieces - 1)) or [wire]
        for j, part in enumerate(parts):
            frames.append(server_frame((1 if typ == 'text' else 2) if j == 0 else 0, part, fin=1 if j == len(parts) - 1 else 0,
                                       rsv1=1 if (j == 0 and compressed) else 0))
        expected.append('E:%s:%s' % (typ, p.hex()))
    ext = 'permessage-deflate; server_max_window_bits=%d; client_max_window_bits=%d%s%s' % (
        sw, cw, '; server_no_context_takeover' if snt else '', '; client_no_context_takeover' if cnt else '')
    data = sc.good_reply(('Sec-WebSocket-Extensions: %s\r\n' % ext).encode()) + b''.join(frames)
    sc.env = reads(coreutil.limit_chunks(cut(data, coreutil.random_cuts(rng, len(data), rng.choice([0, 1, 3]))))) + [('wait', 1, ('eof',))]
    rx, plains = {}, []
    for i, (typ, size, flag, at) in enumerate(spec['tx']):
        p = big_plain(spec['seed'] + 1000 + i, typ, size)
        plains.append(p)
        if typ == 'text':
            rx.setdefault(at, []).append(('send_text', ('s', [c for c in p]), bool(flag)))        # ASCII: code points = bytes
        else:
            rx.setdefault(at, []).append(('send_binary', ('b', p), bool(flag)))
    sc.reactions = rx
    return sc, expected, plains


def _digest(tok):
    """a trace token with a huge hex body -> 'E:binary:<n bytes>:<sha256/16>'"""
    import hashlib
    head, _, body = tok.rpartition(':')
    if len(body) <= 80 or head.startswith('E:protocol_error'):
        return tok[:200]
    try:
        raw = bytes.fromhex(body)
    except ValueError:
        return tok[:200]
    return '%s:<%d bytes sha256 %s first %s last %s>' % (head, len(raw), hashlib.sha256(raw).hexdigest()[:16], raw[:8].hex(), raw[-8:].hex())


def _big_bucket(n):
    return '>2^24' if n > (1 << 24) else '=2^24' if n == (1 << 24) else '2^20+1..2^24-1' if n > (1 << 20) else '2^16-1..2^20'


def real_big(spec):
    """worker: one big-message connection on the real code, judged here (the traces are hundreds of MB of hex: only the verdict,
       digests and - for the small ones - the trace travel back)"""
    sc, expected, plains = big_scenario(spec)
    sw, cw, snt, cnt = spec['cfg']
    worlds = []
    trace = world.run_chain([sc], worlds)[0]
    w = worlds[0]
    failures = []
    fail = lambda cls, what, **kw: failures.append(dict(cls=cls, what=what, input=spec, cfg=spec['cfg'], **kw))
    neg = w.deflate_cfg
    neg = None if neg is None else [neg.decompress_wbits, neg.compress_wbits, 1 if neg.reset_decompress else 0, 1 if neg.reset_compress else 0]
    if neg != [sw, cw, snt, cnt]:
        fail('negotiation', 'negotiated parameters differ from the response header', observed=neg, expected=[sw, cw, snt, cnt])
    evs = [e for e in events(trace) if e.startswith(('E:text', 'E:binary', 'E:protocol_error'))]
    data_evs = [e for e in evs if not e.startswith('E:protocol_error')]
    perr = [e for e in evs if e.startswith('E:protocol_error')]
    # --- peer -> client: original content, in order, nothing refused (the peer conforms)
    if perr or data_evs != expected or 'ESCAPED' in trace:
        bad = next((i for i, (a, b) in enumerate(zip(data_evs, expected)) if a != b), min(len(data_evs), len(expected)))
        fail('wrong-content-big' if bad < len(data_evs) else 'conforming-peer-refused-big',     # a data event that differs = wrong content delivered, whatever follows
             'message %d of a conforming peer (%s, %d bytes, %d frame(s), %s) not delivered with its original content' % (
                 (bad,) + tuple(spec['rx'][bad][:3]) + ('compressed' if spec['rx'][bad][3] else 'uncompressed',)) if bad < len(spec['rx'])
             else 'more messages delivered than the peer sent',
             observed=[_digest(e) for e in evs[max(0, bad - 1):bad + 2]] + [t for t in trace.split(' ') if t.startswith('ESCAPED')],
             expected=[_digest(e) for e in expected[max(0, bad - 1):bad + 2]])
    # --- client -> peer: the independent zlib peer with window 2^cw over the whole history
    calls = [c for c in w.calls if c[1] in ('send_text', 'send_binary')]
    frames = []
    for x in w.raw[1:]:
        try:
            frames += refcodec.decode_client_frames(bytes(x))
        except refcodec.ClientFrameError as e:
            fail('client-frame-invalid', 'the client wrote bytes that are not a valid client frame: %s' % e, observed=bytes(x)[:100].hex())
    dframes = [f for f in frames if f['opcode'] in (0, 1, 2)]
    done = [(t, p) for t, p, c in zip(spec['tx'], plains, calls) if c[2] == 'ok']
    peer = DeflatePeer(sw, cw, bool(snt), bool(cnt))
    if len(done) != len(dframes):
        fail('frame-count', 'number of data frames written differs from the number of successful sends', observed=len(dframes), expected=len(done))
    else:
        for (t, plain), f in zip(done, dframes):
            typ, size, flag, _at = t
            payload = f['payload']
            if f['opcode'] != (1 if typ == 'text' else 2) or f['fin'] != 1 or f['rsv2'] or f['rsv3']:
                fail('client-frame-header', 'data frame header wrong', observed={k: v for k, v in f.items() if k != 'payload'}, expected=typ)
                continue
            if f['rsv1'] and not flag:
                fail('rsv1', 'RSV1=1 on a send of %d bytes with compress=False' % size, observed=1, expected=0)
                continue
            if not f['rsv1']:
                if payload != plain:
                    fail('uncompressed-content', 'uncompressed frame payload differs from the %d bytes sent' % size, observed=_digest('W:' + payload.hex()), expected=_digest('W:' + plain.hex()))
                continue
            try:
                got = peer.decompress(payload)
            except zlib.error as e:
                fail('peer-cannot-inflate', 'the RFC 7692 peer (window 2^%d) cannot inflate the client frame of a %d byte message: %s' % (cw, size, e), observed=payload[:80].hex())
                break
            if got != plain:
                fail('peer-restores-different-big', 'the RFC 7692 peer restores different content from the frame of a %d byte message' % size,
                     observed=_digest('Z:' + got.hex()), expected=_digest('Z:' + plain.hex()))
    return dict(failures=failures, trace=trace if spec.get('model') else None, sent=len(done), frames=len(dframes),
                results=[c[2] for c in calls])


def check_big(res, rng, tier, model_ok):
    import time
    specs = big_specs(rng, tier)
    t0 = time.time()
    cap = 60 if tier == 'quick' else 900          # time cap: specs not started by then are counted as skipped, never silently
    reals = []
    batch = 16
    for i in range(0, len(specs), batch):
        if time.time() - t0 > cap:
            res.count('big:skipped-time-cap', len(specs) - i)
            res.notes.append('big-message family: %d connections not run (time cap %ds)' % (len(specs) - i, cap))
            break
        reals += runner.parallel_map('props.c06', 'real_big', specs[i:i + batch], chunk=1, workers=batch)
    mlines, midx = [], []
    for k, (spec, r) in enumerate(zip(specs, reals)):
        if '__crash__' in r:
            res.crashes.append(r)
            continue
        res.case(('big', tuple(spec['cfg']), spec['seed'], repr(spec['rx']), repr(spec['tx'])), nontrivial=True)
        res.traces_validated += 1
        res.count('big:connection' + ('(oracle-only)' if r['trace'] is None else '(oracle+model)'))
        for typ, n, pieces, z in spec['rx']:
            if n >= 65535:
                res.count('big:rx-%s-%s-%s' % (_big_bucket(n),
                                                'one-frame' if pieces == 1 else 'fragmented', 'compressed' if z else 'plain'))
                if typ == 'text':
                    res.count('big:rx-text')
        for typ, n, flag, _ in spec['tx']:
            if n >= 65535:
                res.count('big:tx-%s-%s' % (_big_bucket(n),
                                            'compress' if flag else 'compress=False'))
        res.failures += r['failures']
        if r['trace'] is not None and model_ok:
            mlines.append(world.scenario_line(big_scenario(spec)[0])); midx.append(k)
    if mlines:
        for k, line, m in zip(midx, mlines, model_run_par(mlines, batch=1, threads=4)):
            if m != reals[k]['trace']:
                res.diffs.append(dict(input=line[:6000], real=reals[k]['trace'][-1500:], model=m[-1500:], scenario=specs[k], cfg=specs[k]['cfg'], kind='big'))
    return len(specs)


def explore(res, tier, seed, model_ok=True):
    import gencheck   # differential test of the translated code (Generated/Code.lean) against the original Python
    gencheck.run(res, 'C06', tier, seed, model_ok)
    rng = random.Random(seed)
    res.rule = ('A: zlib streams (levels 0/1/6/9 x 5 strategies x windows 9..15 x sync/full/partial/block flush sequences), hand-encoded stored/fixed/dynamic blocks incl. '
                'odd code sets, every truncation, corruptions, BFINAL + trailing data, distances at the window edge: Lean inflater vs zlib. '
                'A\'\': random histories of messages of stored / fixed / dynamic (complete code lengths from the token frequencies, also flat and up to 15 bits, also invalid lengths) blocks - the dynamic headers written plainly, run-length coded by the encoder itself (rle), or as items (repeat codes 16/17/18: greedy and random legal segmentations; runs of exactly 3/6/7/10/11/138/139; runs across the HLIT/HDIST boundary; code-length code from the item frequencies; HCLEN minimal or longer; refused headers) - of LZ77 tokens (all literals, all lengths 3..258, every distance-code boundary up to 32768, '
                'overlapping matches, window edges, BFINAL anywhere, distances too far back) through the Lean reference ENCODER (deflenc): its output vs an independent bit writer and vs REAL zlib inflate = the LZ77 expansion. '
                'B: every value spelling x both keys x separators, all 256 parameter combinations: real parser vs model vs RFC 7692. '
                'C/D: %s configurations x {long-range repeats at distances around 250/256/506/512/2^w-262/2^w/32768, incompressible, small+empty+repeated, > window} '
                'histories in BOTH directions on one connection, compressed messages fragmented at random with control frames between fragments, uncompressed '
                'messages mixed in, random read cuts; plus not-negotiated connections, invalid parameters in the handshake (Rejected), BFINAL blocks '
                '(RFC 7692 7.2.3.4, with and without context takeover), corrupted payloads and a peer that ignores the negotiated window; '
                'pairs of such connections with the SAME parameters alive at once in one process (each must behave as it does alone). '
                'E (big:*): message SIZES - highly compressible messages inflating to 2^16 / 2^20 / 2^24 -1/0/+1 and nearby, 17-20 MiB (thorough: up to 40 MiB, also Text) '
                'in ONE frame (70%%) or a few fragments, peer->client and client->peer, random configurations, ordinary messages before and after each (context carried on), '
                'an uncompressed 64 KiB message / a compress=False send among them; judged by the zlib peer on the whole plaintext; ORACLE-ONLY (big:connection(oracle-only)) above 2^20 (thorough: 2^24) bytes of plaintext per connection, '
                'single-message connections at the 2^16 / 2^20 (thorough: 2^24) boundaries are also run on the Lean core model; under a time cap (skipped connections are counted). '
                'non-trivial = a compressed message takes part; distinct by (configuration, history, wire bytes)') % ('64 (spread)' if tier == 'quick' else 'all 256')
    check_inflater(res, rng, tier, model_ok)
    check_encoder(res, random.Random(seed * 7919 + 17), tier, model_ok)
    check_deflate_unit(res, rng, tier)
    check_params(res, rng, tier, model_ok)
    check_connections(res, rng, tier, model_ok)
    check_big(res, random.Random(seed * 104729 + 5), tier, model_ok)


def replay(rp):
    """re-run the recorded input on the real code only and print what happens"""
    inp = rp.get('input')
    if isinstance(inp, dict) and 'duo' in inp:
        for t in coreutil.real_duo((inp['duo'][0], inp['duo'][1], inp['pattern'])):
            print(t[:4000])
        print('class:', rp.get('cls'), '| which:', inp.get('which'), '| expected:', rp.get('expected'), '| observed when recorded:', rp.get('observed'))
        return 0
    if isinstance(inp, dict) and inp.get('big'):
        # a big-message connection: rebuilt from its small spec (cfg, seed, sizes), run and judged again
        sc, expected, _plains = big_scenario(inp)
        print('spec:', inp)
        print('expected:', [_digest(e) for e in expected])
        print('observed:', [_digest(t) for t in world.run_real(sc).split(' ')])
        for f in real_big(inp)['failures']:
            print('FAIL', {k: v for k, v in f.items() if k != 'input'})
        print('class:', rp.get('cls'), '| expected:', rp.get('expected'), '| observed when recorded:', rp.get('observed'))
        return 0
    sc_json = inp if isinstance(inp, dict) else rp.get('scenario')
    if isinstance(sc_json, dict) and 'env' in sc_json:
        sc = coreutil.scenario_from_json(sc_json)
        trace = world.run_real(sc)
        print(trace[:4000])
        print('events:', [e[:100] for e in events(trace)])
        print('class:', rp.get('cls'), '| expected:', rp.get('expected'), '| observed when recorded:', rp.get('observed'))
        return 0
    if isinstance(inp, str) and inp.startswith('inflate '):
        _, w, hx = inp.split(' ')
        print('zlib:', zlib_feed(int(w), [bytes.fromhex(hx)]))
        return 0
    if isinstance(inp, str):
        print('parse_extension + Deflate.from_options(%r): %s' % (inp, real_parse_exts([inp])[0]))
        print('class:', rp.get('cls'), '| expected:', rp.get('expected'))
        return 0
    print('replay file names a broken obligation, no concrete input: %s' % rp.get('broken'))
    return 0


if __name__ == '__main__':
    import sys
    r = runner.Result()
    tier = sys.argv[1] if len(sys.argv) > 1 else 'quick'
    explore(r, tier, int(sys.argv[2]) if len(sys.argv) > 2 else 0)
    print(r.evaluations, 'diffs', len(r.diffs), 'failures', len(r.failures), r.notes, 'crashes', len(r.crashes))
    for d in r.diffs[:5]:
        print('DIFF', {k: (v[:400] if isinstance(v, str) else v) for k, v in d.items() if k != 'scenario'})
    seen = set()
    for f in r.failures:
        if f['cls'] not in seen:
            seen.add(f['cls'])
            print('FAIL', {k: (v[:300] if isinstance(v, str) else v) for k, v in f.items() if k != 'scenario'})
    for c in r.crashes[:3]:
        print('CRASH', c)
    print(r.distribution)
