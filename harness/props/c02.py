"""C02 - the event stream does not depend on TCP segmentation."""
from __future__ import annotations
import json
import itertools, random
import runner, coreutil, gen_core
from coreutil import Scenario, events, reads, cut, limit_chunks, segmentations

TRUSTED = ['correspondence: harness/world.py', 'metamorphic oracle (real code vs itself under different segmentations) is model-free']
ASSUMPTIONS = ['the clock is frozen between the reads of one stream (time-dependent behaviour belongs to C15)', 'poll > 0']


def gen_stream(rng, sc):
    """valid or invalid stream after the handshake, plus the handshake variant"""
    frames = []
    deflate = rng.random() < 0.3
    peer = None
    if deflate:
        from refcodec import DeflatePeer
        peer = DeflatePeer(server_bits=rng.choice([15, 10, 8]), server_no_takeover=rng.random() < 0.3)
    for _ in range(rng.randint(1, 5)):
        frames += gen_core.serialise_item(rng, gen_core.gen_item(rng, gen_core.SMALL_SIZES, peer))
    r = rng.random()
    if r < 0.35:
        cls = rng.choice(gen_core.VIOLATIONS)
        if gen_core.applicable(cls, False, False):
            frames.append(gen_core.gen_violation(rng, cls, False))
            frames += gen_core.serialise_item(rng, gen_core.gen_item(rng))
    elif r < 0.6:
        frames += gen_core.serialise_item(rng, gen_core.gen_close(rng))
        frames += gen_core.serialise_item(rng, gen_core.gen_item(rng))
    hr = rng.random()
    if deflate:
        hs = sc.good_reply(b'Sec-WebSocket-Extensions: permessage-deflate; server_max_window_bits=%d%s\r\n' % (peer.sw, b'; server_no_context_takeover' if peer.snt else b''))
    elif hr < 0.8:
        hs = sc.good_reply(rng.choice([b'', b'Sec-WebSocket-Protocol: chat\r\n', b'X-Folded: a\r\n  b\r\n']))
    elif hr < 0.9:
        hs = b'HTTP/1.1 404 Not Found\r\nContent-Length: 0\r\n\r\n'
    else:
        hs = b'HTTP/1.1 101 Switching Protocols\r\nUpgrade: websocket\r\nSec-WebSocket-Accept: nope\r\n\r\n'
    return hs + b''.join(frames)


def explore(res, tier, seed, model_ok=True):
    rng = random.Random(seed)
    n = 120 if tier == 'quick' else 1500
    maxn = 11 if tier == 'quick' else 14
    res.rule = ('server byte streams (valid, protocol violations, close, rejected handshakes) with application reactions; each stream run as: one read, one byte per read, and random cut sets, '
                'UTF-8 boundary streams (text fragmented inside characters, invalid continuations after ASCII, pings between fragments) under every single cut; plus ALL 2^(n-1) cut sets of the post-handshake part for short streams (n <= %d); traces (events + bytes written) compared real-vs-real and real-vs-model; '
                'the events VERBATIM (error texts as the application reads them) of oversize / unterminated header blocks and of violations compared across cut sets; non-trivial = segmentation with a cut inside a frame; distinct by (stream, cut set)') % maxn
    scs, groups = [], []
    for i in range(n):
        base = Scenario([], prate=0)
        data = gen_stream(rng, base)
        rx = gen_core.gen_reactions(rng, 12, density=0.25, allow_bad=False) if rng.random() < 0.5 else {}
        segs = segmentations(rng, data, ('whole', 'bytes', 'rand', 'rand'))
        idxs = []
        for name, chunks in segs:
            sc = Scenario(reads(chunks) + [('wait', 1, ('eof',))], rx, prate=0)
            idxs.append(len(scs)); scs.append(sc)
        groups.append((data, idxs))
        res.count('streams')
    # handshake response in the same read as a lot of frame data (buffer-length boundaries of the header reader)
    for size in ([16000, 16300, 16384, 16500, 20000, 65536, 70000] if tier == 'quick' else [15000, 16000, 16200, 16300, 16383, 16384, 16385, 16500, 20000, 40000, 65535, 65536, 65537, 70000, 140000]):
        base = Scenario([], prate=0)
        hs = base.good_reply()
        body = b''.join(gen_core.serialise_item(rng, gen_core.Item('binary', gen_core.rand_bytes(rng, size)))) + gen_core.server_frame(1, b'tail')
        data = hs + body
        idxs = []
        for chunks in ([data], [hs, body], [hs[:20], hs[20:] + body[:100], body[100:]], [data[:16384], data[16384:]], [data[:16385], data[16385:]]):
            idxs.append(len(scs)); scs.append(Scenario(reads(limit_chunks(chunks)) + [('wait', 1, ('eof',))], {}, prate=0))
        groups.append((data, idxs))
        res.count('big_first_read')
    # UTF-8 boundary stress: text messages, valid and invalid, fragmented at arbitrary BYTE positions (inside characters), control
    # frames between the fragments; invalid ones have ASCII bytes pushed in between a lead byte and its continuation, the
    # fragment boundary right after the lead byte.  Every single cut of the body, plus whole and bytewise delivery.
    nutf = 0
    for i in range(8 if tier == 'quick' else 60):
        base = Scenario([], prate=0)
        hs = base.good_reply()
        txt = ''.join(rng.choice(['a', 'b', 'é', '€', '𐍈', 'ß', 'z']) for _ in range(rng.randint(3, 7))).encode('utf-8')
        leads = [k for k, b in enumerate(txt) if b >= 0xc0]
        invalid = rng.random() < 0.6 and leads
        if invalid:
            k = rng.choice(leads)
            txt = txt[:k + 1] + bytes(rng.choice(b'abcxyz') for _ in range(rng.randint(1, 3))) + txt[k + 1:]
            cutpos = [k + 1]
        else:
            cutpos = []
        cutpos = sorted(set(cutpos + rng.sample(range(1, len(txt)), min(len(txt) - 1, rng.randint(0, 2)))))
        parts = cut(txt, cutpos)
        frames = []
        for j, part in enumerate(parts):
            frames.append(gen_core.server_frame(1 if j == 0 else 0, part, fin=1 if j == len(parts) - 1 else 0))
            if j < len(parts) - 1 and rng.random() < 0.6:
                frames.append(gen_core.server_frame(9, b'pi'))
        body = b''.join(frames) + gen_core.server_frame(2, b'end')
        idxs = []
        for chunks in [[hs + body], [hs] + [body[k:k + 1] for k in range(len(body))]] + [[hs + body[:c], body[c:]] for c in range(1, len(body))]:
            idxs.append(len(scs)); scs.append(Scenario(reads(chunks) + [('wait', 1, ('eof',))], {}, prate=0))
        groups.append((hs + body, idxs))
        nutf += len(idxs)
        res.count('utf8_boundary_streams_invalid' if invalid else 'utf8_boundary_streams_valid')
    res.exhaustive['single_cuts_of_utf8_boundary_streams'] = nutf
    # a message of more than 1 MiB followed by a 70000-byte one: read frame by frame, in plain 64 KiB reads, and in 64 KiB reads shifted by a few bytes
    if True:
        base = Scenario([], prate=0)
        hs = base.good_reply()
        f1 = gen_core.server_frame(2, gen_core.rand_bytes(rng, (1 << 20) + rng.choice([0, 1, 999])))
        f2 = gen_core.server_frame(1, gen_core.rand_text(rng, 70000))
        f3 = gen_core.server_frame(9, b'end')
        data = hs + f1 + f2 + f3
        idxs = []
        for chunks in ([hs, f1, f2, f3], [data], [data[:7]] + [data[7:]], [hs + f1[:-3], f1[-3:] + f2[:5], f2[5:] + f3], [hs + f1 + f2[:1], f2[1:] + f3]):
            idxs.append(len(scs)); scs.append(Scenario(reads(limit_chunks(chunks)) + [('wait', 1, ('eof',))], {}, prate=0))
        groups.append((data, idxs))
        res.count('message_over_1MiB')
    # exhaustive cut sets for short post-handshake streams
    exh = 0
    for i in range(6 if tier == 'quick' else 12):
        base = Scenario([], prate=0)
        hs = base.good_reply()
        body = b''
        while len(body) < 4:
            body = b''.join(gen_core.serialise_item(rng, gen_core.gen_item(rng, [0, 1, 2, 3])))
        if rng.random() < 0.4:
            body = body[:6] + gen_core.gen_violation(rng, rng.choice(['reserved-opcode', 'bad-utf8-text', 'close-len-1']), False)
        body = body[:maxn]
        idxs = []
        for mask in range(1 << (len(body) - 1)):
            cuts = [k + 1 for k in range(len(body) - 1) if mask >> k & 1]
            chunks = [hs + c if j == 0 else c for j, c in enumerate(cut(body, cuts))]
            if rng.random() < 0.5:
                chunks = [hs] + cut(body, cuts)
            idxs.append(len(scs)); scs.append(Scenario(reads(chunks) + [('wait', 1, ('eof',))], {}, prate=0))
            exh += 1
        groups.append((hs + body, idxs))
    # the same with permessage-deflate negotiated: ALL cut sets of a compressed message followed by a ping
    base = Scenario([], prate=0)
    hz = base.good_reply(b'Sec-WebSocket-Extensions: permessage-deflate\r\n')
    zbody = (gen_core.server_frame(1, bytes.fromhex('f248cdc9c90700'), rsv1=1) + gen_core.server_frame(9, b''))[:maxn]
    idxs = []
    for mask in range(1 << (len(zbody) - 1)):
        cuts = [k + 1 for k in range(len(zbody) - 1) if mask >> k & 1]
        idxs.append(len(scs)); scs.append(Scenario(reads([hz] + cut(zbody, cuts)) + [('wait', 1, ('eof',))], {}, prate=0, compress=True))
        exh += 1
    groups.append((hz + zbody, idxs))
    # every single cut and every pair of adjacent cuts INSIDE the HTTP reply (status line, header names, the CRLFCRLF), frames following
    for hs_, cmp_ in ((base.good_reply(b'Sec-WebSocket-Protocol: chat\r\n'), False), (hz, True)):
        tail = gen_core.server_frame(1, 'caf\u00e9'.encode('utf-8')) + gen_core.server_frame(2, b'\x00\x01')
        data = hs_ + tail
        idxs = []
        for c in range(1, len(hs_) + 3):
            idxs.append(len(scs)); scs.append(Scenario(reads([data[:c], data[c:]]) + [('wait', 1, ('eof',))], {}, prate=0, compress=cmp_))
            idxs.append(len(scs)); scs.append(Scenario(reads([data[:c], data[c:c + 1], data[c + 1:]]) + [('wait', 1, ('eof',))], {}, prate=0, compress=cmp_))
        groups.append((data, idxs))
        res.count('cuts_inside_http_reply', len(idxs))
    res.exhaustive['cut_sets_of_short_streams'] = exh
    # the events VERBATIM (nothing canonicalised: error texts as the application reads them) must not depend on segmentation either:
    # header material that never ends / ends beyond the 16 KiB limit, oversize control frames, bad UTF-8 - each under many cut sets
    raw_groups = []
    hs_ok = Scenario([], prate=0).good_reply()
    streams = [b'HTTP/1.1 101 Switching Protocols\r\n' + b'X-Filler: ' + b'f' * 20000 + b'\r\n\r\n',
               b'HTTP/1.1 101 Switching Protocols\r\n' + b''.join(b'X-H%d: %s\r\n' % (i, b'v' * 90) for i in range(200)) + b'\r\n',
               b'HTTP/1.1 101 Switching Protocols\r\n' + b'X-Filler: ' + b'f' * 16360 + b'\r\n\r\n' + b'\x81\x02hi',
               hs_ok + gen_core.server_frame(1, b'caf\xc3') + gen_core.server_frame(1, b'later'),
               hs_ok + gen_core.server_frame(9, b'p' * 126) + gen_core.server_frame(1, b'later'),
               hs_ok + gen_core.server_frame(1, b'ok') + gen_core.server_frame(8, b'\x03\xe8\xff\xfe') + gen_core.server_frame(1, b'later')]
    for data in streams:
        cutsets = [[], [16384], [16385], [16383], [16500], [1000 * k for k in range(1, 1 + len(data) // 1000)], [4096 * k for k in range(1, 1 + len(data) // 4096)],
                   [len(data) - 1], [len(data) - 3], [20], [20, 16384], [17, 16390, 16400]]
        for _ in range(4 if tier == 'quick' else 30):
            cutsets.append(coreutil.random_cuts(rng, len(data), rng.choice([1, 2, 5, 12])))
        raw_groups.append([coreutil.scenario_to_json(Scenario(reads(limit_chunks(cut(data, cs))) + [('wait', 1, ('eof',))], {}, prate=0)) for cs in cutsets])
    raw_items = [j for g in raw_groups for j in g]
    raw_outs = runner.parallel_map('coreutil', 'real_one_raw', raw_items, chunk=10)
    pos = 0
    for g in raw_groups:
        outs = raw_outs[pos:pos + len(g)]; pos += len(g)
        for o in outs:
            if not (isinstance(o, dict) and 'raw' in o):
                res.crashes.append(o if isinstance(o, dict) else dict(what=str(o)))
        outs = [o for o in outs if isinstance(o, dict) and 'raw' in o]
        if not outs:
            continue
        res.count('verbatim_event_groups'); res.count('verbatim_event_runs', len(outs))
        for js, o in zip(g, outs):
            res.case(('raw', json.dumps(js, sort_keys=True)[-200:]), nontrivial=True)
        for js, o in zip(g[1:], outs[1:]):
            if o['raw'] != outs[0]['raw']:
                k = next((i for i, (a, b) in enumerate(zip(o['raw'], outs[0]['raw'])) if a != b), min(len(o['raw']), len(outs[0]['raw'])))
                res.failures.append(dict(cls='segmentation', what='the events as the application sees them (texts verbatim) differ between two segmentations of one stream, at event %d' % k,
                                         input=dict(raw=js), observed=o['raw'][k:k + 1], expected=outs[0]['raw'][k:k + 1]))
                break
    pairs = coreutil.run_pairs(scs, model_ok)
    for js, line, real, model in pairs:
        if not isinstance(real, dict):
            res.case(line, nontrivial=True)
    coreutil.check_corr(res, pairs)
    for data, idxs in groups:
        traces = [pairs[i][2] for i in idxs if not isinstance(pairs[i][2], dict)]
        if len(set(traces)) > 1:
            a = traces[0]
            j = next(i for i in idxs if pairs[i][2] != a)
            res.failures.append(dict(cls='segmentation', what='two segmentations of one stream give different traces',
                                     input=pairs[j][1][:3000], scenario=pairs[j][0], observed=pairs[j][2][-600:], expected=a[-600:]))
    res.samples += [pairs[0][1][:300], pairs[1][1][:300]]


def replay(rp):
    if isinstance(rp.get('input'), dict) and 'raw' in rp['input']:
        o = coreutil.real_one_raw(rp['input']['raw'])
        print(o['trace'][-1500:]); print('\n'.join(o['raw'][-6:]))
        return 0
    return coreutil.replay_core(rp)
