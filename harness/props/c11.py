"""C11 - concurrent senders never corrupt the wire."""
from __future__ import annotations
import random
import runner, thrutil, sched

TRUSTED = ['correspondence: harness/sched.py (deterministic scheduler; stand-ins for state.closing/closed, session._sock, '
           'session._lock, the zlib object and the socket; sync points validated against the AST of lomond/*.py)',
           'oracle: harness/refcodec.py (RFC 6455 client-frame decoder, zlib RFC 7692 peer) + rules in harness/thrutil.py written from the property text',
           'the claim that the recorded accesses are the only shared-state accesses of the send paths (every observed access is checked '
           'against the AST-derived map; an access from an unknown line is reported)']
ASSUMPTIONS = ['the model variant (compress under the write lock or not; close() atomic or not) is chosen from single-threaded probe runs of the real code '
               '(thrutil.detect_variant: are the zlib accesses / the flag stores logged between acq and rel?), not from the source shape; '
               'a wrong choice can only produce model/real disagreements',
               'preemption is explored at source-line granularity (sys.settrace) plus the point between the two halves of sendall; '
               "the GIL's real switch points inside a line, C-level atomicity of zlib calls and sendall, and memory visibility are outside the model",
               'the simulated socket writes each sendall in n chunks (n = 2 by default; families with n = 1, 3, 4 and a different n per call) '
               'and fails only where the case says so (`fail`: after k chunks of a given call); the model is then `Model/ThreadsN.lean` with the same socket',
               'arguments are valid (argument checking is thread-local: C03)',
               'the model-guided exhaustive enumeration glues the loop thread\'s reads of its own `closed` / `_sock` to its preceding step '
               '(they commute with everything); the sampled line-level schedules do not']

LEANCHECK_MODULES = ['Lomond.Model.Threads', 'Lomond.Model.ThreadsN', 'Lomond.Proofs.Threads', 'Lomond.Proofs.ThreadsZ', 'Lomond.Proofs.ThreadsR',
                     'Lomond.Proofs.ThreadsN', 'Lomond.Proofs.ThreadsNW']


def msg(t, i, kind='t'):
    """distinct messages that share long substrings, so that deflate blocks refer back to earlier messages"""
    # (braces and percent signs first: texts that end up in an error message must not be read as a format string)
    s = '{x} {0} {} %%s lomond interleaving payload, lomond interleaving payload #%d.%d' % (t, i)
    return s.encode().hex()


def prog(t, kinds):
    out = []
    for i, k in enumerate(kinds):
        if k in ('st1', 'st0', 'sb1', 'sb0'):
            out.append('%s=%s' % (k, msg(t, i)))
        elif k in ('pi', 'po', 'rp'):
            out.append('%s=%s' % (k, ('{p} {0} %%d p%d.%d' % (t, i)).encode().hex()))
        elif k in ('rm', 'rm2'):
            # a compressed message from the server; long repeats, so that a fragment refers back to the one before
            out.append('%s=%s' % (k, ('server message %d.%d, server message, lomond interleaving payload' % (t, i)).encode().hex()))
        elif k == 'tk':
            out.append('tk')
        else:
            raise ValueError(k)
    return out


def case(z, kinds_per_thread, pb=None, family='', n=None, fail=None):
    c = dict(z=z, progs=[prog(t, ks) for t, ks in enumerate(kinds_per_thread)], pb=pb, family=family)
    if n is not None:
        c['n'] = n
    if fail:
        c['fail'] = [list(f) for f in fail]
    return c


def socket_families(tier):
    """the general socket: sendall in n = 1, 3, 4 chunks (and a different n per call); sendalls that fail after k chunks"""
    fams = [
        case(0, [['st0'], ['sb0']], n=1, family='chunks-1'),
        case(0, [['st0'], ['sb0']], n=3, family='chunks-3'),
        case(0, [['st0', 'pi'], ['sb0', 'po']], n=3, pb=3, family='chunks-3'),
        case(0, [['st0'], ['sb0']], n=4, pb=4, family='chunks-4'),
        case(1, [['st1'], ['sb1']], n=3, family='chunks-3-deflate'),
        case(2, [['st1', 'sb1'], ['sb1']], n={'*': 2, '0.1': 4, '1.0': 1}, pb=3, family='chunks-mixed'),
        case(0, [['st0'], ['rp']], n=3, family='chunks-3-loop'),
        case(1, [['st1'], ['rm']], n=3, pb=4, family='chunks-3-receive'),
    ]
    # failures: every k for one call, against a second thread
    for k in range(0, 3):
        fams.append(case(0, [['st0', 'pi'], ['sb0']], n=2, fail=[(0, 0, k)], pb=4, family='fail-after-%d-of-2' % k))
    for k in range(0, 4):
        fams.append(case(0, [['st0', 'sb0'], ['pi']], n=3, fail=[(0, 0, k)], pb=3, family='fail-after-%d-of-3' % k))
    fams.append(case(2, [['st1', 'sb1'], ['sb1']], n=2, fail=[(0, 0, 1), (1, 0, 0)], pb=3, family='fail-deflate-reset'))
    fams.append(case(0, [['st0'], ['rp', 'tk']], n=2, fail=[(1, 0, 1)], pb=4, family='fail-loop-pong'))
    fams.append(case(0, [['sb0'], ['tk']], n=3, fail=[(1, 0, 2)], family='fail-loop-ping'))
    if tier != 'quick':
        fams += [
            case(0, [['st0', 'sb0'], ['sb0', 'pi']], n=3, pb=5, family='chunks-3'),
            case(0, [['st0'], ['sb0'], ['pi']], n=3, pb=3, family='chunks-3-3threads'),
            case(0, [['st0', 'sb0', 'pi'], ['sb0', 'po']], n=3, fail=[(0, 1, 1), (1, 0, 3)], pb=4, family='fail-two'),
            case(0, [['st0'], ['sb0'], ['pi']], n=4, fail=[(1, 0, 2)], pb=3, family='fail-3threads'),
            case(2, [['st1', 'sb1', 'st1'], ['sb1', 'st1']], n=3, fail=[(0, 1, 2)], pb=3, family='fail-deflate-reset'),
        ]
    return fams


def big_case():
    """a frame larger than the 64 KiB receive/transfer buffer against a small frame of another thread"""
    big = bytes((i * 7 + 3) % 251 for i in range(70000)).hex()
    return dict(z=0, progs=[['sb0=' + big], ['pi=' + b'p1.0'.hex(), 'st0=' + msg(1, 1)]], pb=None, family='plain-big-frame')


def big_deflate_case():
    """a message that is still larger than the 64 KiB buffer AFTER deflate (pseudo-random octets) against a message of another
    thread that repeats a part of its last 32 KiB: whichever goes through the compressor second refers back to the first"""
    r = random.Random(11)
    big = bytes(r.getrandbits(8) for _ in range(100 * 1000))
    echo = big[-2000:-1000]
    return dict(z=1, progs=[['sb1=' + big.hex()], ['sb1=' + echo.hex(), 'pi=' + b'p1.1'.hex()]], pb=None, family='deflate-big-frame')


def witnesses():
    """the two D7 schedules at sync granularity (always part of a run)"""
    c = case(1, [['st1'], ['st1']])
    w1 = dict(z=1, progs=c['progs'], mode='sync', family='witness-D7-order',
              schedule=[0, 0] + [1] * 9 + [0] * 7)                       # T0 compresses first, T1 writes first
    w2 = dict(z=1, progs=c['progs'], mode='sync', family='witness-D7-object',
              schedule=[0, 1, 0, 1] + [0] * 7 + [1] * 7)                 # compress/flush of the two threads interleave
    c2 = case(2, [['st1'], ['st1']])
    w3 = dict(z=2, progs=c2['progs'], mode='sync', family='witness-D7-reset',
              schedule=[0, 1, 0, 0, 1, 1] + [0] * 7 + [1] * 7)           # T0 resets the object T1 has fed
    return [w1, w2, w3]


def line_witnesses():
    """D7 at line granularity: T0 runs until its flush() has returned, then T1 runs completely"""
    c = case(1, [['st1'], ['st1']])
    cal = sched.run_real(dict(z=1, progs=[c['progs'][0]], schedule=[], mode='line'))
    at = [a for (t, k), a in zip(cal['steps'], cal['step_at']) if k == 'z:flush']
    out = []
    if at:
        for extra in (1, 2, 4):
            out.append(dict(z=1, progs=c['progs'], mode='line', family='witness-D7-line',
                            schedule=[0] * (at[0] + extra) + [1] * 400))
    return out


def receive_gap_cases(tier):
    """the loop thread receives and inflates compressed messages BETWEEN EVERY PAIR OF SYNC POINTS of a compressing
    sender: for each shape the sender's and the loop's sync-step counts are measured on the real code (single-threaded
    calibration runs), then every placement of the receive(s) as a block in the sender's step sequence is a schedule."""
    shapes = []
    for z in (1, 2, 3, 4):
        shapes.append((z, ['st1'], ['rm']))
        shapes.append((z, ['sb1', 'st1'], ['rm', 'rm']))
        shapes.append((z, ['st1'], ['rm2']))
    if tier != 'quick':
        for z in (1, 2, 3, 4):
            shapes.append((z, ['st1', 'sb1'], ['rm2', 'rm', 'rp']))
            shapes.append((z, ['st1', 'st0', 'sb1'], ['rm', 'rm2']))
    out = []
    for z, snd, rcv in shapes:
        c = case(z, [snd, rcv])
        k0 = len(sched.run_real(dict(z=z, progs=[c['progs'][0]], schedule=[], mode='sync'))['steps'])
        rl = sched.run_real(dict(z=z, progs=[['pi='], c['progs'][1]], schedule=[], mode='sync'))['steps']
        per_call = []          # sync steps of each loop call
        seen = [k for t, k in rl if t == 1]
        # the loop's calls are delimited by their leading `rd:sock`
        cur = []
        for k in seen:
            if k == 'rd:sock' and cur:
                per_call.append(len(cur)); cur = []
            cur.append(k)
        if cur:
            per_call.append(len(cur))
        n = len(per_call)
        # (a) all receives as one block at gap j
        for j in range(k0 + 1):
            out.append(dict(z=z, progs=c['progs'], mode='sync', family='receive-gap',
                            schedule=[0] * j + [1] * sum(per_call) + [0] * (k0 - j)))
        # (b) the receives spread: call i of the loop at gap g_i, g_0 <= g_1 <= ...
        if n >= 2:
            import itertools
            for gaps in itertools.combinations_with_replacement(range(k0 + 1), n):
                if len(set(gaps)) == 1:
                    continue
                sc, pos = [], 0
                for g, l in zip(gaps, per_call):
                    sc += [0] * (g - pos) + [1] * l
                    pos = g
                sc += [0] * (k0 - pos)
                out.append(dict(z=z, progs=c['progs'], mode='sync', family='receive-gap-spread', schedule=sc))
        # (c) inside a receive: the sender runs between the inflate steps of the loop
        for j in range(1, per_call[0]):
            for a in range(0, k0 + 1, 2):
                out.append(dict(z=z, progs=c['progs'], mode='sync', family='receive-split',
                                schedule=[0] * a + [1] * j + [0] * (k0 - a) + [1] * (sum(per_call) - j)))
    return out


def families(tier):
    fams = socket_families(tier) + [
        case(0, [['st0'], ['sb0']], family='plain'),
        case(0, [['st0', 'pi'], ['sb0', 'po']], family='plain'),
        big_case(),
        big_deflate_case(),
        case(1, [['st1'], ['st1']], family='deflate'),
        case(2, [['st1'], ['sb1']], family='deflate-reset'),
        case(1, [['st1'], ['sb0']], family='deflate'),
        case(1, [['st1', 'st1'], ['sb1']], family='deflate'),
        case(1, [['st1', 'sb1'], ['sb1', 'st1']], pb=3, family='deflate'),
        case(2, [['st1', 'sb1'], ['sb1']], pb=3, family='deflate-reset'),
        case(0, [['st0'], ['rp']], family='loop-pong'),
        case(1, [['st1'], ['rp']], family='loop-pong'),
        case(0, [['sb0', 'pi'], ['rp', 'tk']], pb=4, family='loop-pong-ping'),
        case(0, [['st0'], ['tk']], family='loop-ping'),
        case(1, [['st1', 'sb1'], ['tk', 'rp']], pb=3, family='loop-pong-ping'),
        case(1, [['st1'], ['rm']], family='loop-receive'),
        case(2, [['st1'], ['rm']], family='loop-receive'),
        case(3, [['sb1'], ['rm2']], pb=4, family='loop-receive'),
        case(4, [['st1', 'sb1'], ['rm', 'rp']], pb=3, family='loop-receive'),
    ]
    if tier != 'quick':
        fams += [
            case(1, [['st1', 'sb1'], ['sb1', 'st1']], pb=6, family='deflate'),
            case(2, [['st1', 'sb1'], ['sb1']], pb=5, family='deflate-reset'),
            case(2, [['st1', 'sb1'], ['sb1', 'st1']], pb=4, family='deflate-reset'),
            case(0, [['st0'], ['sb0'], ['pi']], pb=3, family='plain-3'),
            case(1, [['st1'], ['sb1'], ['st1']], pb=3, family='deflate-3'),
            case(2, [['st1'], ['sb1'], ['st1']], pb=2, family='deflate-reset-3'),
            case(1, [['st1', 'sb1'], ['sb1'], ['rp']], pb=2, family='deflate-3-loop'),
            case(1, [['st1', 'sb1', 'st1'], ['sb1', 'st1', 'pi'], ['rp', 'tk', 'rp']], pb=2, family='deflate-3x3-loop'),
            case(0, [['st0', 'sb0', 'pi'], ['sb0', 'po', 'st0'], ['tk', 'rp', 'rp']], pb=2, family='plain-3x3-loop'),
            case(1, [['st1', 'sb1', 'st1'], ['sb1', 'st1', 'sb1']], pb=3, family='deflate-2x3'),
            case(2, [['st1', 'sb1'], ['rm', 'rm2']], pb=4, family='loop-receive'),
            case(1, [['st1'], ['sb1'], ['rm', 'rm']], pb=3, family='loop-receive-3'),
            case(4, [['st1'], ['sb1'], ['rm2', 'rp']], pb=3, family='loop-receive-3'),
        ]
    return fams


def line_cases(rng, n):
    shapes = [(0, [['st0'], ['sb0']]), (1, [['st1'], ['st1']]), (2, [['st1'], ['sb1']]), (1, [['st1', 'sb1'], ['sb1', 'st1']]),
              (1, [['st1'], ['sb1'], ['st1']]), (0, [['st0', 'pi'], ['rp', 'tk']]), (1, [['st1', 'sb1'], ['sb1'], ['rp', 'tk']]),
              (2, [['st1', 'sb1', 'st1'], ['sb1', 'st1'], ['st1']]), (2, [['st1', 'sb1'], ['rm', 'rm2']]),
              (1, [['st1'], ['sb1'], ['rm', 'rp', 'rm']]), (4, [['st1', 'st1'], ['rm2', 'rm']]), (3, [['sb1'], ['st1'], ['rm2']])]
    out = []
    for k in range(n):
        z, kinds = shapes[k % len(shapes)]
        c = case(z, kinds)
        ncalls = max(len(p) for p in kinds)
        extra = {}
        if k % 3 == 1:
            extra['n'] = 1 + k % 4
        if k % 5 == 2 and z in (0, 2):
            extra['n'] = 3
            extra['fail'] = [[0, 0, k % 4]]
        out.append(dict(z=z, progs=c['progs'], mode='line', family='line-sample',
                        schedule=thrutil.random_line_schedule(rng, len(kinds), ncalls), **extra))
    return out


def explore(res, tier, seed, model_ok=True):
    rng = random.Random(seed)
    quick = tier == 'quick'
    fams = families(tier)
    res.rule = ('real lomond (one WebSocket, handshake completed, simulated socket writing every sendall in n chunks: n = 2 by default, families with '
                'n = 1, 3, 4 and a different n per call; sendalls made to FAIL after k chunks of a given call, every k) driven by a deterministic '
                'scheduler: (a) the D7 witness schedules; (a2) the loop thread receiving and inflating a COMPRESSED message (one frame / two fragments; '
                'z = 1..4: context takeover, client_no_context_takeover, server_no_context_takeover, both) between EVERY pair of sync points of a compressing '
                'sender, as a block, spread over two receives, and split inside the receive; (b) for each program family (2 threads x 1-2 calls%s; plain / deflate with context takeover / '
                'client_no_context_takeover; application sends, the loop\'s auto-pong and auto-ping) EVERY maximal interleaving at sync-step granularity '
                '(up to the stated preemption bound where given), enumerated by the model driver and executed on the real code; (c) 300 (quick) / 3000 uniformly random sync-granularity schedules that also schedule threads waiting for the lock; (d) %d sampled '
                'line-granularity schedules (sys.settrace, every source line of lomond/*.py a preemption point).  Model and real code are compared on '
                'the executed sync-step log, every chunk written, per-call results and final flags (model = Model/ThreadsN.lean with the same socket).  Oracle: reference decoder + zlib peer on the bytes written '
                '(torn heads of frames whose sendall the harness made fail are set aside after checking that they are a prefix of the data handed to sendall; a call whose sendall failed must raise TransportFail); '
                'the application receives exactly the compressed messages the server sent.  '
                'non-trivial = some thread was preempted; distinct by (programs, executed step sequence)') % (
                    '' if quick else ', 3 threads x <=3 calls with a preemption bound', 120 if quick else 1500)
    cases = witnesses() + line_witnesses()
    gaps = receive_gap_cases(tier)
    res.exhaustive['receive_between_every_pair_of_sender_sync_points (z=1..4; block, spread and split placements)'] = len(gaps)
    cases += gaps
    enum = thrutil.enumerate_cases(fams, model_ok, rng, cap=None if not quick else 6000)
    for f in fams:
        res.exhaustive['sync_interleavings %s z=%d pb=%s [%s]' % (f['family'], f['z'], f.get('pb') or 'none', thrutil.progs_str(f)[:60])] = f.get('n_schedules', 0)
    cases += enum
    # when compression sits under the write lock the exhaustive sets are small (the lock serialises the
    # whole send): spend the time on more random schedules instead
    boost = 4 if len(enum) < 2000 else 1
    cases += thrutil.random_sync_cases(rng, fams, (300 if quick else 3000) * boost)
    cases += line_cases(rng, (120 if quick else 1500) * boost)
    reals = thrutil.run_and_compare(res, cases, thrutil.judge_wire, model_ok)
    res.samples += [dict(programs=thrutil.progs_str(c), z=c['z'], mode=c['mode'], schedule=''.join(map(str, c['schedule']))[:120]) for c in cases[:3] + cases[-2:]]
    if not any(f['cls'] == 'compress-outside-lock' for f in res.failures):
        res.notes.append('the D7 witness schedules no longer make the peer fail: compression appears to be ordered with the writes now')


def replay(rp):
    return thrutil.replay(rp)
