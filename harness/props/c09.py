"""C09 - transport failures become events, never exceptions or hangs."""
from __future__ import annotations
import json, random
import runner, coreutil, gen_core
from coreutil import Scenario, events, reads, toks
from refcodec import server_frame, close_payload

TRUSTED = ['correspondence: harness/world.py (fault injection at the simulated socket/selector)', 'real-transport runs (harness/realsock.py): the OS TCP / AF_UNIX stack and select / poll of this machine, short wall-clock poll intervals',
           'per-address connect loop: the real _connect_sock is driven with a simulated socket module (harness/props/c09.py) and compared call-by-call with lean/Lomond/Model/Connect.lean for every outcome combination of up to 3 addresses',
           'the core model treats `_connect` as one outcome (cfg.connect); the link between Connect.connectSock = fail and cfg.connect = socketFail is by inspection of session.py (_connect_sock raises _SocketFail, run() catches it)']
ASSUMPTIONS = ['faults: EOF, socket.error, arbitrary exception at recv; socket.error at sendall; OSError at selector.wait; connect outcomes per resolved address',
               'theorems are about Lomond.Core.run/runAll for every cfg (connect outcome, per-write failure function), every application and every environment script; `scriptEnd` (environment script exhausted while the loop is still running) is a model artefact, excluded by ending every generated script with a transport-ending step',
               'an application that abandons the iterator (GeneratorExit) is the only other way out of run(); the no-escape theorem says so explicitly']


def base_scenarios(rng, n):
    out = []
    sc = Scenario([])
    frames = server_frame(1, b'hello') + server_frame(9, b'pp') + server_frame(2, b'ab', fin=0) + server_frame(0, b'cd') + server_frame(8, close_payload(1000, b'bye'))
    out.append(Scenario(reads([sc.good_reply() + frames]) + [('wait', 1, ('eof',))], {3: [('send_text', ('s', [104]), True)], 4: [('send_binary', ('b', b'x'), True)]}, prate=0))
    out.append(Scenario(reads([sc.good_reply(), server_frame(1, b'a')]) + [('wait', 5, None), ('wait', 1, ('eof',))], {2: [('close', 1000, ('b', b'bye'))]}, prate=2))
    # permessage-deflate negotiated: application data goes through the compressed send path (its own socket write)
    gz = sc.good_reply(b'Sec-WebSocket-Extensions: permessage-deflate\r\n')
    out.append(Scenario(reads([gz + server_frame(1, b'hello') + server_frame(9, b'pp')]) + [('wait', 1, ('eof',))],
                        {2: [('send_text', ('s', [104, 105]), True)], 4: [('send_binary', ('b', b'xyz' * 30), True), ('send_text', ('s', [104]), False)], 5: [('send_json', ('obj', {'k': 'v'}))]},
                        prate=0, compress=True))
    # a silent peer: only a timeout can end these (close timeout after the application's close(), ping timeout) - also when the
    # Close / the automatic Ping could not be written (faulted() injects a failure at every write index)
    out.append(Scenario(reads([sc.good_reply()]) + [('wait', 5, None)] * 6, {2: [('close', 1000, ('b', b'bye'))]}, poll=5, prate=0, ctimeout=10))
    out.append(Scenario(reads([sc.good_reply()]) + [('wait', 2, None)] * 10, {}, poll=2, prate=3, ptimeout=7, ctimeout=4))
    while len(out) < n:
        out.append(gen_core.gen_history(rng, n_steps=rng.randint(1, 5), timers=rng.random() < 0.4, faults=False))
    return out


def stream_of(sc):
    return b''.join(st[2][1] for st in sc.env if st[0] == 'wait' and st[2] and st[2][0] == 'data')


def faulted(sc, rng, tier):
    """the scenario with one fault injected at each individual socket operation"""
    out = []
    js = coreutil.scenario_to_json(sc)
    for conn in ('sockfail', 'otherfail', 'selfail'):
        s = coreutil.scenario_from_json(js); s.conn = conn; out.append((s, ('connect:' if conn != 'selfail' else 'selector-constructor:') + conn))
    for k in range(0, 8):
        s = coreutil.scenario_from_json(js); s.wfail = {k}; out.append((s, 'write#%d' % k))
    for k in range(0, 8, 2):
        # sendall 'interrupted' (EINTR) - part of the data may be out already: it is a failed write like any other, never to be repeated
        s = coreutil.scenario_from_json(js); s.wfail = {k}; s.werrno = 4; out.append((s, 'write#%d:EINTR' % k))
    data = stream_of(sc)
    if len(data) < 200 or (tier == 'thorough' and len(data) <= 2000):
        offs = range(len(data) + 1)
    elif tier == 'thorough':
        # very long streams (64 KiB frames): every offset of the first 600 and the last 300 bytes, 600 sampled in between
        n = len(data)
        offs = sorted(set(range(0, 601)) | set(range(n - 300, n + 1)) | set(rng.sample(range(n + 1), 600)))
    else:
        offs = sorted(set(rng.sample(range(len(data) + 1), 120)) | {0, len(data)})
    for off in offs:
        for kind in ('eof', 'sockerr', 'othererr'):
            s = coreutil.scenario_from_json(js)
            pre = data[:off]
            s.env = (reads(coreutil.limit_chunks([pre])) if pre else []) + [('wait', 0, (kind,))]
            out.append((s, 'recv@%d:%s' % (off, kind)))
    nsteps = len(sc.env)
    for k in range(nsteps):
        s = coreutil.scenario_from_json(js)
        s.env = s.env[:k] + [('selerr',)]
        out.append((s, 'selector#%d' % k))
    return out


def judge(res, js, line, real, what):
    tk = toks(real)
    evs = [t for t in tk if t.startswith('E:')]
    def fail(msg, cls='transport'):
        res.failures.append(dict(cls=cls, what='%s [fault %s]' % (msg, what), input=line[-1500:], scenario=js, observed=[e[:70] for e in evs[-5:]]))
    if any(t.startswith('ESCAPED') for t in tk):
        return fail('an exception propagated out of the event iterator', 'escape')
    if 'HANG' in tk:
        return fail('the real code blocked (no progress in wall-clock time although all waiting is simulated)', 'hang')
    if 'INCOMPLETE' in tk:
        return fail('the iterator is still waiting after the transport ended / after a timeout was due', 'hang')
    names = [e.split(':')[1] for e in evs]
    if not names or names[-1] not in ('connect_fail', 'disconnected'):
        return fail('no terminal event')
    if 'connected' in names and names[-1] != 'disconnected':
        return fail('ConnectFail after the connection was up')
    if 'connected' not in names and names[-1] != 'connect_fail':
        return fail('Disconnected before the connection was up')
    if 'sock=1' in tk[-1]:
        return fail('socket left open', 'socket-open')
    if names[-1] == 'disconnected':
        graceful = evs[-1].endswith(':1')
        # a close() whose Close frame could not be written still counts as the client starting the handshake
        client_close = any(t.startswith(('W:88', 'WF:88')) for t in tk)
        server_close = any(n in ('closing', 'closed') for n in names)
        rejected = 'rejected' in names
        if graceful and not client_close and not server_close and not rejected:
            return fail('graceful=True although neither side had started the closing handshake', 'graceful')
    # a sendall that failed is a failed call: the application must get the error, and the data must not be written a second time
    last_boundary = 0
    for i, t in enumerate(tk):
        if t.startswith('R:'):
            seg = tk[last_boundary:i]
            # (close() is not a send call: it reports nothing when its Close frame cannot be written - the connection is closing either way)
            if t == 'R:ok' and any(x.startswith('WF:') and not x.startswith('WF:88') for x in seg):
                return fail('an application call whose socket write failed returned normally (written again / error swallowed)', 'app-error')
            last_boundary = i + 1
        elif t.startswith('E:'):
            last_boundary = i + 1
    # application calls with valid arguments fail only with WebSocketError subclasses
    for t in tk:
        if t.startswith('R:') and t[2:] not in ('ok', 'WebSocketClosed', 'WebSocketClosing', 'WebSocketUnavailable', 'TransportFail', 'TypeError', 'ValueError') and not t.startswith('R:WebSocketError('):
            return fail('application call failed with %s' % t[2:], 'app-error')


# ---- per-address connect loop on the real _connect_sock ---------------------------------------

def real_connect_cases(_):
    """drive the real WebsocketSession._connect_sock with a simulated socket module"""
    import socket as real_socket
    import lomond.session as S
    from lomond.websocket import WebSocket
    results = []
    import itertools
    outcomes = ['ok', 'sockcreate-fail', 'connect-fail']
    for n in range(0, 4):
        for combo in itertools.product(outcomes, repeat=n):
            log = []

            class FakeSock:
                def __init__(self, idx):
                    self.idx = idx
                def setsockopt(self, *a): pass
                def settimeout(self, t): pass
                def connect(self, sa):
                    log.append('connect%d' % self.idx)
                    if combo[self.idx] == 'connect-fail':
                        raise real_socket.error(111, 'refused')
                def close(self):
                    log.append('close%d' % self.idx)

            class FakeSocketModule:
                error = real_socket.error
                AF_UNSPEC, SOCK_STREAM, IPPROTO_TCP, TCP_NODELAY, SHUT_RDWR = 0, 1, 6, 1, 2
                counter = [0]

                @staticmethod
                def getaddrinfo(host, port, fam, typ):
                    if n == 0:
                        raise real_socket.error(-2, 'Name or service not known')
                    return [(2, 1, 6, '', ('10.0.0.%d' % i, port)) for i in range(n)]

                @staticmethod
                def socket(af, typ, proto):
                    i = FakeSocketModule.counter[0]
                    FakeSocketModule.counter[0] += 1
                    log.append('socket%d' % i)
                    if combo[i] == 'sockcreate-fail':
                        raise real_socket.error(24, 'too many files')
                    return FakeSock(i)

            saved = S.socket
            S.socket = FakeSocketModule
            try:
                ws = WebSocket('ws://example.com/')
                sess = S.WebsocketSession(ws)
                try:
                    sock = sess._connect_sock('example.com', 80)
                    res_ = 'sock%d' % sock.idx
                except S._SocketFail:
                    res_ = 'fail'
                except Exception as e:  # noqa
                    res_ = 'escaped:' + type(e).__name__
            finally:
                S.socket = saved
            results.append((n, combo, res_, log))
    return results


# ---- SEVERAL connections in one process: "each address is tried before giving up" on every one of them ---------

RC_FAMS = {'v4': 2, 'v6': 10}


def gen_reconnect_case(rng):
    """k = 2..4 connections to the SAME host in one process - the same WebSocket object connect()ed again, lomond.persist, or a new
       WebSocket object per connection.  Every connection has its own getaddrinfo result: 0..4 addresses of AF_INET6 / AF_INET in any
       order, an outcome per address (accepts / refuses), and a set of families for which socket() itself raises (EAFNOSUPPORT); the
       result changes from one connection to the next (often: the address that accepted before now refuses and another accepts)."""
    mode = rng.choice(['connect', 'connect', 'persist', 'newobj'])
    k = rng.choice([2, 2, 3, 3, 4])
    conns = []
    prev = None
    for _ in range(k):
        r = rng.random()
        if r < 0.06:
            conns.append(dict(addrs=None, nosock=[])); continue              # the name does not resolve this time
        if prev is not None and prev['addrs'] and r < 0.5:
            # same addresses as last time, outcomes changed: every address of the family that served last time refuses, others accept
            ok_fams = set(f for f, o in prev['addrs'] if o == 'ok' and f not in prev['nosock'])
            first_ok = next((f for f, o in prev['addrs'] if o == 'ok' and f not in prev['nosock']), None)
            addrs = [[f, ('cfail' if f == first_ok else rng.choice(['ok', 'ok', 'cfail'])) if ok_fams else rng.choice(['ok', 'cfail'])] for f, o in prev['addrs']]
            if rng.random() < 0.3:
                rng.shuffle(addrs)
            nosock = []
        else:
            n = rng.choice([1, 2, 2, 2, 3, 3, 4])
            shape = rng.random()
            fams = [rng.choice(['v4', 'v6']) for _ in range(n)] if shape < 0.6 else sorted((['v6', 'v4'] * n)[:n], reverse=shape < 0.9)
            addrs = [[f, rng.choice(['ok', 'cfail', 'cfail'])] for f in fams]
            if rng.random() < 0.5 and not any(o == 'ok' for _, o in addrs):
                addrs[rng.randrange(n)][1] = 'ok'
            nosock = [rng.choice(['v4', 'v6'])] if rng.random() < 0.12 else []
        c = dict(addrs=addrs, nosock=nosock)
        conns.append(c)
        prev = c
    return dict(mode=mode, conns=conns, host=rng.choice(['dual.example.test', 'example.com', 'LocalHost']), port=rng.choice([80, 8080]))


def reconnect_systematic():
    """every pair of connections over two addresses (families x outcomes): (4 family orders x 4 outcomes)^2 = 256 sequences, same object"""
    import itertools
    out = []
    one = [[[f0, o0], [f1, o1]] for f0, f1 in (('v6', 'v4'), ('v4', 'v6'), ('v4', 'v4'), ('v6', 'v6')) for o0 in ('ok', 'cfail') for o1 in ('ok', 'cfail')]
    for a, b in itertools.product(one, repeat=2):
        out.append(dict(mode='connect', conns=[dict(addrs=a, nosock=[]), dict(addrs=b, nosock=[])], host='dual.example.test', port=8080))
    return out


def run_reconnect(case):
    """the real WebSocket.connect() / lomond.persist over the real session loop, `_connect`, `_connect_sock`; simulated: the socket
       module seen by lomond.session (getaddrinfo, socket objects) and the selector (the peer closes the stream right after the TCP
       connect, so every connection that comes up ends at once with Disconnected).  Returns one record per connection:
       dict(events=[names], graceful=, res='sock<i>'|'fail'|'?', log=[socket<i>/connect<i>/close<i>], open=[indices of sockets never closed], escaped=)"""
    import socket as real_socket
    import lomond.session as S
    import lomond.persist as P
    from lomond.websocket import WebSocket
    conns = case['conns']
    cur = dict(i=0, spec=conns[0], log=[], socks=[], pending={})
    recs = []

    def sa_of(i, fam, port):
        return ('2001:db8::%d' % (i + 1), port, 0, 0) if fam == 'v6' else ('192.0.2.%d' % (i + 1), port)

    class FakeSock(object):
        def __init__(self, fam, entry):
            self.fam, self.entry, self.idx, self.closed, self.up = fam, entry, None, 0, False
        def setsockopt(self, *a): pass
        def settimeout(self, t): pass
        def fileno(self): return 999
        def connect(self, sa):
            addrs = cur['spec']['addrs']
            idx = next((i for i, (f, o) in enumerate(addrs) if sa_of(i, f, sa[1]) == tuple(sa)), None)
            self.idx = idx
            if self.entry[1] is None:
                self.entry[1] = idx
            cur['log'].append(['connect', idx])
            if idx is None or addrs[idx][1] != 'ok' or addrs[idx][0] != self.fam:
                raise real_socket.error(111, 'simulated: connection refused')
            self.up = True
        def sendall(self, data): pass
        def recv_into(self, buf, count=0): return 0
        def recv(self, n): return b''
        def pending(self): return 0
        def shutdown(self, how): pass
        def close(self):
            self.closed += 1
            if not self.up and self.closed == 1:
                cur['log'].append(['close', self.idx if self.idx is not None else self.entry[1]])

    class Mod(object):
        error = real_socket.error
        timeout = real_socket.timeout
        def __getattr__(self, name):
            return getattr(real_socket, name)
        @staticmethod
        def getaddrinfo(host, port, *a, **kw):
            addrs = cur['spec']['addrs']
            if addrs is None:
                raise real_socket.gaierror(-2, 'Name or service not known')
            return [(RC_FAMS[f], real_socket.SOCK_STREAM, 6, '', sa_of(i, f, port)) for i, (f, o) in enumerate(addrs)]
        @staticmethod
        def socket(af=2, typ=1, proto=0, *a):
            fam = 'v6' if af == RC_FAMS['v6'] else 'v4'
            entry = ['socket', None]
            cur['log'].append(entry)
            if fam in cur['spec']['nosock']:
                # attributed to the first address of that family that has not been tried yet
                seen = set(e[1] for e in cur['log'] if e[0] == 'socket' and e[1] is not None)
                entry[1] = next((i for i, (f, o) in enumerate(cur['spec']['addrs'] or []) if f == fam and i not in seen), None)
                raise real_socket.error(97, 'simulated: address family not supported by protocol')
            sk = FakeSock(fam, entry)
            cur['socks'].append(sk)
            return sk

    class FakeSelector(object):
        def __init__(self, sock): pass
        def wait(self, max_bytes, timeout): return True, max_bytes
        def wait_readable(self, timeout=None): return True
        def close(self): pass

    class Sess(S.WebsocketSession):
        _selector_cls = FakeSelector

    class WS(WebSocket):
        def connect(self, **kw):
            kw.setdefault('session_class', Sess)
            return WebSocket.connect(self, **kw)

    class ExitEvent(object):
        def wait(self, t):
            return bool(cur.get('last'))          # set when the BackOff after the last planned connection has been delivered

    def begin(i):
        cur.update(i=i, spec=conns[i], log=[], socks=[])
        recs.append(dict(events=[], graceful=None, escaped=None))

    def finish():
        r = recs[-1]
        r['log'] = ['%s%s' % (k, '?' if i is None else i) for k, i in cur['log']]
        up = [sk for sk in cur['socks'] if sk.up]
        r['res'] = 'sock%s' % up[0].idx if len(up) == 1 else ('fail' if not up else 'several:%s' % [sk.idx for sk in up])
        r['open'] = sorted('?' if sk.idx is None else sk.idx for sk in cur['socks'] if not sk.closed)

    def take(ev):
        r = recs[-1]
        r['events'].append(ev.name)
        if ev.name == 'disconnected':
            r['graceful'] = bool(ev.graceful)
        if len(r['events']) > 60:
            r['escaped'] = 'HANG'
            return True
        return False

    url = 'ws://%s:%d/' % (case['host'], case['port'])
    saved = S.socket
    S.socket = Mod()
    try:
        ws = WS(url, proxies={})
        if case['mode'] == 'persist':
            begin(0)
            try:
                for ev in P.persist(ws, poll=5, min_wait=1, max_wait=2, ping_rate=0, exit_event=ExitEvent()):
                    if ev.name == 'back_off':
                        finish()
                        if cur['i'] + 1 < len(conns):
                            begin(cur['i'] + 1)
                        else:
                            cur['last'] = True
                        continue
                    if take(ev):
                        break
            except Exception as e:  # noqa -- an exception escaped the event iterator
                recs[-1]['escaped'] = type(e).__name__
                finish()
        else:
            for i in range(len(conns)):
                if case['mode'] == 'newobj' and i:
                    ws = WS(url, proxies={})
                begin(i)
                try:
                    for ev in ws.connect(ping_rate=0):
                        if take(ev):
                            break
                except Exception as e:  # noqa
                    recs[-1]['escaped'] = type(e).__name__
                finish()
    finally:
        S.socket = saved
    return recs[:len(conns)]


def run_reconnect_safe(case):
    try:
        return run_reconnect(case)
    except Exception as e:  # noqa
        return dict(__crash__='HARNESS-CRASH:%s:%s' % (type(e).__name__, str(e)[:200]), input=case)


def rc_outcomes(spec):
    """per-address outcome of one connection in the vocabulary of Model/Connect.lean"""
    if spec['addrs'] is None:
        return None
    return ['sfail' if f in spec['nosock'] else o for f, o in spec['addrs']]


def judge_reconnect(case, recs):
    """oracle from the property text, per connection of the sequence; returns None or (cls, what, connection number)"""
    if len(recs) != len(case['conns']):
        return ('reconnect-missing', 'only %d of %d connections were made' % (len(recs), len(case['conns'])), len(recs))
    for ci, (spec, r) in enumerate(zip(case['conns'], recs)):
        outs = rc_outcomes(spec)
        ev = r['events']
        if r['escaped'] == 'HANG':
            return ('hang', 'connection %d never ends' % ci, ci)
        if r['escaped']:
            return ('escape', 'connection %d: %s propagated out of the event iterator' % (ci, r['escaped']), ci)
        if not ev or ev[-1] not in ('connect_fail', 'disconnected'):
            return ('transport', 'connection %d: no terminal event: %s' % (ci, ev), ci)
        tried = set(int(t[7:]) for t in r['log'] if t.startswith('connect') and t[7:] != '?') | \
            set(int(t[6:]) for t in r['log'] if t.startswith('socket') and t[6:] != '?' and outs and outs[int(t[6:])] == 'sfail')
        if ev[-1] == 'connect_fail':
            if 'connected' in ev:
                return ('transport', 'connection %d: ConnectFail after the connection was up' % ci, ci)
            if outs is not None:
                untried = [i for i in range(len(outs)) if i not in tried]
                if untried:
                    would = [i for i in untried if outs[i] == 'ok']
                    return ('reconnect-address-not-tried', 'connection %d of the sequence gave up (ConnectFail) after trying only addresses %s of the %d resolved ones %s; never tried: %s%s'
                            % (ci, sorted(tried), len(outs), spec['addrs'], untried, (' - address %d would have accepted' % would[0]) if would else ''), ci)
                if 'ok' in outs:
                    return ('reconnect-gave-up', 'connection %d: ConnectFail although address %d accepted the connect' % (ci, outs.index('ok')), ci)
        else:
            if 'connected' not in ev:
                return ('transport', 'connection %d: Disconnected before the connection was up' % ci, ci)
            if outs is None or 'ok' not in outs:
                return ('transport', 'connection %d: Connected although no address accepts' % ci, ci)
            if r['graceful']:
                return ('graceful', 'connection %d: the peer dropped the stream, neither side had started the closing handshake, graceful=True' % ci, ci)
        if r['open']:
            return ('socket-open', 'connection %d: sockets of addresses %s still open after the terminal event' % (ci, r['open']), ci)
        for i, t in enumerate(r['log']):
            if t.startswith('connect') and not r['res'] == 'sock' + t[7:] and 'close' + t[7:] not in r['log'][i:]:
                return ('socket-open', 'connection %d: the socket whose connect to address %s failed was not closed' % (ci, t[7:]), ci)
    return None


def explore_reconnect(res, rng, tier, model_ok):
    cases = reconnect_systematic()
    if tier == 'thorough':
        res.exhaustive['reconnect_pairs_two_addresses_families_x_outcomes'] = len(cases)
    else:
        cases = rng.sample(cases, 40)
    cases += [gen_reconnect_case(rng) for _ in range(3000 if tier == 'thorough' else 260)]
    reals = runner.parallel_map('props.c09', 'run_reconnect_safe', cases, chunk=40)
    lines, where, found = [], [], []
    for case, recs in zip(cases, reals):
        if isinstance(recs, dict):
            res.crashes.append(recs); continue
        res.case(('reconnect', json.dumps(case, sort_keys=True)), nontrivial=True)
        res.count('reconnect:' + case['mode'])
        res.count('reconnect:%d-connections' % len(case['conns']))
        fams = [set(f for f, _ in c['addrs'] or []) for c in case['conns']]
        if any(len(f) > 1 for f in fams):
            res.count('reconnect:mixed-families')
        firsts = [(lambda o: None if not o or 'ok' not in o else c['addrs'][o.index('ok')][0])(rc_outcomes(c)) for c in case['conns']]
        if any(a and b and a != b for a, b in zip(firsts, firsts[1:])):
            res.count('reconnect:serving-family-changes')
        v = judge_reconnect(case, recs)
        if v:
            found.append(dict(cls=v[0], what=v[1] + ' [mode %s]' % case['mode'], input=dict(kind='reconnect', case=case),
                                     observed=recs[min(v[2], len(recs) - 1)] if recs else None,
                                     expected='C09: each resolved address is tried before giving up - on every connection made in the process, not only the first'))
        res.traces_validated += 1
        # every connection of the sequence against Model/Connect.lean (the model has no memory between connections)
        for ci, (spec, r) in enumerate(zip(case['conns'], recs)):
            outs = rc_outcomes(spec)
            tokm = {'ok': 'ok', 'sfail': 'sfail', 'cfail': 'cfail'}
            if outs is not None and len(outs) == 0:
                continue
            lines.append('connect ' + ('-' if outs is None else ','.join(tokm[o] for o in outs)))
            where.append((case, ci, (r['res'] + ' ' + ','.join(r['log'])).strip()))
    if model_ok and lines:
        for line, (case, ci, real), out in zip(lines, where, runner.model_run(lines)):
            if real != out.strip():
                res.diffs.append(dict(input='%s (connection %d of %s)' % (line, ci, json.dumps(case, sort_keys=True)), real=real, model=out))
    # the sequences of one worker process run one after the other in that process: a failure may depend on connections of EARLIER
    # sequences.  The failing sequence that also fails on its own in a fresh interpreter (the replay) is reported first.
    for k, f in enumerate(found[:8]):
        if reconnect_standalone(f['input']['case']):
            f['what'] += ' [reproduced on its own in a fresh process]'
            found.insert(0, found.pop(k))
            break
    res.failures.extend(found)


def reconnect_standalone(case):
    """does the oracle also reject this sequence when it is the only thing a fresh interpreter runs?"""
    import subprocess, sys, os
    here = os.path.dirname(os.path.dirname(os.path.abspath(__file__)))
    code = ('import sys, json; sys.path.insert(0, %r); import runner; import props.c09 as c; case = json.loads(sys.stdin.read()); '
            'r = c.run_reconnect_safe(case); print("VERDICT", json.dumps(bool(isinstance(r, list) and c.judge_reconnect(case, r))))') % here
    try:
        p = subprocess.run([sys.executable, '-c', code], input=json.dumps(case), capture_output=True, text=True, timeout=60)
    except Exception:  # noqa
        return False
    return 'VERDICT true' in p.stdout


def explore(res, tier, seed, model_ok=True):
    rng = random.Random(seed)
    nbase = 6 if tier == 'quick' else 40
    # the real transport: TCP loopback / AF_UNIX pairs, every selector class the platform has, connections ended by FIN and by RST at
    # several points (oracle only: no exception escapes, the run ends with Disconnected, the socket is closed)
    import realsock
    realsock.explore(res, tier)
    res.rule = ('%d base scenarios x one fault injected at every individual socket operation: connect (2 kinds), each of the first 8 sendall calls, recv at every byte offset of the server stream (EOF / socket.error / other exception; streams over 2000 bytes: every offset of the first 600 and last 300 bytes plus 600 sampled), '
                'selector.wait at every cycle; plus every outcome combination of up to 3 resolved addresses on the real _connect_sock; plus composed connections (harness/linkworld.py): '
                'getaddrinfo / per-address outcomes x a random core history run through the real _connect/_connect_sock and the whole session loop, compared with the composed model `link`; '
                'plus sequences of 2-4 connections in one process (same WebSocket object connect()ed again / lomond.persist / a new object per connection) whose getaddrinfo results mix AF_INET6 and AF_INET addresses and change per-address outcome between the connections (quick: 40 sampled of the 256 two-address pairs of connections + 260 random; thorough: all 256 + 3000), oracle per connection and each connection compared with Model/Connect.lean; '
                'plus runs on a REAL transport (harness/realsock.py: TCP loopback and AF_UNIX pairs x every selector class of the platform x 8 endings: FIN / RST after the messages, inside a frame, before the reply is complete, silence then FIN, closing handshake); non-trivial = every faulted run; distinct by operation line') % nbase
    first_pairs = None
    # one batch per base scenario, so that memory stays bounded in the thorough tier
    for b in base_scenarios(rng, nbase):
        scs, meta = [], []
        for s, what in faulted(b, rng, tier):
            scs.append(s); meta.append(what)
        pairs = coreutil.run_pairs(scs, model_ok)
        for (js, line, real, model), what in zip(pairs, meta):
            if isinstance(real, dict):
                res.crashes.append(real); continue
            res.case(line)
            res.count(what.split('@')[0].split('#')[0].split(':')[0])
            judge(res, js, line, real, what)
        coreutil.check_corr(res, pairs)
        if first_pairs is None:
            first_pairs = [pairs[0], pairs[len(pairs) // 2]]
        del pairs, scs
    # connect loop: the real _connect_sock against the Lean model (Model/Connect.lean), then the oracle
    cases = real_connect_cases(None)
    if model_ok:
        tok = {'ok': 'ok', 'sockcreate-fail': 'sfail', 'connect-fail': 'cfail'}
        lines = ['connect ' + ('-' if n == 0 else ','.join(tok[c] for c in combo)) for n, combo, _, _ in cases]
        outs = runner.model_run(lines)
        for (n, combo, r, log), line, out in zip(cases, lines, outs):
            real = (r + ' ' + ','.join(log)).strip()
            res.traces_validated += 1
            if real != out.strip():
                res.diffs.append(dict(input=line, real=real, model=out))
    for n, combo, r, log in cases:
        res.case(('connect', n, combo))
        first_ok = next((i for i, c in enumerate(combo) if c == 'ok'), None)
        want = 'fail' if first_ok is None else 'sock%d' % first_ok
        if r != want:
            res.failures.append(dict(cls='connect-loop', what='addresses %s: expected %s got %s' % (combo, want, r), input=[n, list(combo)], observed=log))
            continue
        tried = [int(x[6:]) for x in log if x.startswith('socket')]
        upto = n if first_ok is None else first_ok + 1
        if tried != list(range(upto)):
            res.failures.append(dict(cls='connect-loop', what='addresses not tried in order / not all tried: %s' % tried, input=[n, list(combo)], observed=log))
        for i, c in enumerate(combo[:upto]):
            if c == 'connect-fail' and 'close%d' % i not in log:
                res.failures.append(dict(cls='connect-loop', what='socket of failed address %d not closed' % i, input=[n, list(combo)], observed=log))
    res.exhaustive['connect_outcome_combinations_le_3_addresses'] = len(cases)
    # ---- the COMPOSED connection (Model/ConnectLink.lean, Properties/C09_Connect.lean): the real `run()` with the real `_connect` /
    # `_connect_sock` (simulated socket module: getaddrinfo + one outcome per address) through a whole connection, against
    # `ConnectLink.composed`; oracle: every address tried before ConnectFail, failed sockets closed, nothing escapes -----
    import linkworld
    linkworld.explore_stream(res, rng, 'direct', 5000 if tier == 'thorough' else 400, model_ok, 'C09', judge_close=True)
    # "... ConnectFail before the connection is up ... and the socket is closed" (finding D11): the same composed connections through
    # a proxy -- every failure class of the tunnel after the TCP connect -- and, oracle-only, direct wss:// connections whose
    # per-candidate TLS wrap raises; oracle: at ConnectFail every socket the connection phase created has been closed
    for c in linkworld.d11_cases():
        r = linkworld.run_link_safe(c)
        res.case(('link', 'd11', c['name']))
        res.count('link:' + c['name'])
        v = linkworld.oracle(c, r) or linkworld.oracle_closed(c, r)
        if v:
            res.failures.append(dict(cls='link-' + v[0], what=v[1], input=dict(kind='link', case=c), observed=r[-1500:],
                                     expected='property text of C09 over the composed connection'))
        if model_ok:
            m = runner.model_run([linkworld.link_line(c)])[0]
            res.traces_validated += 1
            if m != r:
                res.diffs.append(dict(input=linkworld.link_line(c)[:3000], real=r[-2000:], model=m[-2000:], case=c))
    linkworld.explore_stream(res, rng, 'proxy', 5000 if tier == 'thorough' else 400, model_ok, 'C09', judge_close=True)
    linkworld.explore_stream(res, rng, 'direct-wss', 1500 if tier == 'thorough' else 150, model_ok, 'C09', judge_close=True)
    res.samples += [first_pairs[0][1][-200:], first_pairs[1][1][-200:], 'connect outcomes (ok, connect-fail, sockcreate-fail)^n, n<=3']
    # ---- sequences of connections in one process (connect() again on the same object, lomond.persist, a new object per connection):
    # address lists of several families whose per-address outcomes change between the connections; oracle per connection + each
    # connection's socket-module calls against Model/Connect.lean (drawn last: the streams above keep their random sequence)
    explore_reconnect(res, rng, tier, model_ok)


def replay(rp):
    if isinstance(rp.get('input'), dict) and 'realsock' in rp['input']:
        import realsock
        it = tuple(rp['input']['realsock'])
        r = realsock.run_one(it)
        print(r); print(realsock.judge(it, r))
        return 0
    if isinstance(rp.get('input'), dict) and rp['input'].get('kind') == 'reconnect':
        case = rp['input']['case']
        recs = run_reconnect_safe(case)
        print('case : ' + json.dumps(case))
        print('class: %s - %s' % (rp.get('cls'), rp.get('what')))
        for ci, r in enumerate(recs if isinstance(recs, list) else [recs]):
            print('real connection %d: %s' % (ci, json.dumps(r, sort_keys=True)))
        print('oracle now: %s' % (judge_reconnect(case, recs) if isinstance(recs, list) else None,))
        return 0
    if isinstance(rp.get('input'), dict) and rp['input'].get('kind') == 'link':
        import linkworld
        case = rp['input']['case']
        real = linkworld.run_link_safe(case)
        print('case : ' + json.dumps({k: v for k, v in case.items() if k != 'sc'}))
        print('class: %s - %s' % (rp.get('cls'), rp.get('what')))
        print('real : ' + real)
        print('oracle now: %s' % (linkworld.oracle(case, real) or linkworld.oracle_closed(case, real),))
        print('_connect_proxy closes its socket on failure (probe): %s' % linkworld.proxy_closes_on_failure())
        print('socket in blocking mode before the proxy negotiation (probe): %s' % linkworld.blocks_before_tunnel())
        if not case.get('wrap_fail_call') and not case['url'].startswith('wss') or case.get('http') or case.get('https'):
            print('model line: ' + linkworld.link_line(case))
        return 0
    return coreutil.replay_core(rp)
