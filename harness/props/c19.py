"""C19 - with a proxy configured, nothing is sent to the target before the tunnel is up.
   (T) Lomond.Properties.C19 over Model/Proxy.lean (+ Http.parseResponse, Core.findSep, generated separator / limit).
   (K) the real `WebsocketSession.run()` (real `_connect`, `_connect_proxy`, `proxy.build_request`, `ProxyParser`,
       `Parser.feed`, `Response`, `urlparse`) is driven up to ConnectFail / Connected on a scripted socket
       (`_connect_sock` and `_wrap_socket` replaced); its ordered log of connects, writes, reads, TLS wraps and
       events is compared token by token with `Proxy.run` of the model.
   (S) oracle: a scan of the real log written from the property text (no model involved)."""
from __future__ import annotations
import base64, itertools, json, os, random, re, socket, ssl
import runner

TRUSTED = ['correspondence: harness/props/c19.py (scripted proxy socket, `_connect_sock` / `_wrap_socket` stubs, canonical log)',
           'harness/translate.py (separator and max_bytes of ProxyParser.parse)',
           'the classification of ConnectFail reasons into kinds (regexes over the reason text)',
           'composed connections: harness/linkworld.py (simulated socket module; `recv` on a silent proxy raises socket.timeout when the socket has a '
           'timeout and never returns - outcome HUNG - when settimeout(None) was called before; the model is given the code shape found by the probe '
           '`linkworld.blocks_before_tunnel()` of the real `_connect`, theorems Properties/C19_Timeout.lean; the source fact behind the pinned shape is '
           'proved separately: C19Timeout.source_has_pinned_order)']
ASSUMPTIONS = ['URLs are printable ASCII without brackets in the netloc (IPv6 literals and non-ASCII hosts are outside the urlparse model)',
               '`_connect_sock` and `_wrap_socket` are parameters (their outcome is scripted); the OS / OpenSSL are not modelled',
               'an exhausted read script stands for recv() blocking until the 30 s socket timeout (socket.timeout)',
               '`WebSocket.build_request()` is a parameter of the model (its bytes are checked by C10, here only when they are written)',
               'CPython 3.12 semantics of int() (sign, underscores, 4300-digit limit) and urlparse are modelled, not verified']

SEP = b'\r\n\r\n'
MAXB = 16 * 1024


# ---------------------------------------------------------------------------------------------
# real side

def _s(x):
    return 'N' if x is None else 's' + x.encode('utf-8').hex()


def classify_fail(reason):
    r = reason
    if r.startswith('request failed'):
        return 'request_failed'
    if r.startswith('unable to connect to proxy'):
        return 'proxy_connect'
    if r == 'unable to connect':
        return 'connect'
    if r.startswith("('proxy parse fail; {}', "):
        if 'unexpected eof' in r:
            return 'parse_eof'
        if 'expected' in r:
            return 'parse_too_long'
        return 'parse_other(%s)' % r
    m = re.match(r"^\('proxy fail; \{\} \{\}', (None|-?\d+), ", r)
    if m:
        return 'proxy_status=' + m.group(1)
    if 'simulated write failure' in r:
        return 'write_err'
    if 'simulated recv failure' in r:
        return 'read_err'
    if r == 'timed out':
        return 'timeout'
    if 'simulated TLS failure' in r:
        return 'wrap'
    if r.startswith('Port ') or r.startswith('Exceeds the limit'):
        return 'bad_port'
    if "'NoneType' object has no attribute 'encode'" in r:
        return 'no_host'
    return 'other(%s)' % r


def real_one(case):
    """run the real session on one case; returns dict(trace=str, req=hex)"""
    from lomond.websocket import WebSocket
    from lomond.session import WebsocketSession

    log = []
    intr = []          # what happened to application sends attempted while the tunnel was not up

    def intrude(where):
        # another application thread trying to send while the client negotiates with the proxy (or after it failed):
        # the call must be refused and must not reach the socket
        if not case.get('intrude'):
            return
        from lomond import errors as _errors
        for call in ((lambda: ws.send_text('intruder')), (lambda: ws.send_ping(b'i')), (lambda: ws.send_binary(b'intruder'))):
            try:
                call()
            except _errors.WebSocketError as e:
                intr.append([where, type(e).__name__])
            except Exception as e:  # noqa
                intr.append([where, 'other:' + type(e).__name__])
            else:
                intr.append([where, 'accepted'])
    reads = [tuple(r) for r in case['reads']]
    wfail = set(case['wfail'])
    st = dict(wctr=0)

    class FakeSock(object):
        def __init__(self, tls=False):
            self.tls = tls

        def fileno(self):
            return 0

        def settimeout(self, t):
            pass

        def setsockopt(self, *a):
            pass

        def shutdown(self, how):
            pass

        def close(self):
            pass

        def sendall(self, data):
            k = st['wctr']
            st['wctr'] += 1
            data = bytes(data)
            if k in wfail:
                log.append('WF:%d:%s' % (self.tls, data.hex()))
                raise socket.error(104, 'simulated write failure')
            log.append('W:%d:%s' % (self.tls, data.hex()))

        def recv(self, n):
            intrude('recv')
            if not reads:
                log.append('R:timeout')
                raise socket.timeout('timed out')
            o = reads.pop(0)
            if o[0] == 'x':
                log.append('R:err')
                raise socket.error(104, 'simulated recv failure')
            if o[0] == 't':
                log.append('R:timeout')
                raise socket.timeout('timed out')
            data = bytes.fromhex(o[1])
            if len(data) > n:
                reads.insert(0, ('d', data[n:].hex()))
                data = data[:n]
            log.append('R:' + data.hex())
            return data

        def recv_into(self, buf, n):
            raise AssertionError('recv_into before Connected')

    class Sess(WebsocketSession):
        def _connect_sock(self, host, port, ssl=False):
            log.append('C:%s:%s:%d' % (_s(host), port, 1 if ssl else 0))
            intrude('connect')
            if not case['conn']:
                self._socket_fail('unable to connect')
            return FakeSock()

        def _wrap_socket(self, sock, host):
            log.append('T:%s:%d' % (_s(host), 1 if case['wrap'] else 0))
            intrude('wrap')
            if not case['wrap']:
                raise ssl.SSLError('simulated TLS failure')
            return FakeSock(tls=True)

    saved = {k: os.environ.get(k) for k in ('HTTP_PROXY', 'HTTPS_PROXY', 'http_proxy', 'https_proxy')}
    try:
        if case.get('via_env'):
            for k, ent in (('HTTP_PROXY', 'http'), ('HTTPS_PROXY', 'https')):
                os.environ.pop(k, None)
                if case['proxies'].get(ent) is not None:
                    os.environ[k] = case['proxies'][ent]
            proxies = None
        else:
            proxies = dict(case['proxies'])
            # an explicit mapping (also an empty one) switches environment detection off: whatever the environment says must be ignored
            os.environ['HTTP_PROXY'] = 'http://env-proxy.example:9999'
            os.environ['HTTPS_PROXY'] = 'http://env-proxy.example:9998'
            os.environ['http_proxy'] = 'http://env-proxy.example:9997'
            os.environ['https_proxy'] = 'http://env-proxy.example:9996'
        try:
            ws = WebSocket(case['url'], proxies=proxies)
        except ValueError:
            return dict(trace='CTOR:ValueError', req='')
    finally:
        for k, v in saved.items():
            if v is None:
                os.environ.pop(k, None)
            else:
                os.environ[k] = v
    gen = ws.connect(session_class=Sess)
    req = bytes(ws.build_request())
    n = 0
    for ev in gen:
        n += 1
        if ev.name == 'connecting':
            log.append('E:connecting')
        elif ev.name == 'connect_fail':
            log.append('E:connect_fail:' + classify_fail(ev.reason))
            intrude('connect_fail')
            break
        elif ev.name == 'connected':
            log.append('E:connected:' + _s(ev.proxy))
            break
        else:
            log.append('E:?' + ev.name)
            break
        if n > 4:
            break
    gen.close()
    return dict(trace=' '.join(log), req=req.hex(), intr=intr)


def model_line(case, reqhex):
    def ent(k):
        v = case['proxies'].get(k)
        return '-' if v is None else v.encode('ascii').hex()
    cfg = ['url=' + case['url'].encode('ascii').hex(), 'http=' + ent('http'), 'https=' + ent('https'), 'req=' + reqhex,
           'conn=%d' % (1 if case['conn'] else 0), 'wfail=' + (','.join(str(k) for k in sorted(case['wfail'])) or '-'),
           'wrap=%d' % (1 if case['wrap'] else 0)]
    rd = []
    for r in case['reads']:
        rd.append('d' + r[1] if r[0] == 'd' else r[0])
    return 'proxy ' + ' '.join(cfg) + ' | ' + ' '.join(rd)


# ---------------------------------------------------------------------------------------------
# generation

WS_SCHEMES = ['ws', 'wss', 'ws', 'wss', 'WS', 'Wss', 'http', 'wsx']
HOSTS = ['example.com', 'EXAMPLE.org', '10.0.0.7', 'localhost', 'a-b.c-d.io', 'x', 'Host.Example.COM']
WS_PORTS = [None, None, '80', '443', '8080', '0', '65535', '1', '08080', '']
BAD_PORTS = ['65536', '8o80', '-1', '99999', '+80']
PATHS = ['', '/', '/chat', '/chat?x=1', '?q=1', '/a/b#frag', '#f']
PX_SCHEMES = ['http', 'http', 'https', 'HTTP', 'Https', 'socks5', 'ws']
PX_CREDS = [None, None, None, 'user', 'user:pw', 'user:', ':pw', 'u%40x:p%3Aw', 'a@b:c', 'U:P:Q']
PX_PORTS = [None, '3128', '8080', '80', '443', '0', '65535', '']


def mk_url(scheme, creds, host, port, path):
    return (scheme + '://' if scheme is not None else '') + (creds + '@' if creds is not None else '') + host + \
        (':' + port if port is not None else '') + path


def want_port(port, default):
    """port rule of the property text: given port, or the scheme default; 'error' when it is not a port"""
    if port is None or port == '':
        return default
    if not (port.isdigit() and port.isascii()) or len(port) > 4300 or int(port) > 65535:
        return 'error'
    return int(port) or default


def gen_target(rng, bad=False):
    scheme = rng.choice(WS_SCHEMES)
    host = rng.choice(HOSTS) if rng.random() >= 0.03 else ''
    port = rng.choice(BAD_PORTS) if bad else rng.choice(WS_PORTS)
    creds = rng.choice([None, None, None, 'me:secret'])
    url = mk_url(scheme, creds, host, port, rng.choice(PATHS))
    secure = scheme.lower() == 'wss'
    return url, dict(secure=secure, host=(host.lower() or None), port=want_port(port, 443 if secure else 80))


def gen_proxy(rng, bad=False, odd=False):
    if odd:
        # shapes a user might type; urlparse reads them in its own way: correspondence only, no host/port oracle
        url = rng.choice(['proxy.example:3128', 'proxy.example', '//proxy.example:3128', 'http:/proxy.example:3128',
                          'http://:3128', 'http://user@:3128', 'http://proxy.example:3128:1', 'http://h%Zone:81',
                          'localhost:8080', 'http:///x', 'http://?q', 'http://#'])
        return url, dict(exact=False)
    scheme = rng.choice(PX_SCHEMES)
    host = rng.choice(HOSTS + ['proxy.example', '127.0.0.1'])
    creds = rng.choice(PX_CREDS)
    port = rng.choice(BAD_PORTS) if bad else rng.choice(PX_PORTS)
    url = mk_url(scheme, creds, host, port, rng.choice(['', '', '/', '/x?y']))
    https = scheme.lower() == 'https'
    user = pw = None
    if creds is not None:
        # property text: credentials of the URL = text before the last '@', split at the first ':'
        user, colon, pw = creds.partition(':')
        if not colon:
            pw = None
    auth = None
    if user:
        auth = base64.b64encode((user if pw is None else user + ':' + pw).encode()).decode()
    return url, dict(exact=True, host=host.lower(), port=want_port(port, 443 if https else 80), ssl=https, auth=auth)


def hdr_lines(rng):
    out = b''
    for _ in range(rng.choice([0, 0, 1, 2, 4])):
        out += rng.choice([b'Proxy-Agent: x/1.0', b'Via: 1.1 p', b'X-Pad: ' + b'p' * rng.randint(0, 60), b'Connection: keep-alive',
                           b' folded', b'NoColon', b'\xff\xfe: \x80']) + b'\r\n'
    return out


def gen_reply(rng):
    """returns (bytes, expect, class): expect in up | fail | either (ambiguous 'is this status 200?')"""
    k = rng.random()
    ver = rng.choice([b'HTTP/1.1', b'HTTP/1.0', b'HTTP/1.1', b'http/2', b'X'])
    if k < 0.30:
        reason = rng.choice([b' Connection established', b' OK', b'', b' ', b'  Tunnel  up '])
        sp = rng.choice([b' ', b' ', b'  ', b'\t'])
        data = ver + sp + b'200' + reason + b'\r\n' + hdr_lines(rng) + b'\r\n'
        tail = rng.choice([b'', b'', b'', b'\x16\x03\x01', b'HTTP/1.1 407 no\r\n\r\n', b'\r\n'])
        return data + tail, 'up', '200'
    if k < 0.50:
        code = rng.choice([b'100', b'101', b'199', b'201', b'204', b'301', b'302', b'400', b'403', b'404', b'407', b'500', b'502', b'503',
                           b'2000', b'20', b'0', b'-200', b'2', b'020'])
        return ver + b' ' + code + b' Nope\r\n' + hdr_lines(rng) + b'\r\n', 'fail', 'status'
    if k < 0.58:
        tok, exp = rng.choice([(b'+200', 'either'), (b'0200', 'either'), (b'2_00', 'either'), (b'00200', 'either'),
                               (b'200.0', 'fail'), (b'2e2', 'fail'), (b'200\x00', 'fail'), (b'\xb2\xb0\xb0', 'fail'), (b'_200', 'fail'),
                               (b'200_', 'fail'), (b'2__00', 'fail'), (b'0x200', 'fail'), (b'0' * 4298 + b'200', 'fail'),
                               (b'0' * 4297 + b'200', 'either'), (b'200OK', 'fail'), (b'\x1c200', 'fail'), (b'\x0b200', 'either')])
        sp = b' '
        if tok == b'\x0b200':
            tok, sp = b'200', b' \x0b'
        return ver + sp + tok + b' x\r\n' + hdr_lines(rng) + b'\r\n', exp, 'odd-status'
    if k < 0.64:
        return rng.choice([b'HTTP/1.1\r\n\r\n', b'\r\n\r\n', b'200\r\n\r\n', b'200 OK\r\n\r\n', b' \r\n\r\n', b'\r\nHTTP/1.1 200 OK\r\n\r\n',
                           b'HTTP/1.1 OK 200\r\n\r\n', b'HTTP/1.1\t\r\n200: 200\r\n\r\n']), 'fail', 'no-status'
    if k < 0.76:
        good = b'HTTP/1.1 200 Connection established\r\n' + hdr_lines(rng) + b'\r\n'
        m = rng.random()
        if m < 0.4:
            data = good[:rng.randint(0, len(good) - 1)]
        elif m < 0.6:
            data = good.replace(b'\r\n', b'\n')
        elif m < 0.8:
            data = good[:-2] + rng.choice([b'\n', b'\r', b'\r\r\n', b' \r\n'.replace(b'\r\n', b'\r')])
        else:
            data = good[:-4] + b'\r\n \r\n' * rng.randint(1, 3)
            data = data[:-2] if data.endswith(SEP) else data
        if SEP in data:
            data = data.replace(SEP, b'\r\n')
        return data, 'fail', 'unterminated'
    if k < 0.90:
        # around the 16 KiB limit
        total = rng.choice([MAXB - 1, MAXB, MAXB, MAXB + 1, MAXB + 1, MAXB + 2, MAXB + 3, MAXB + 4, MAXB + 700, 20000])
        head = b'HTTP/1.1 200 OK\r\nX-Pad: '
        pad = total - len(head) - 4
        data = head + b'p' * pad + SEP
        assert len(data) == total
        if rng.random() < 0.3:
            return data[:-4] + b'q' * rng.randint(4, 2000), 'fail', 'oversize-unterminated'
        return data, ('up' if total <= MAXB else 'fail'), 'limit'
    if k < 0.95:
        return b'', 'fail', 'empty'
    n = rng.choice([1, 3, 7, 40, 300, 1500])
    data = bytes(rng.choice([13, 10, 13, 10, 32, 50, 48, 72, rng.randrange(256)]) for _ in range(n))
    exp = 'fail'
    if SEP in data:
        exp = 'either'
    return data, exp, 'garbage'


def segment(rng, data, mode=None):
    """cut into recv() results of 1..1024 bytes"""
    if not data:
        return []
    mode = mode or rng.choice(['whole', 'whole', 'bytes', 'random', 'random', 'sep'])
    cuts = set()
    if mode == 'bytes' and len(data) <= 200:
        cuts = set(range(1, len(data)))
    elif mode == 'random':
        for _ in range(rng.choice([1, 2, 5, 12])):
            if len(data) > 1:
                cuts.add(rng.randrange(1, len(data)))
    elif mode == 'sep':
        i = data.find(SEP)
        if i >= 0:
            for j in range(1, 4):
                if rng.random() < 0.6 and 0 < i + j < len(data):
                    cuts.add(i + j)
            if rng.random() < 0.5 and 0 < i + 4 < len(data):
                cuts.add(i + 4)
    pts = [0] + sorted(cuts) + [len(data)]
    out = []
    for a, b in zip(pts, pts[1:]):
        piece = data[a:b]
        while len(piece) > 1024:
            k = rng.choice([1024, 1024, 1000, 512]) if len(piece) > 2000 else 1024
            out.append(piece[:k])
            piece = piece[k:]
        if piece:
            out.append(piece)
    return out


def gen_case(rng, force=None):
    force = force or {}
    bad_target = rng.random() < 0.03
    url, tmeta = gen_target(rng, bad=bad_target)
    odd = rng.random() < 0.06
    bad_px = rng.random() < 0.06
    purl, pmeta = gen_proxy(rng, bad=bad_px, odd=odd)
    key = 'https' if tmeta['secure'] else 'http'
    other = 'http' if tmeta['secure'] else 'https'
    proxies = {}
    r = rng.random()
    if r < 0.80:
        proxies[key] = purl
    elif r < 0.86:
        proxies[key] = ''
    elif r < 0.92:
        proxies[key] = None
    # the entry of the other scheme must be irrelevant
    ro = rng.random()
    if ro < 0.3:
        proxies[other] = gen_proxy(rng)[0]
    elif ro < 0.4:
        proxies[other] = ''
    elif ro < 0.5:
        proxies[other] = None
    reply, expect, rcls = gen_reply(rng)
    chunks = segment(rng, reply)
    reads = [['d', c.hex()] for c in chunks]
    # what follows the reply bytes
    stop = rng.choice(['eof', 'eof', 'x', 't', 'none', 'more'])
    if stop == 'eof':
        reads.append(['d', ''])
    elif stop == 'x':
        reads.append(['x'])
    elif stop == 't':
        reads.append(['t'])
    elif stop == 'more':
        reads.append(['d', rng.choice([b'\r\n\r\n', b'HTTP/1.1 200 OK\r\n\r\n', b'zz', b'\n']).hex()])
    # an error in the middle of the reply
    cut_at = None
    if reads and rng.random() < 0.12:
        cut_at = rng.randrange(len(reads))
        reads[cut_at:] = [rng.choice([['x'], ['t'], ['d', '']])]
    wfail = []
    e = rng.random()
    if e < 0.05:
        wfail = [0]
    elif e < 0.10:
        wfail = [1]
    elif e < 0.12:
        wfail = [0, 1]
    case = dict(url=url, proxies=proxies, via_env=rng.random() < 0.1,
                conn=rng.random() >= 0.05, wfail=wfail, wrap=rng.random() >= 0.1, reads=reads)
    case.update(force)
    case['meta'] = dict(target=tmeta, proxy=pmeta, purl=purl, key=key, reply_cls=rcls, reply_expect=expect, reply=reply.hex(),
                        stop=stop, cut_at=cut_at)
    return case


def with_reply(rng, reply, expect, rcls, chunks, secure=False, tail=(['d', ''],), **kw):
    """a plain case around a given reply / segmentation"""
    url = 'wss://target.example/chat' if secure else 'ws://target.example:8080/chat'
    purl = 'http://user:pw@proxy.example:3128'
    key = 'https' if secure else 'http'
    case = dict(url=url, proxies={key: purl}, via_env=False, conn=True, wfail=[], wrap=True,
                reads=[['d', c.hex()] for c in chunks] + [list(t) for t in tail])
    case.update(kw)
    case['meta'] = dict(target=dict(secure=secure, host='target.example', port=443 if secure else 8080),
                        proxy=dict(exact=True, host='proxy.example', port=3128, ssl=False, auth=base64.b64encode(b'user:pw').decode()),
                        purl=purl, key=key, reply_cls=rcls, reply_expect=expect, reply=reply.hex(), stop='eof', cut_at=None)
    return case


# ---------------------------------------------------------------------------------------------
# the oracle: a scan of the real log (nothing from the model)

def liberal_200(rx):
    """has a reply with status 200 been completed by these received bytes?  (yes | no | maybe)"""
    i = rx.find(SEP)
    if i < 0:
        return 'no'
    head = rx[:i + 4]
    if len(head) > MAXB:
        return 'no'
    toks = head.split(b'\r\n')[0].split()
    if len(toks) < 2:
        return 'no'
    t = toks[1]
    if t == b'200':
        return 'yes'
    m = re.fullmatch(rb'[+]?([0-9]+(?:_[0-9]+)*)', t)
    if m and m.group(1).replace(b'_', b'').lstrip(b'0') == b'200':
        return 'maybe'          # numerically 200, written unusually
    return 'no'


def looks_like_handshake(data, req):
    return data == req or b'Sec-WebSocket-Key' in data or b'Upgrade: websocket' in data or data.startswith(b'GET ') or \
        (len(data) > 0 and data in req and len(data) > 8)


def judge(res, case, out):
    trace, req = out['trace'], bytes.fromhex(out['req'])
    meta = case['meta']
    tk = trace.split(' ') if trace else []

    def fail(cls, what, expected=None):
        res.failures.append(dict(cls=cls, what=what, input=case, observed=[t[:160] for t in tk][:40], expected=expected))

    bad = [x for x in out.get('intr', []) if x[1] == 'accepted' or x[1].startswith('other:')]
    if bad:
        return fail('sent-before-tunnel', 'an application send attempted during %s (before the tunnel was up / after the proxy failed) was %s instead of being refused' % (bad[0][0], bad[0][1]))
    if out.get('intr'):
        res.count('intrusions_refused', len(out['intr']))
    tm, pm = meta['target'], meta['proxy']
    if tm['port'] == 'error':
        if trace != 'CTOR:ValueError':
            fail('bad-target-port', 'WebSocket() accepted a URL whose port is not a port')
        return
    if trace == 'CTOR:ValueError':
        return fail('ctor', 'WebSocket() rejected a well-formed URL')
    events = [t for t in tk if t.startswith('E:')]
    if not events or events[0] != 'E:connecting' or tk[0] != 'E:connecting':
        return fail('events', 'first thing is not Connecting')
    if len(events) != 2 or not events[1].startswith(('E:connect_fail:', 'E:connected:')) or tk[-1] != events[1]:
        return fail('events', 'expected exactly Connecting then ConnectFail|Connected as the last item: %s' % events)
    connected = events[1].startswith('E:connected:')
    connects = [t for t in tk if t.startswith('C:')]
    writes = [(i, t) for i, t in enumerate(tk) if t.startswith(('W:', 'WF:'))]
    wraps = [(i, t) for i, t in enumerate(tk) if t.startswith('T:')]
    entry = case['proxies'].get(meta['key'])
    # ---- R4: choice ------------------------------------------------------------------------
    if not entry:
        want = 'C:%s:%d:%d' % (_s(tm['host']), tm['port'], 1 if tm['secure'] else 0)
        if connects != [want]:
            return fail('choice', 'no proxy entry for the scheme: expected a direct connection to the target', want)
        if any(b'CONNECT' in bytes.fromhex(t.split(':')[2]) for _, t in writes) or any(t.startswith('R:') for t in tk):
            return fail('choice', 'proxy dialogue without a proxy entry for the scheme')
        if connected and events[1] != 'E:connected:N':
            return fail('reports-proxy', 'Connected reports a proxy on a direct connection')
        if connected != (case['conn'] and 0 not in case['wfail']):
            return fail('direct', 'direct connection outcome')
        return
    # ---- proxy configured ------------------------------------------------------------------
    if pm['exact']:
        if pm['port'] == 'error':
            if connected or connects or writes:
                return fail('bad-proxy-port', 'I/O although the proxy URL has no usable port')
            return
        want = 'C:%s:%d:%d' % (_s(pm['host']), pm['port'], 1 if pm['ssl'] else 0)
        if connects != [want]:
            return fail('connects', 'must connect to the proxy and to nothing else', want)
    else:
        if len(connects) > 1:
            return fail('connects', 'more than one connection')
    if connects and tk[1] != connects[0]:
        return fail('order', 'the connection to the proxy is not the first I/O')
    if tm['host'] is None:
        # a URL without a host names no target: no request can be formed
        if connected or writes:
            return fail('no-target-host', 'something was written although the URL names no host')
        return
    # R1: first write = CONNECT naming the target, on the plain socket, before any read
    if writes:
        i0, w0 = writes[0]
        tls0, data0 = w0.split(':')[1], bytes.fromhex(w0.split(':')[2])
        line = b'CONNECT %s:%d HTTP/1.1\r\n' % (tm['host'].encode(), tm['port'])
        if not data0.startswith(line):
            return fail('connect-line', 'first write is not a CONNECT naming the target', line.decode())
        if not data0.endswith(SEP) or data0.count(SEP) != 1 or tls0 != '0':
            return fail('connect-shape', 'CONNECT request is not one plain header block')
        if looks_like_handshake(data0, req):
            return fail('handshake-early', 'handshake bytes inside the CONNECT write')
        if any(t.startswith(('R:', 'T:')) for t in tk[:i0]):
            return fail('order', 'read or wrap before the CONNECT request')
        if pm['exact'] and pm['auth'] is not None and (b'Basic ' + pm['auth'].encode()) not in data0:
            return fail('credentials', 'credentials of the proxy URL are not in the CONNECT request')
        if pm['exact'] and pm['auth'] is None and b'Basic' in data0:
            return fail('credentials', 'credentials sent although the URL has no user')
    # R1: nothing further is written until a 200 reply has been completed by the reads
    rx = b''
    seen_write = False
    for i, t in enumerate(tk):
        if t.startswith('R:') and t not in ('R:err', 'R:timeout'):
            rx += bytes.fromhex(t[2:])
        elif t.startswith(('W:', 'WF:')):
            if seen_write and liberal_200(rx) == 'no':
                return fail('write-before-200', 'write #%d happened before a 200 reply was complete' % i)
            seen_write = True
        elif t.startswith('T:'):
            if liberal_200(rx) == 'no':
                return fail('wrap-before-200', 'TLS started before a 200 reply was complete')
    if len(writes) > 2:
        return fail('writes', 'more than two writes before Connected')
    # reads stop once the reply is complete (nothing of the target's stream is consumed by the proxy phase)
    # ---- expected outcome by construction -----------------------------------------------------
    exp = expected_outcome(case)
    if exp == 'either':
        verdict = liberal_200(rx)
        if connected and verdict == 'no':
            return fail('connected-without-200', 'Connected although no 200 reply was received')
    elif exp == 'connected':
        if not connected:
            return fail('good-reply-refused', 'a 200 reply did not bring the tunnel up: %s' % events[1])
    else:
        if connected:
            return fail('connected-on-failure', 'Connected although the tunnel must fail (%s)' % exp)
    if connected:
        if events[1] != 'E:connected:' + _s(entry):
            return fail('reports-proxy', 'Connected does not report the proxy', _s(entry))
        if len(writes) != 2 or not writes[1][1].startswith('W:%d:' % (1 if tm['secure'] else 0)) or bytes.fromhex(writes[1][1].split(':')[2]) != req:
            return fail('handshake', 'after the tunnel: exactly the upgrade request, through TLS iff wss')
        if tm['secure']:
            if len(wraps) != 1 or wraps[0][1] != 'T:%s:1' % _s(tm['host']) or not (writes[0][0] < wraps[0][0] < writes[1][0]):
                return fail('tls', 'wss through a proxy: TLS to the target host after the tunnel, before the request')
        elif wraps:
            return fail('tls', 'TLS wrap on a ws:// target')
    else:
        if exp not in ('request_failed', 'either', 'connected'):
            # the tunnel did not come up: not a byte of the handshake
            if len(writes) > 1:
                return fail('handshake-on-failure', 'a second write although the tunnel failed')
            for _, w in writes:
                if looks_like_handshake(bytes.fromhex(w.split(':')[2]), req):
                    return fail('handshake-on-failure', 'handshake bytes written although the tunnel failed')
        if exp == 'request_failed' and events[1] != 'E:connect_fail:request_failed':
            return fail('fail-kind', 'failed request write not reported as such')


def expected_outcome(case):
    """from the construction of the case (not from any run)"""
    meta = case['meta']
    pm = meta['proxy']
    if pm['exact'] and pm['port'] == 'error':
        return 'fail:port'
    if not case['conn']:
        return 'fail:connect'
    if 0 in case['wfail']:
        return 'fail:write'
    # which bytes arrive before the first stop
    rx = b''
    complete = None
    for r in case['reads']:
        if r[0] != 'd' or r[1] == '':
            break
        rx += bytes.fromhex(r[1])
        if SEP in rx:
            break
    reply = bytes.fromhex(meta['reply'])
    i = reply.find(SEP)
    exp = meta['reply_expect']
    if exp == 'up':
        if i < 0 or len(rx) < i + 4:
            return 'fail:cut'
    elif exp == 'fail':
        # later scripted bytes could complete something else only if they contain a separator; be conservative
        if SEP in rx and not reply.startswith(rx[:rx.find(SEP) + 4]):
            return 'either'
        return 'fail:reply'
    else:
        return 'either'
    if not pm['exact']:
        return 'either'
    if meta['target']['secure'] and not case['wrap']:
        return 'fail:wrap'
    if 1 in case['wfail']:
        return 'request_failed'
    return 'connected'


# ---------------------------------------------------------------------------------------------

def run_cases(res, cases, model_ok, label):
    for i, c in enumerate(cases):
        c['intrude'] = (i % 2 == 1)
    outs = runner.parallel_map('props.c19', 'real_one', cases)
    good = []
    for c, o in zip(cases, outs):
        if '__crash__' in o:
            res.crashes.append(o)
        else:
            good.append((c, o))
    lines = [model_line(c, o['req']) for c, o in good]
    models = runner.model_run(lines) if model_ok else [None] * len(lines)
    for (c, o), line, m in zip(good, lines, models):
        entry = c['proxies'].get(c['meta']['key'])
        res.case((c['url'], sorted(c['proxies'].items(), key=str), c['conn'], c['wfail'], c['wrap'], c['reads']), nontrivial=bool(entry))
        res.count(label)
        res.count('reply:' + c['meta']['reply_cls'] if entry else 'direct')
        last = o['trace'].split(' ')[-1]
        res.count('outcome:' + (('connected:via-proxy' if not last.endswith(':N') else 'connected:direct') if last.startswith('E:connected') else last.split('=')[0][:40]))
        res.traces_validated += 1
        if m is not None and m != o['trace']:
            res.diffs.append(dict(input=line[:4000], real=o['trace'][:4000], model=m[:4000], case=c))
        judge(res, c, o)
    return list(zip(lines, [o['trace'] for _, o in good]))


def explore(res, tier, seed, model_ok=True):
    import gencheck   # differential test of the translated code (Generated/Code.lean) against the original Python
    gencheck.run(res, 'C19', tier, seed, model_ok)
    rng = random.Random(seed)
    thorough = tier == 'thorough'
    res.rule = ('generated: target URL (ws/wss, case, port given/absent/0/empty/bad, userinfo, path shapes) x proxies mapping (entry for the scheme: URL / "" / None / missing; '
                'other scheme entry arbitrary; 10% through HTTP_PROXY/HTTPS_PROXY) x proxy URL (http/https/other scheme, credentials shapes, port defaults, bad ports, odd shapes) '
                'x reply (200 variants, other statuses, odd status tokens, no status, unterminated, around the 16384 limit, empty, garbage) x segmentation '
                '(whole, bytewise, random, inside the separator; recv <= 1024) x what follows (EOF, socket error, timeout, silence, more bytes) x failures at connect, '
                'CONNECT write, any recv, TLS wrap, request write; in every second case application sends (text, ping, binary) are attempted at every socket call of the negotiation and at ConnectFail and must be refused without reaching the socket; exhaustive: every status code 0..999, every 1- and 2-cut segmentation of a 200 and a 407 reply, '
                'every position of EOF/error/timeout in a segmented reply, every header length 16380..16390; non-trivial = a proxy entry is configured for the scheme; '
                'distinct by (url, mapping, environment, reads); plus composed connections (harness/linkworld.py): http:// proxy x address outcomes of the '
                'proxy x reply classes x a random core history (handshake, frames, faults, reactions) run through the real _connect/_connect_proxy/_connect_sock and the '
                'whole session loop, compared with the composed model `link`, oracle = no websocket-layer write before CONNECT + complete 200')
    n = 25000 if thorough else 700
    cases = [gen_case(rng) for _ in range(n)]
    pairs = run_cases(res, cases, model_ok, 'generated')
    res.samples += [p[0][:400] for p in pairs[:3]]

    # ---- the COMPOSED connection (Model/ConnectLink.lean, Properties/C19_Core.lean): the real `run()` with the real
    # `_connect` / `_connect_proxy` / `_connect_sock` through a whole connection (address loop, CONNECT dialogue, then upgrade,
    # frames, timers, close) against `ConnectLink.composed`; oracle: C19's text over the composed trace --------------------
    import linkworld
    linkworld.explore_stream(res, rng, 'proxy', 6000 if thorough else 400, model_ok, 'C19')

    # ---- exhaustive sub-domains --------------------------------------------------------------------
    ex = []
    for code in range(1000):
        reply = b'HTTP/1.1 %d Some Reason\r\nVia: p\r\n\r\n' % code
        ex.append(with_reply(rng, reply, 'up' if code == 200 else 'fail', 'status-sweep', [reply], secure=(code % 2 == 1)))
    run_cases(res, ex, model_ok, 'exhaustive:status')
    res.exhaustive['status_codes_0_999'] = len(ex)

    ex = []
    for reply, expect in ((b'HTTP/1.1 200 OK\r\nA: b\r\n\r\n', 'up'), (b'HTTP/1.1 407 Auth\r\n\r\n', 'fail')):
        L = len(reply)
        cutsets = [()] + [(a,) for a in range(1, L)] + list(itertools.combinations(range(1, L), 2))
        if thorough:
            cutsets += list(itertools.combinations(range(1, L), 3))
        for cs in cutsets:
            pts = [0] + list(cs) + [L]
            ex.append(with_reply(rng, reply, expect, 'cuts', [reply[a:b] for a, b in zip(pts, pts[1:])], secure=(len(cs) == 2 and cs[0] % 2 == 0)))
    run_cases(res, ex, model_ok, 'exhaustive:cuts')
    res.exhaustive['all_1_2%s_cut_segmentations_of_a_200_and_a_407_reply' % ('_3' if thorough else '')] = len(ex)

    ex = []
    reply = b'HTTP/1.1 200 OK\r\nA: b\r\n\r\n'
    for step in (1, 3):
        chunks = [reply[i:i + step] for i in range(0, len(reply), step)]
        for pos in range(len(chunks) + 1):
            for stop in (['d', ''], ['x'], ['t']):
                c = with_reply(rng, reply, 'up', 'stop-sweep', chunks)
                c['reads'] = [['d', x.hex()] for x in chunks[:pos]] + [stop] + [['d', x.hex()] for x in chunks[pos:]]
                ex.append(c)
    for wf in ([0], [1], [0, 1]):
        for secure in (False, True):
            for wrap in (True, False):
                for conn in (True, False):
                    ex.append(with_reply(rng, reply, 'up', 'env-sweep', [reply], secure=secure, wfail=wf, wrap=wrap, conn=conn))
    run_cases(res, ex, model_ok, 'exhaustive:stops')
    res.exhaustive['stop_at_every_read_position_x_kinds_and_env_failures'] = len(ex)

    ex = []
    head = b'HTTP/1.1 200 OK\r\nX-Pad: '
    for total in range(MAXB - 4, MAXB + 7):
        data = head + b'p' * (total - len(head) - 4) + SEP
        for mode in ('whole', 'sep', 'random'):
            ex.append(with_reply(rng, data, 'up' if total <= MAXB else 'fail', 'limit-sweep', segment(rng, data, mode)))
        # the same number of bytes without a terminator, then the terminator
        nosep = head + b'p' * (total - len(head))
        ex.append(with_reply(rng, nosep + SEP, 'up' if total + 4 <= MAXB else 'fail', 'limit-sweep', segment(rng, nosep, 'whole') + [SEP]))
    run_cases(res, ex, model_ok, 'exhaustive:limit')
    res.exhaustive['header_lengths_around_16384'] = len(ex)
    res.samples += ['proxy url=<ws://target.example:8080/chat> http=<http://user:pw@proxy.example:3128> ... | d<HTTP/1.1 407 Auth\\r\\n\\r\\n> d']


def replay(rp):
    case = rp['input']
    if isinstance(case, dict) and case.get('kind') == 'link':
        import linkworld
        print('real: ' + linkworld.run_link_safe(case['case']))
        print('model line: ' + linkworld.link_line(case['case']))
        print('socket in blocking mode before the proxy negotiation (probe): %s' % linkworld.blocks_before_tunnel())
        return 0
    out = real_one(case)
    print('case   :', json.dumps({k: v for k, v in case.items() if k != 'meta'})[:2000])
    print('class  :', rp.get('cls'), '-', rp.get('what'))
    print('real   :', out['trace'][:3000])
    print('expect :', expected_outcome(case))
    return 0
