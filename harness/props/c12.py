"""C12 - close() is atomic with respect to other threads' sends and closes."""
from __future__ import annotations
import random
import runner, thrutil, sched
from props import c11

TRUSTED = c11.TRUSTED
ASSUMPTIONS = c11.ASSUMPTIONS + ['when the Close frame\'s own sendall is made to fail, frames written between the release of the lock and `closing = True` of close() '
                                 '(after the TORN Close frame) are counted, not judged: Properties/C12_Fail.lean proves what holds (one COMPLETE Close, nothing after it, '
                                 'close() always ends closing) and keeps the two schedules as witness theorems',
                                 'the event loop thread processes scripted server frames (Close, Ping) and timer ticks; protocol-error closes (1002) are single-threaded and belong to C04/C08']

LEANCHECK_MODULES = ['Lomond.Model.Threads', 'Lomond.Model.ThreadsN', 'Lomond.Proofs.Threads', 'Lomond.Proofs.ThreadsC', 'Lomond.Proofs.ThreadsP',
                     'Lomond.Proofs.ThreadsN', 'Lomond.Proofs.ThreadsNW', 'Lomond.Proofs.ThreadsNC', 'Lomond.Proofs.ThreadsPre']


def prog(t, kinds):
    out = []
    for i, k in enumerate(kinds):
        if k in ('cl', 'rc'):
            out.append('%s=%d,%s' % (k, 1000 + t, ('{bye} {0} {} %%s bye%d.%d' % (t, i)).encode().hex()))
        else:
            out.append(_one(t, i, k))
    return out


def _one(t, i, k):
    if k in ('st1', 'st0', 'sb1', 'sb0'):
        return '%s=%s' % (k, c11.msg(t, i))
    if k in ('pi', 'po', 'rp'):
        return '%s=%s' % (k, ('{p} {0} %%d p%d.%d' % (t, i)).encode().hex())
    if k in ('tk', 'cn'):
        return k
    raise ValueError(k)


def case(z, kinds_per_thread, pb=None, family='', n=None, fail=None):
    c = dict(z=z, progs=[prog(t, ks) for t, ks in enumerate(kinds_per_thread)], pb=pb, family=family)
    if n is not None:
        c['n'] = n
    if fail:
        c['fail'] = [list(f) for f in fail]
    return c


def socket_witnesses():
    """the window after a FAILED Close write (Properties/C12_Fail.lean torn_close_then_data / torn_close_then_close):
    T0 close() runs through its failing write and the release (9 entries), T1 runs completely, T0 sets the flag"""
    a = case(0, [['cl'], ['st0']], n=2, fail=[(0, 0, 1)])
    b = case(0, [['cl'], ['cl']], n=2, fail=[(0, 0, 1)])
    return [dict(a, mode='sync', family='witness-torn-close-then-data', schedule=[0] * 9 + [1] * 7 + [0] * 2),
            dict(b, mode='sync', family='witness-torn-close-then-close', schedule=[0] * 9 + [1] * 12 + [0] * 2)]


def socket_families(tier):
    """the general socket: close() in n chunks; a Close write (or a data write) that fails after k chunks"""
    fams = [
        case(0, [['cl'], ['st0']], n=1, family='chunks-1-close-send'),
        case(0, [['cl'], ['st0']], n=3, family='chunks-3-close-send'),
        case(0, [['cl'], ['cl']], n=3, family='chunks-3-close-close'),
        case(0, [['cl'], ['rc']], n=3, pb=3, family='chunks-3-close-serverclose'),
        case(0, [['cl'], ['st0'], ['rc']], n={'*': 2, '0.0': 4}, pb=2, family='chunks-mixed-close-send-serverclose'),
    ]
    for k in range(0, 3):
        fams.append(case(0, [['cl'], ['st0']], n=2, fail=[(0, 0, k)], family='closefail-%d-of-2-send' % k))
        fams.append(case(0, [['cl'], ['cl']], n=2, fail=[(0, 0, k)], family='closefail-%d-of-2-close' % k))
    fams.append(case(0, [['cl'], ['st0']], n=2, fail=[(1, 0, 1)], family='sendfail-close'))
    fams.append(case(0, [['cl'], ['rc']], n=2, fail=[(0, 0, 1)], pb=3, family='closefail-serverclose'))
    fams.append(case(0, [['st0'], ['rc']], n=2, fail=[(1, 0, 1)], family='echofail-send'))
    fams.append(case(0, [['cl', 'st0'], ['sb0', 'cl']], n=3, fail=[(0, 0, 2)], pb=3, family='closefail-2x2'))
    if tier != 'quick':
        fams += [
            case(0, [['cl'], ['cl'], ['st0']], n=3, fail=[(0, 0, 1)], pb=3, family='closefail-close-send'),
            case(0, [['cl'], ['st0'], ['rc']], n=3, fail=[(0, 0, 3)], pb=3, family='closefail-send-serverclose'),
            case(0, [['cl', 'cl'], ['st0', 'sb0']], n=2, fail=[(0, 0, 0)], pb=4, family='closefail-retry'),
            case(0, [['st0', 'cl', 'sb0'], ['cl', 'pi', 'st0'], ['rp', 'rc', 'tk']], n=3, fail=[(0, 1, 1), (2, 0, 2)], pb=2, family='3x3-fail'),
        ]
    return fams


def witnesses():
    """the D8 schedules at sync granularity (always part of a run)"""
    a = case(0, [['cl'], ['st0']])
    b = case(0, [['cl'], ['cl']])
    c = case(0, [['cl'], ['st0'], ['rc']])
    return [
        # T0 close() through its write and the release; T1 send_text completely; T0 sets the flag
        dict(z=0, progs=a['progs'], mode='sync', family='witness-D8-data-after-close', schedule=[0] * 9 + [1] * 7 + [0] * 2),
        # both pass `if not self.is_closing` before either writes
        dict(z=0, progs=b['progs'], mode='sync', family='witness-D8-two-closes', schedule=[0, 0, 1, 1] + [0] * 7 + [1] * 9 + [0] * 2),
        # our close() is complete; the loop reads the server's Close: closing := False ... (T1 sends) ... closed := True
        dict(z=0, progs=c['progs'], mode='sync', family='witness-D8-reply-window', schedule=[0] * 11 + [2] * 5 + [1] * 7 + [2] * 12),
    ]


def line_witnesses():
    """D8 at line granularity: T0 runs close() until the write lock has been released, then T1 runs completely"""
    out = []
    for fam, kinds in (('witness-D8-line-data-after-close', [['cl'], ['st0']]), ('witness-D8-line-two-closes', [['cl'], ['cl']])):
        c = case(0, kinds)
        cal = sched.run_real(dict(z=0, progs=[c['progs'][0]], schedule=[], mode='line'))
        at = [a for (t, k), a in zip(cal['steps'], cal['step_at']) if k == 'rel']
        if at:
            for extra in (1, 2, 3):
                out.append(dict(z=0, progs=c['progs'], mode='line', family=fam, schedule=[0] * (at[0] + extra) + [1] * 400))
    return out


def before_connect_cases(rng, tier):
    """the racing calls start BEFORE the event loop is first advanced: an application thread is somewhere inside close() / a send
    (possibly inside the write lock) while the loop thread connects, stores the socket, writes the request and reads the reply
    (loop program `cn`); then the other application thread runs.  Directed: thread 0 runs a steps, the loop connects completely,
    thread 0 runs b more steps, thread 1 runs completely, the rest is drained - for every a, b; plus uniformly random schedules;
    plus the same with the request's own sendall in 1 / 3 / 4 chunks or made to fail after k chunks (TransportFail -> ConnectFail).
    Compared with the thread model (state `initPre`, loop call `.connect`) and judged by the oracle."""
    shapes = [[['cl'], ['st0'], ['cn']], [['cl'], ['cl'], ['cn']], [['st0'], ['cl'], ['cn']], [['cl'], ['pi'], ['cn', 'rp']],
              [['cl', 'st0'], ['sb0'], ['cn', 'rp']]]
    out = []
    for kinds in shapes:
        c = case(0, kinds)
        loop = len(kinds) - 1
        for a in range(0, 9):
            for b in range(0, 9):
                out.append(dict(z=0, progs=c['progs'], mode='sync', family='before-connect',
                                schedule=[0] * a + [loop] * 40 + [0] * b + [1] * 30))
        for _ in range(40 if tier == 'quick' else 600):
            out.append(dict(z=0, progs=c['progs'], mode='sync', family='before-connect-random',
                            schedule=[rng.randrange(len(kinds)) for _ in range(90)]))
    # the socket of the request write: chunks, failures (key "<loop>.0" = the request)
    for kinds in shapes[:1] + shapes[3:4]:
        c = case(0, kinds)
        loop = len(kinds) - 1
        socks = [dict(n=1), dict(n=3), dict(n={'*': 2, '%d.0' % loop: 4}), dict(n=2, fail=[[loop, 0, 0]]), dict(n=2, fail=[[loop, 0, 1]]),
                 dict(n=3, fail=[[loop, 0, 2]]), dict(n=2, fail=[[0, 0, 1]])]
        for sk in socks:
            for a in (range(0, 9) if tier != 'quick' else (0, 2, 3, 5, 8)):
                for la in (2, 6, 40):
                    out.append(dict(z=0, progs=c['progs'], mode='sync', family='before-connect-socket',
                                    schedule=[0] * a + [loop] * la + [1] * 4 + [loop] * 40 + [0] * 10 + [1] * 30, **sk))
            for _ in range(10 if tier == 'quick' else 150):
                out.append(dict(z=0, progs=c['progs'], mode='sync', family='before-connect-socket-random',
                                schedule=[rng.randrange(len(kinds)) for _ in range(90)], **sk))
    return out


def families(tier):
    fams = socket_families(tier) + [
        case(0, [['cl'], ['st0']], family='close-send'),
        case(0, [['cl'], ['sb0']], family='close-send'),
        case(0, [['cl'], ['pi']], family='close-ping'),
        case(1, [['cl'], ['st1']], family='close-send-deflate'),
        case(0, [['cl'], ['cl']], family='close-close'),
        case(0, [['st0'], ['rc']], family='send-serverclose'),
        case(0, [['cl'], ['rc']], pb=3, family='close-serverclose'),
        case(0, [['cl'], ['rp']], family='close-autopong'),
        case(0, [['cl'], ['tk']], family='close-autoping'),
        case(0, [['cl', 'st0'], ['sb0', 'cl']], pb=3, family='close-send-2x2'),
        case(0, [['cl'], ['st0'], ['rc']], pb=2, family='close-send-serverclose'),
        case(0, [['cl'], ['cl'], ['st0']], pb=2, family='close-close-send'),
    ]
    if tier != 'quick':
        fams += [
            case(0, [['cl'], ['rc']], pb=5, family='close-serverclose'),
            case(0, [['cl', 'st0'], ['sb0', 'cl']], pb=4, family='close-send-2x2'),
            case(0, [['cl'], ['st0'], ['rc']], pb=3, family='close-send-serverclose'),
            case(0, [['cl'], ['cl'], ['st0']], pb=3, family='close-close-send'),
            case(0, [['cl'], ['cl'], ['rc']], pb=2, family='close-close-serverclose'),
            case(0, [['st0', 'cl', 'sb0'], ['cl', 'pi', 'st0'], ['rp', 'rc', 'tk']], pb=2, family='3x3'),
            case(1, [['st1', 'cl'], ['sb1', 'st1'], ['rc', 'rp']], pb=2, family='3-deflate'),
            case(0, [['cl', 'cl'], ['st0', 'sb0']], pb=4, family='close-close-send'),
        ]
    return fams


def line_cases(rng, n):
    shapes = [(0, [['cl'], ['st0']]), (0, [['cl'], ['cl']]), (0, [['cl'], ['st0'], ['rc']]), (0, [['cl', 'st0'], ['sb0', 'cl']]),
              (0, [['cl'], ['rp', 'tk']]), (0, [['st0'], ['rc', 'rp']]), (1, [['cl'], ['st1'], ['cl']]), (0, [['cl'], ['pi'], ['rc']])]
    out = []
    for k in range(n):
        z, kinds = shapes[k % len(shapes)]
        c = case(z, kinds)
        extra = {}
        if k % 3 == 1:
            extra['n'] = 1 + k % 4
        if k % 4 == 2:
            extra['n'] = 3
            extra['fail'] = [[0, 0, k % 4]]
        out.append(dict(z=z, progs=c['progs'], mode='line', family='line-sample',
                        schedule=thrutil.random_line_schedule(rng, len(kinds), max(len(p) for p in kinds)), **extra))
    return out


def explore(res, tier, seed, model_ok=True):
    import gencheck   # differential test of the translated code (Generated/Code.lean) against the original Python
    gencheck.run(res, 'C12', tier, seed, model_ok)
    rng = random.Random(seed)
    quick = tier == 'quick'
    fams = families(tier)
    res.rule = ('real lomond under the deterministic scheduler of C11 (sendall in n chunks, n = 1..4; sendalls - of the Close frame itself, of data frames, of the loop\'s echo - '
                'made to fail after k chunks): (a) the D8 witness schedules (data after Close, two Closes, the reply window), at sync and at line '
                'granularity, and the two schedules of the window after a FAILED Close write; (b) for each family - close() against send_text/send_binary/send_ping/close() on other threads and against the event loop '
                '(echo of a server Close, completion of our own close by the server\'s Close, auto-pong, auto-ping), 2-3 threads - EVERY maximal interleaving at '
                'sync-step granularity up to the stated preemption bound, enumerated by the model driver and executed on the real code; (c) 300 (quick) / 3000 uniformly random sync-granularity schedules that also schedule threads waiting for the lock; (d) %d sampled '
                'line-granularity schedules; (e) calls that start BEFORE the event loop is first advanced, racing with the loop thread\'s connect / request / reply (directed and random schedules, the request\'s own sendall in 1-4 chunks or failing; thread model started in `initPre` with loop call `.connect`; runs in which a send is attempted on the socket the loop has just shut down after a FAILED request write - TransportFail, nothing written, in the model as in the code - are compared like all others and counted).  Model and real code compared on the executed step log, chunks, results, flags.  Oracle: reference decoder on the '
                'bytes written: <= 1 complete Close, nothing (not even a partial frame) after it, a send is on the wire iff it returned ok, losers raised a WebSocketError '
                '(TransportFail exactly where the socket was made to fail), a close() that has returned leaves the websocket closing or closed.  '
                'non-trivial = some thread was preempted; distinct by (programs, executed step sequence)') % (120 if quick else 1500)
    cases = witnesses() + line_witnesses() + socket_witnesses()
    enum = thrutil.enumerate_cases(fams, model_ok, rng, cap=None if not quick else 6000)
    for f in fams:
        res.exhaustive['sync_interleavings %s z=%d pb=%s [%s]' % (f['family'], f['z'], f.get('pb') or 'none', thrutil.progs_str(f)[:60])] = f.get('n_schedules', 0)
    cases += enum
    cases += thrutil.random_sync_cases(rng, fams, 300 if quick else 3000)
    cases += line_cases(rng, 120 if quick else 1500)
    pre = before_connect_cases(rng, tier)
    res.exhaustive['before_connect: thread 0 a steps, the loop connects, thread 0 b steps, thread 1 (every a, b in 0..8; 5 program shapes)'] = sum(1 for c in pre if c['family'] == 'before-connect')
    cases += pre
    thrutil.run_and_compare(res, cases, thrutil.judge_close, model_ok)
    res.samples += [dict(programs=thrutil.progs_str(c), z=c['z'], mode=c['mode'], schedule=''.join(map(str, c['schedule']))[:120]) for c in cases[:4] + cases[-2:]]
    seen = {f['cls'] for f in res.failures}
    for cls in ('data-after-close', 'two-closes'):
        if cls not in seen:
            res.notes.append('the D8 witness schedules no longer produce %s' % cls)


def replay(rp):
    return thrutil.replay(rp)
