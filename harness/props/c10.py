"""C10 - Ready is granted only for a correct upgrade reply to a well-formed request.

   (T) Lomond.Properties.C10 (model: Model/Http.lean, Model/Handshake.lean, Model/Core.lean header phase)
   (K) three correspondence layers, all real-vs-model on the same operation lines:
         1. `http resp`  : lomond.response.Response + WebSocket.on_response  vs  Http.parseResponse/onResponse
         2. `http req`   : the request bytes actually written by connect() (several connects on one object,
                           os.urandom replaced by a logged counter-based source)  vs  Http.buildRequest
         3. `core`       : whole connections (reply variants x segmentation x trailing frames x 16 KiB
                           boundary) through harness/world.py  vs  the core model
         4. `http sha1` / `http accept` / `http keyof` : the model's SHA-1 and accept value (Model/Sha1.lean,
                           Handshake.acceptFor) vs hashlib/base64 as on_response spells them, on every key of
                           layers 1-3 and on random byte strings of every length 0..200; the model's accept value
                           is also put in front of the real on_response (must be granted Ready, a changed one not).
       No operation line carries the expected accept value: the model computes it from the key (`http resp`)
       resp. from the key it reads out of the request bytes (`core`).
   (S) oracle, independent of the model: hashlib/base64 digest of the key parsed out of the request that
       was really written (RFC 6455 4.2.2), a small RFC 7230 reply reader and an RFC 7230 request reader
       written here, RFC 7692 7.1 parameter rules.  Verdicts: ready | rejected | either (`either` only for
       constructs outside the RFC grammar on which the property text is silent, e.g. status `+101`).
"""
from __future__ import annotations
import base64, hashlib, json, random, re
import runner, coreutil, world
from coreutil import Scenario, reads, cut, limit_chunks, random_cuts, toks, events
from refcodec import server_frame

TRUSTED = ['correspondence: harness/props/c10.py (generators, canonical printing) + harness/world.py',
           'oracle: hashlib.sha1 + base64 of CPython, the RFC 7230 / RFC 7692 readers in harness/props/c10.py',
           'layer 2b: harness/props/c10.py real_reconf, AnsweringEnv, server_answer (a scripted server that reads the request bytes the socket accepted with the RFC 7230 reader and answers them); '
           'the answered connections are judged by the oracle only (the model runs the requests: `http req` with the custom headers in force)',
           'urllib.parse.urlparse (CPython) is outside the model: the model starts from the components it returns']
ASSUMPTIONS = ['the SHA-1/base64 of the model (Model/Sha1.lean, Handshake.acceptFor) is the function hashlib/base64 compute: test vectors by kernel '
               'evaluation (C10_Digest.sha1_abc, sha1_empty, sha1_two_blocks, accept_rfc6455_example) + differential test on every run (layer 4); '
               'nothing is claimed about SHA-1 as a hash',
               'URL strings, agent, protocol names and custom headers contain no CR/LF and no blanks where the theorem says so',
               'constructs outside the RFC grammar on which the property text is silent are compared model-vs-code only '
               '(status forms int() accepts such as +101/0101/1_01, VT/FF/FS-US around values, unknown extension parameters)']

LEANCHECK_MODULES = ['Lomond.Proofs.Http', 'Lomond.Proofs.HttpDup', 'Lomond.Proofs.HandshakeRun', 'Lomond.Proofs.HandshakeRunG', 'Lomond.Proofs.HandshakeCore', 'Lomond.Proofs.Sha1', 'Lomond.Model.Handshake', 'Lomond.Model.Http',
                     'Lomond.Model.Sha1', 'Lomond.Model.Attempt']

GUID = b'258EAFA5-E914-47DA-95CA-C5AB0DC85B11'      # RFC 6455 section 1.3 (not imported from lomond)
CRLF = b'\r\n'
MSG_EVENTS = ('text', 'binary', 'ping', 'pong', 'closing', 'closed')


def rfc_accept(key_b64):
    return base64.b64encode(hashlib.sha1(key_b64 + GUID).digest())


def enc(s):
    return s.encode('utf-8').hex()


# =============================================================================================
# independent readers (oracle side)

TOKEN = re.compile(rb"[!#$%&'*+\-.^_`|~0-9A-Za-z]+")


class Malformed(Exception):
    pass


def read_request(raw):
    """RFC 7230 request reader. returns (method, target, version, [(name, value)])"""
    if not raw.endswith(CRLF + CRLF):
        raise Malformed('request does not end with an empty line')
    head = raw[:-4]
    if CRLF + CRLF in head:
        raise Malformed('bytes after the empty line')
    lines = head.split(CRLF)
    parts = lines[0].split(b' ')
    if len(parts) != 3 or not all(parts):
        raise Malformed('request line %r' % lines[0])
    hdrs = []
    for ln in lines[1:]:
        if b'\r' in ln or b'\n' in ln:
            raise Malformed('bare CR/LF in %r' % ln)
        name, colon, value = ln.partition(b':')
        if not colon or not TOKEN.fullmatch(name):
            raise Malformed('header line %r' % ln)
        hdrs.append((name, value.strip(b' \t')))
    return parts[0], parts[1], parts[2], hdrs


def split_url(url):
    """independent URL splitter for the shapes the generator emits"""
    m = re.fullmatch(r'(wss?)://(?:[^@/?#]*@)?(\[[^\]]*\]|[^:/?#]*)(?::(\d*))?([^?#]*)(?:\?([^#]*))?(?:#.*)?', url, re.I)
    scheme, host, port, path, query = m.group(1).lower(), m.group(2), m.group(3), m.group(4), m.group(5)
    v6 = host.startswith('[')
    return dict(secure=(scheme == 'wss'), host=(host[1:-1] if v6 else host).lower(), v6=v6,
                port=(int(port) if port else None), path=path, query=query or '')


def read_reply(block, wsc=None):
    """RFC 7230 reader of a reply header block (up to and including the first empty line).
       returns dict(status_cls, code, headers{name: [values]}, anomalies[list])"""
    anomalies = []
    assert block.endswith(CRLF + CRLF)
    lines = block[:-4].split(CRLF)
    sl = lines[0]
    m = re.fullmatch(rb'HTTP/\d\.\d (\d{3})(?: ([\t\x20-\x7e\x80-\xff]*))?', sl)
    if m:
        status_cls, code = 'strict', int(m.group(1))
    else:
        tk = sl.split()
        t = tk[1] if len(tk) > 1 else b''
        t2 = t[1:] if t[:1] == b'+' else t
        t2 = t2.replace(b'_', b'').lstrip(b'0')
        if t2 == b'101':
            status_cls, code = 'lenient', 101     # a tolerant reader could see 101 here: property silent
        else:
            status_cls, code = 'not101', None
    headers, order, cur = {}, [], None
    DROPPED = object()
    for ln in lines[1:]:
        if ln[:1] in (b' ', b'\t'):
            if cur is DROPPED:
                continue        # continuation of a line that the strict reading does not take for a field
            if cur is None:
                anomalies.append('orphan-continuation')
                continue
            if any(c in ln for c in (b'\r', b'\n', b'\x0b', b'\x0c', b'\x1c', b'\x1d', b'\x1e', b'\x1f')):
                anomalies.append('odd-byte')
            headers[cur][-1] = headers[cur][-1] + b' ' + ln.strip(b' \t')
            headers[cur][-1] = headers[cur][-1].strip(b' \t')
            continue
        if ln == b'':
            anomalies.append('empty-line-inside')
            continue
        name, colon, value = ln.partition(b':')
        if colon and any(c >= 0x80 for c in name):
            # a field name with non-ASCII octets is no field name at all (RFC 7230 token): whatever it looks like after decoding,
            # it is not the header it resembles - the line contributes nothing
            cur = None
            continue
        if colon and wsc is not None and name != name.rstrip(b' \t') and TOKEN.fullmatch(name.rstrip(b' \t')):
            # whitespace between field name and colon (RFC 7230 3.2.4: a recipient rejects the message or removes the whitespace):
            # two admissible readings - the caller asks for both and is decisive only where they agree
            if wsc == 'strict':
                cur = DROPPED
                continue
            name = name.rstrip(b' \t')
        if not colon or not TOKEN.fullmatch(name):
            anomalies.append('bad-field-line')
            cur = None if not colon else cur
            continue
        # octets >= 0x80 in a VALUE are legal (obs-text) and are just bytes: they can never be part of the token `websocket` or of a
        # base64 digest, and they are not optional whitespace; control characters are an anomaly (readers differ in what they strip)
        if any(c < 0x20 and c != 9 for c in value) or any(c == 0x7f for c in value):
            anomalies.append('odd-byte')
        cur = name.lower()
        headers.setdefault(cur, []).append(value.strip(b' \t'))
    return dict(status_cls=status_cls, code=code, headers=headers, anomalies=anomalies)


def deflate_params_verdict(ext_values):
    """RFC 7692 section 7.1 on the combined Sec-WebSocket-Extensions value(s).
       returns (verdict in valid|invalid|either, has_pmd)"""
    verdict, has = 'valid', False
    if not ext_values:
        return verdict, has
    for entry in b','.join(ext_values).split(b','):
        parts = [p.strip(b' \t') for p in entry.split(b';')]
        if parts[0] != b'permessage-deflate':
            if parts[0].lower() == b'permessage-deflate' or not TOKEN.fullmatch(parts[0] or b'?'):
                verdict = 'either' if verdict == 'valid' else verdict
            continue
        has = True
        seen = set()
        for p in parts[1:]:
            k, eq, v = p.partition(b'=')
            k, v = k.strip(b' \t'), v.strip(b' \t')
            if k in seen:
                verdict = 'either' if verdict == 'valid' else verdict
            seen.add(k)
            if k in (b'server_max_window_bits', b'client_max_window_bits'):
                q = v[1:-1] if len(v) >= 2 and v[:1] == b'"' and v[-1:] == b'"' else v
                if re.fullmatch(rb'[0-9]{1,3}', q) and not (len(q) > 1 and q[:1] == b'0'):
                    if not 8 <= int(q) <= 15:
                        verdict = 'invalid'
                elif re.fullmatch(rb'[A-Za-z]*', q):          # missing value, or a word
                    verdict = 'invalid'
                else:
                    verdict = 'either' if verdict == 'valid' else verdict
            elif k in (b'server_no_context_takeover', b'client_no_context_takeover'):
                if eq:
                    verdict = 'either' if verdict == 'valid' else verdict
            else:
                verdict = 'either' if verdict == 'valid' else verdict
    return verdict, has


def reply_verdict(block, digest):
    """what the property demands for a complete reply header block.
       returns (verdict in ready|rejected|either, info dict)"""
    if re.search(rb'\r\n[!#$%&\'*+\-.^_`|~0-9A-Za-z]+[ \t]+:', block):
        # whitespace before a colon: decisive only where the tolerant and the strict reading agree
        v1, i1 = _reply_verdict(block, digest, 'tolerant')
        v2, _i2 = _reply_verdict(block, digest, 'strict')
        return (v1 if v1 == v2 else 'either'), i1
    return _reply_verdict(block, digest, None)


def _reply_verdict(block, digest, wsc):
    r = read_reply(block, wsc)
    h = r['headers']
    up, acc = h.get(b'upgrade', []), h.get(b'sec-websocket-accept', [])
    up_ok = len(up) == 1 and up[0].lower() == b'websocket'
    acc_ok = len(acc) == 1 and acc[0] == digest
    ext_v, has_pmd = deflate_params_verdict(h.get(b'sec-websocket-extensions', []))
    info = dict(status_cls=r['status_cls'], code=r['code'], up_ok=up_ok, acc_ok=acc_ok, ext=ext_v, has_pmd=has_pmd,
                anomalies=r['anomalies'], accept=(acc[0] if len(acc) == 1 else None),
                protocol=(h[b'sec-websocket-protocol'][0] if len(h.get(b'sec-websocket-protocol', [])) == 1 else
                          (None if b'sec-websocket-protocol' not in h else Ellipsis)))
    if r['anomalies']:
        return 'either', info
    if r['status_cls'] == 'not101' or (r['status_cls'] == 'strict' and r['code'] != 101):
        return 'rejected', info
    if not up_ok or not acc_ok or ext_v == 'invalid':
        return 'rejected', info
    if r['status_cls'] == 'lenient' or ext_v == 'either':
        return 'either', info
    return 'ready', info


# =============================================================================================
# generators

def style_name(rng, name):
    r = rng.random()
    if r < 0.3:
        return name
    if r < 0.45:
        return name.lower()
    if r < 0.6:
        return name.upper()
    return bytes((c ^ 0x20) if (65 <= c <= 90 or 97 <= c <= 122) and rng.random() < 0.5 else c for c in name)


def ows(rng):
    return rng.choice([b'', b' ', b' ', b' ', b'\t', b'  ', b' \t ', b'\t\t'])


def render_field(rng, name, value, plain=False):
    """one header field as wire bytes (with its CRLFs); the semantic value is preserved"""
    if plain:
        return name + b': ' + value + CRLF
    pre, post = ows(rng), ows(rng)
    line = style_name(rng, name) + b':'
    r = rng.random()
    if r < 0.12:                                   # obs-fold between colon and value
        return line + pre + CRLF + rng.choice([b' ', b'\t', b'  \t', b'\t ']) + value + post + CRLF
    if r < 0.2 and b' ' in value.strip():          # obs-fold at an inner single blank
        idx = [i for i in range(1, len(value) - 1) if value[i:i + 1] == b' ' and value[i - 1:i] != b' ' and value[i + 1:i + 2] != b' ']
        if idx:
            i = rng.choice(idx)
            return line + pre + value[:i] + CRLF + rng.choice([b' ', b'\t', b'   ']) + value[i + 1:] + post + CRLF
    return line + pre + value + post + CRLF


STATUS_OTHER = [b'100', b'102', b'200', b'201', b'204', b'301', b'302', b'400', b'401', b'403', b'404', b'426', b'500', b'502', b'503',
                b'001', b'010', b'110', b'111', b'099', b'999', b'000']
STATUS_LENIENT = [b'+101', b'0101', b'1_01', b'10_1', b'00101', b'+0101', b'1_0_1']
STATUS_BROKEN = [b'', b'-101', b'101.0', b'1e2', b'0x65', b'1__01', b'_101', b'101_', b'10', b'1010', b'1011', b'abc', b'\xd9\xa1\xd9\xa0\xd9\xa1',
                 b'1 01', b'101\x0c', b'+', b'-0', b'--101', b'1' * 4301]
WRONG_ACCEPT = ['other-key', 'swapcase', 'lower', 'upper', 'flip-one-case', 'trunc1', 'trunc4', 'drop-pad', 'pad=', 'padA', 'suffix-x', 'prefix-x',
                'empty', 'missing', 'dup-same', 'dup-good-bad', 'inner-space', 'mid-fold', 'quoted', 'key-itself', 'sha1-hex', 'one-char',
                'digest-of-raw-key', 'reversed']
EXT_VALID = [b'permessage-deflate', b'permessage-deflate; server_max_window_bits=15', b'permessage-deflate; client_max_window_bits=15',
             b'permessage-deflate; server_max_window_bits=8; client_max_window_bits=8', b'permessage-deflate;server_max_window_bits=10',
             b'permessage-deflate; server_no_context_takeover', b'permessage-deflate; client_no_context_takeover',
             b'permessage-deflate; server_no_context_takeover; client_no_context_takeover; server_max_window_bits=12; client_max_window_bits=9',
             b'permessage-deflate; server_max_window_bits="11"', b'permessage-deflate ; client_max_window_bits = 13']
EXT_INVALID = [b'permessage-deflate; server_max_window_bits=7', b'permessage-deflate; server_max_window_bits=16', b'permessage-deflate; client_max_window_bits=7',
               b'permessage-deflate; client_max_window_bits=16', b'permessage-deflate; client_max_window_bits', b'permessage-deflate; server_max_window_bits',
               b'permessage-deflate; server_max_window_bits=abc', b'permessage-deflate; client_max_window_bits=0', b'permessage-deflate; client_max_window_bits=99',
               b'permessage-deflate; server_max_window_bits=15, permessage-deflate; server_max_window_bits=3']
EXT_ODD = [b'permessage-deflate; server_max_window_bits=+9', b'permessage-deflate; server_max_window_bits=09', b'permessage-deflate; client_max_window_bits=1_0',
           b'permessage-deflate; foo=bar', b'permessage-deflate; server_max_window_bits=9; server_max_window_bits=77', b'permessage-deflate; server_no_context_takeover=1',
           b'x-webkit-deflate-frame', b'Permessage-Deflate', b'permessage-deflate; server_max_window_bits=-9', b'permessage-deflate; client_max_window_bits=" 9"',
           b'permessage-deflate; server_max_window_bits=9.0', b'permessage-deflate; client_max_window_bits=""', b'foo, permessage-deflate; client_max_window_bits=12, bar; x=1',
           b'permessage-deflate; server_max_window_bits=8, permessage-deflate; server_max_window_bits=14']
PROTOCOLS = [None, None, b'chat', b'superchat', b'chat, superchat', b'v1.json.example', b'', b'Chat']
FILLER = [(b'Server', b'nginx/1.18.0 (Ubuntu)'), (b'Date', b'Tue, 29 Sep 2026 10:00:00 GMT'), (b'X-Request-Id', b'a:b:c'), (b'Set-Cookie', b'k=v; Path=/, x=y'),
          (b'Via', b'1.1 proxy'), (b'Connection', b'Upgrade'), (b'Connection', b'keep-alive, Upgrade'), (b'X-Empty', b''), (b'Content-Length', b'0'),
          (b'Sec-WebSocket-Version', b'13'), (b'X-Upgrade', b'h2c'), (b'Accept', b'*/*'), (b'X-Sec-WebSocket-Accept', b'nope')]


# repeated header names (C10_Wire2: every occurrence counts -- the values are joined with ',' in wire order, so a repeated
# Upgrade / Sec-WebSocket-Accept is refused whatever its values; a repeated extension / filler field is harmless)
DUP_KINDS = ['accept-good-bad', 'accept-bad-good', 'accept-good-good', 'accept-good-empty', 'accept-lower-good', 'accept-three',
             'upgrade-ws-ws', 'upgrade-ws-h2c', 'upgrade-h2c-ws', 'upgrade-case-pair',
             'ext-valid-valid', 'ext-valid-unknown', 'ext-unknown-valid', 'ext-valid-invalid', 'ext-invalid-valid',
             'filler-dup', 'filler-triple', 'protocol-dup', 'connection-dup']
# continuation lines (obs-folds) inside a value (C10_Wire2: each fold becomes one SP)
FOLD_KINDS = ['filler-multi', 'filler-trailing-blanks', 'ext-between-params', 'ext-after-comma', 'ext-inside-param', 'accept-mid', 'accept-two-folds',
              'accept-blank-cont', 'accept-after-colon-tab', 'upgrade-mid', 'upgrade-blank-cont', 'proto-fold', 'all-folded']


def dup_fields(rng, sub, digest, key):
    """(upgrade values, accept values, extension values, extra (name, value) fields, intended verdict)"""
    other = rfc_accept(base64.b64encode(bytes(rng.getrandbits(8) for _ in range(16))))
    up, acc, exts, extra, intended = [b'websocket'], [digest], [], [], 'ready'
    if sub == 'accept-good-bad':
        acc, intended = [digest, other], 'rejected'
    elif sub == 'accept-bad-good':
        acc, intended = [other, digest], 'rejected'
    elif sub == 'accept-good-good':
        acc, intended = [digest, digest], 'rejected'
    elif sub == 'accept-good-empty':
        acc, intended = rng.choice([[digest, b''], [b'', digest]]), 'rejected'
    elif sub == 'accept-lower-good':
        acc, intended = rng.choice([[digest.lower(), digest], [digest, digest.lower()]]), 'rejected'
    elif sub == 'accept-three':
        acc, intended = [digest, other, digest], 'rejected'
    elif sub == 'upgrade-ws-ws':
        up, intended = [b'websocket', b'websocket'], 'rejected'
    elif sub == 'upgrade-ws-h2c':
        up, intended = [b'websocket', b'h2c'], 'rejected'
    elif sub == 'upgrade-h2c-ws':
        up, intended = [b'h2c', b'websocket'], 'rejected'
    elif sub == 'upgrade-case-pair':
        up, intended = [b'WebSocket', b'websocket'], 'rejected'
    elif sub == 'ext-valid-valid':
        exts = [rng.choice(EXT_VALID), rng.choice(EXT_VALID)]
    elif sub == 'ext-valid-unknown':
        exts = [rng.choice(EXT_VALID), b'x-unknown-ext; a=1']
    elif sub == 'ext-unknown-valid':
        exts = [b'x-unknown-ext', rng.choice(EXT_VALID)]
    elif sub == 'ext-valid-invalid':
        exts, intended = [rng.choice(EXT_VALID), rng.choice(EXT_INVALID[:9])], 'rejected'
    elif sub == 'ext-invalid-valid':
        exts, intended = [rng.choice(EXT_INVALID[:9]), rng.choice(EXT_VALID)], 'rejected'
    elif sub == 'filler-dup':
        extra = [(b'Server', b'one'), (b'Server', b'two')]
    elif sub == 'filler-triple':
        extra = [(b'Via', b'1.1 a'), (b'via', b'1.1 b'), (b'VIA', b'1.1 a')]
    elif sub == 'protocol-dup':
        extra = [(b'Sec-WebSocket-Protocol', b'chat'), (b'Sec-WebSocket-Protocol', b'superchat')]
    elif sub == 'connection-dup':
        extra = [(b'Connection', b'keep-alive'), (b'Connection', b'Upgrade')]
    else:
        raise ValueError(sub)
    return up, acc, exts, extra, intended


def fold_fields(rng, sub, digest, key):
    """like dup_fields; a value containing CR LF is written as it stands (`Name: value`)"""
    ws = lambda: rng.choice([b' ', b'\t', b'  ', b' \t', b'\t\t '])
    up, acc, exts, extra, intended = [b'websocket'], [digest], [], [], 'ready'
    if sub == 'filler-multi':
        extra = [(b'X-Long', b'part one' + CRLF + ws() + b'part two' + CRLF + ws() + b'part three')]
    elif sub == 'filler-trailing-blanks':
        extra = [(b'X-Long', b'a \t' + CRLF + ws() + b'b  ' + CRLF + ws() + b'c\t')]
    elif sub == 'ext-between-params':
        exts = [b'permessage-deflate;' + CRLF + ws() + b'client_max_window_bits=%d' % rng.randint(8, 15)]
    elif sub == 'ext-after-comma':
        exts = [b'permessage-deflate; server_max_window_bits=12,' + CRLF + ws() + b'x-foo']
    elif sub == 'ext-inside-param':
        # the fold becomes a blank between name and '=': parameter names/values are stripped by lomond, RFC 7692 has no blanks there
        exts, intended = [b'permessage-deflate; client_max_window_bits' + CRLF + ws() + b'=10'], None
    elif sub == 'accept-mid':
        k = rng.randrange(1, len(digest) - 1)
        acc, intended = [digest[:k] + CRLF + ws() + digest[k:]], 'rejected'
    elif sub == 'accept-two-folds':
        acc, intended = [digest[:5] + CRLF + ws() + digest[5:11] + CRLF + ws() + digest[11:]], 'rejected'
    elif sub == 'accept-blank-cont':
        acc = [digest + CRLF + ws()]
    elif sub == 'accept-after-colon-tab':
        acc = [CRLF + b'\t' + digest + b' ']
    elif sub == 'upgrade-mid':
        up, intended = [b'web' + CRLF + ws() + b'socket'], 'rejected'
    elif sub == 'upgrade-blank-cont':
        up = [b'websocket' + CRLF + ws()]
    elif sub == 'proto-fold':
        extra = [(b'Sec-WebSocket-Protocol', b'chat,' + CRLF + b' superchat')]
    elif sub == 'all-folded':
        up, acc = [CRLF + ws() + b'WebSocket'], [CRLF + ws() + digest]
        exts = [CRLF + ws() + b'permessage-deflate']
        extra = [(b'Server', CRLF + ws() + b'x' + CRLF + ws() + b'y')]
    else:
        raise ValueError(sub)
    return up, acc, exts, extra, intended


def wrong_accept(rng, kind, digest, key):
    """list of accept header values (zero, one or two header fields) + a fold request"""
    d = digest
    other = rfc_accept(base64.b64encode(bytes(rng.getrandbits(8) for _ in range(16))))
    if kind == 'other-key':
        return [other]
    if kind == 'swapcase':
        return [d.swapcase()]
    if kind == 'lower':
        return [d.lower()]
    if kind == 'upper':
        return [d.upper()]
    if kind == 'flip-one-case':
        idx = [i for i, c in enumerate(d) if chr(c).isalpha()]
        i = rng.choice(idx)
        return [d[:i] + d[i:i + 1].swapcase() + d[i + 1:]]
    if kind == 'trunc1':
        return [d[:-1]]
    if kind == 'trunc4':
        return [d[:-4]]
    if kind == 'drop-pad':
        return [d.rstrip(b'=')]
    if kind == 'pad=':
        return [d + b'=']
    if kind == 'padA':
        return [d + b'A']
    if kind == 'suffix-x':
        return [d + b' x']
    if kind == 'prefix-x':
        return [b'x ' + d]
    if kind == 'empty':
        return [b'']
    if kind == 'missing':
        return []
    if kind == 'dup-same':
        return [d, d]
    if kind == 'dup-good-bad':
        return rng.choice([[d, other], [other, d]])
    if kind == 'inner-space':
        return [d[:9] + b' ' + d[9:]]
    if kind == 'mid-fold':
        return [d[:9] + b'\r\n ' + d[9:]]
    if kind == 'quoted':
        return [b'"' + d + b'"']
    if kind == 'key-itself':
        return [key]
    if kind == 'sha1-hex':
        return [hashlib.sha1(key + GUID).hexdigest().encode()]
    if kind == 'one-char':
        i = rng.randrange(len(d) - 1)
        alphabet = b'ABCDEFGHIJKLMNOPQRSTUVWXYZabcdefghijklmnopqrstuvwxyz0123456789+/'
        c = rng.choice([x for x in alphabet if bytes([x]).lower() != d[i:i + 1].lower()])
        return [d[:i] + bytes([c]) + d[i + 1:]]
    if kind == 'digest-of-raw-key':
        return [base64.b64encode(hashlib.sha1(base64.b64decode(key) + GUID).digest())]
    if kind == 'reversed':
        return [d[::-1]]
    raise ValueError(kind)


def gen_reply(rng, key, mode=None):
    """a reply header block built from a semantic description.
       returns (block bytes, meta dict(mode, intended verdict, ...))"""
    digest = rfc_accept(key)
    mode = mode or rng.choice(['good'] * 5 + ['status', 'status-lenient', 'status-broken', 'upgrade', 'accept', 'accept', 'accept', 'ext-valid', 'ext-invalid', 'ext-odd', 'anomaly',
                                    'dup', 'dup', 'fold', 'fold'])
    version = b'HTTP/1.1'
    code = b'101'
    reason = rng.choice([b'Switching Protocols', b'Switching Protocols', b'Web Socket Protocol Handshake', b'OK', b'', b'switching  protocols 101', b'x'])
    intended = 'ready'
    upgrade = [rng.choice([b'websocket', b'websocket', b'WebSocket', b'WEBSOCKET', b'wEbSoCkEt'])]
    accept = [digest]
    exts = []
    proto = rng.choice(PROTOCOLS)
    sub = None
    extra_fields = []
    if ':' in mode:                                  # 'dup:<kind>' / 'fold:<kind>': a chosen kind
        mode, sub = mode.split(':', 1)
    if mode in ('dup', 'fold'):
        sub = sub or rng.choice(DUP_KINDS if mode == 'dup' else FOLD_KINDS)
        upgrade, accept, exts, extra_fields, intended = (dup_fields if mode == 'dup' else fold_fields)(rng, sub, digest, key)
        if any(n == b'Sec-WebSocket-Protocol' for n, _ in extra_fields):
            proto = None
    elif mode == 'status':
        code = rng.choice(STATUS_OTHER); intended = 'rejected'; sub = code.decode()
    elif mode == 'status-lenient':
        code = rng.choice(STATUS_LENIENT); intended = 'either'; sub = code.decode()
    elif mode == 'status-broken':
        code = rng.choice(STATUS_BROKEN); intended = 'rejected'; sub = code[:12].decode('latin-1')
        if code == b'':
            reason = b''
    elif mode == 'upgrade':
        sub, upgrade = rng.choice([('missing', []), ('h2c', [b'h2c']), ('websocket2', [b'websocket2']), ('list', [b'websocket, h2c']), ('empty', [b'']),
                                   ('dup', [b'websocket', b'websocket']), ('websockets', [b'websockets']), ('web-socket', [b'web socket']),
                                   ('quoted', [b'"websocket"']), ('TLS', [b'TLS/1.0']),
                                   # values that end up in the Rejected reason: format directives in them must not matter
                                   # non-ASCII look-alikes: only the exact ASCII token (any letter case) is the token
                                   ('kelvin', [b'websoc\xe2\x84\xaaet']), ('nbsp', [b'\xc2\xa0websocket\xc2\xa0']), ('fullwidth', ['\uff57ebsocket'.encode('utf-8')]), ('dotless-i', [b'websocket\xc4\xb1'[:9] + b'\xc4\xb1']),
                                   ('braces', [b'{upgrade}']), ('brace-tail', [b'websocket}']), ('index', [b'{0} {}']), ('percent', [b'%s %d %(x)s']), ('lone-brace', [b'{'])])
        intended = 'rejected'
    elif mode == 'accept':
        sub = rng.choice(WRONG_ACCEPT)
        accept = wrong_accept(rng, sub, digest, key)
        intended = 'rejected'
    elif mode == 'ext-valid':
        exts = [rng.choice(EXT_VALID)]
        if rng.random() < 0.2:
            exts.append(rng.choice(EXT_VALID))
    elif mode == 'ext-invalid':
        exts = [rng.choice(EXT_INVALID)]; intended = 'rejected'; sub = exts[0][20:].decode()
    elif mode == 'ext-odd':
        exts = [rng.choice(EXT_ODD)]; intended = None; sub = exts[0][:40].decode()
    if rng.random() < 0.08:
        version = rng.choice([b'HTTP/1.0', b'HTTP/2.0', b'HTTP/0.9'])
    fields = [(b'Upgrade', u) for u in upgrade] + [(b'Sec-WebSocket-Accept', a) for a in accept]
    if proto is not None:
        fields.append((b'Sec-WebSocket-Protocol', proto))
    fields += [(b'Sec-WebSocket-Extensions', e) for e in exts]
    fields += extra_fields
    for _ in range(rng.choice([0, 1, 1, 2, 3, 5])):
        fields.append(rng.choice(FILLER))
    # any order -- but duplicates of the same name keep their relative order only by chance (that is the point)
    rng.shuffle(fields)
    plain = rng.random() < 0.15
    status_line = version + b' ' + code + ((b' ' + reason) if (reason or rng.random() < 0.5) else b'')
    if code == b'':
        status_line = version
    body = b''.join(render_field(rng, n, v, plain) if b'\r\n' not in v else (n + b': ' + v + CRLF) for n, v in fields)
    if mode == 'anomaly':
        intended = None
        sub = rng.choice(['no-colon', 'space-before-colon', 'leading-colon', 'orphan-fold', 'vt-after-accept', 'ff-after-accept', 'fs-before-accept', 'nonascii-value',
                          'bare-lf', 'bare-cr', 'blank-line-ws', 'tab-version', 'two-spaces', 'no-version', 'lowercase-http', 'nul-in-status', 'us-line', 'fold-after-blank',
                          'name-only-ws', 'nonascii-accept', 'empty-name-fold', 'cr-in-accept', 'vt-fold',
                          'space-colon-fold-accept', 'space-colon-fold-upgrade', 'space-colon-fold-junk'])
        s = sub
        if s == 'no-colon':
            body = b'garbage line without colon' + CRLF + body
        elif s == 'space-before-colon':
            body = body.replace(b'Sec-WebSocket-Accept:', b'Sec-WebSocket-Accept :').replace(b'sec-websocket-accept:', b'sec-websocket-accept\t:')
        elif s == 'leading-colon':
            body = b':novalue' + CRLF + b' continuation of nothing' + CRLF + body
        elif s == 'orphan-fold':
            body = b' orphan: continuation' + CRLF + body
        elif s == 'vt-after-accept':
            body = b'Upgrade: websocket\x0b' + CRLF + b'Sec-WebSocket-Accept: ' + digest + b'\x0b' + CRLF
        elif s == 'ff-after-accept':
            body = b'Upgrade:\x0cwebsocket' + CRLF + b'Sec-WebSocket-Accept: ' + digest + b'\x0c' + CRLF
        elif s == 'fs-before-accept':
            body = b'Upgrade: websocket' + CRLF + b'Sec-WebSocket-Accept:\x1c\x1d\x1e\x1f' + digest + b'\x1f' + CRLF
        elif s == 'nonascii-value':
            body += b'X-Name: caf\xc3\xa9 \xff\x80' + CRLF + b'X-N\xc3\xa4me: v' + CRLF
        elif s == 'bare-lf':
            body = b'Upgrade: websocket\nSec-WebSocket-Accept: ' + digest + CRLF
        elif s == 'bare-cr':
            body = b'Upgrade: websocket\rX: y' + CRLF + b'Sec-WebSocket-Accept: ' + digest + b'\r' + CRLF
        elif s == 'blank-line-ws':
            body = b'Upgrade: websocket' + CRLF + b' \t ' + CRLF + b'\x1c' + CRLF + b'Sec-WebSocket-Accept: ' + digest + CRLF + b'\t' + CRLF + b' folded-after-blank' + CRLF
        elif s == 'tab-version':
            status_line = b'HTTP/1.1\t101\tSwitching Protocols'
        elif s == 'two-spaces':
            status_line = b'HTTP/1.1  101   Switching  Protocols '
        elif s == 'no-version':
            status_line = b'101 Switching Protocols'
        elif s == 'lowercase-http':
            status_line = b'  http/1.1 101 ok'
        elif s == 'nul-in-status':
            status_line = b'HTTP/1.1 1\x0001 x'
        elif s == 'us-line':
            body = b'\x1f' + CRLF + body + b'\x1c\x1d: v' + CRLF
        elif s == 'fold-after-blank':
            body = b'Sec-WebSocket-Accept: ' + CRLF + CRLF[:0] + b'\t' + digest + CRLF + b'Upgrade: web' + CRLF + b' socket' + CRLF
        elif s == 'name-only-ws':
            body = b' : x' + CRLF + b'\t:' + CRLF + body
        elif s == 'nonascii-accept':
            body = b'Upgrade: websocket' + CRLF + b'Sec-WebSocket-Accept: ' + digest[:-1] + b'\xbd' + CRLF
        elif s == 'empty-name-fold':
            body = body + b':' + CRLF + b' x' + CRLF
        elif s == 'cr-in-accept':
            body = b'Upgrade: websocket' + CRLF + b'Sec-WebSocket-Accept: \r' + digest + b'\n' + CRLF
        elif s == 'vt-fold':
            body = b'Upgrade: websocket' + CRLF + b'Sec-WebSocket-Accept: ' + digest[:5] + CRLF + b'\x0b' + digest[5:] + CRLF
        # whitespace between field name and colon AND a continuation line, on a header the client inspects: the continuation belongs
        # to that header (whatever name it is stored under)
        elif s == 'space-colon-fold-accept':
            body = b'Upgrade: websocket' + CRLF + b'Sec-WebSocket-Accept :' + CRLF + b' ' + digest + CRLF
        elif s == 'space-colon-fold-upgrade':
            body = b'Upgrade\t:' + CRLF + b'\twebsocket' + CRLF + b'Sec-WebSocket-Accept: ' + digest + CRLF
        elif s == 'space-colon-fold-junk':
            body = b'Upgrade : websocket' + CRLF + b' h2c' + CRLF + b'Sec-WebSocket-Accept : ' + digest + CRLF + b' junk' + CRLF
    block = status_line + CRLF + body + CRLF
    return block, dict(mode=mode, sub=sub, intended=intended, plain=plain, proto=proto)


FUZZ_BYTES = b'\r\n\t \x0b\x0c\x1c\x1f:,;="_+-01\x80\xffAa\x00'


def fuzz_block(rng, block):
    """byte-level mutations of a generated block (model-vs-code only: no verdict is defined)"""
    b = bytearray(block)
    for _ in range(rng.randint(1, 6)):
        r = rng.random()
        i = rng.randrange(len(b) + 1)
        if r < 0.4:
            b.insert(i, rng.choice(FUZZ_BYTES))
        elif r < 0.7 and len(b) > 1:
            del b[min(i, len(b) - 1)]
        elif r < 0.9 and len(b) > 0:
            b[min(i, len(b) - 1)] = rng.choice(FUZZ_BYTES)
        else:
            j = rng.randrange(len(b) + 1)
            b[i:i] = b[j:j + rng.randint(1, 12)]
    return bytes(b)


def pad_block(rng, block, total):
    """grow a header block (ending in CRLF CRLF) to exactly `total` bytes by inserting filler fields"""
    assert block.endswith(CRLF + CRLF)
    need = total - len(block)
    if need <= 0:
        return block
    head, tail = block[:-2], CRLF
    style = rng.choice(['one', 'many', 'fold'])
    out = b''
    if style == 'many':
        while need >= 40:
            n = rng.randint(8, 30)
            line = b'X-Pad-%d: ' % rng.randint(0, 99999)
            line = line + b'p' * max(0, n - len(line) - 2) + CRLF
            if need - len(line) < 8:
                break
            out += line
            need -= len(line)
    if need < 8:
        # too small for a field of its own: lengthen the reason phrase instead
        i = block.index(CRLF)
        return block[:i] + b'x' * (total - len(block)) + block[i:]
    if style == 'fold' and need > 40:
        a = (need - 9 - 3) // 2
        line = b'X-Pad: ' + b'p' * a + CRLF + b' ' + b'q' * (need - 9 - 3 - a) + CRLF
    else:
        line = b'X-Pad: ' + b'p' * (need - 9) + CRLF
    assert len(out + line) == total - len(block), (len(out + line), total - len(block))
    return head + out + line + tail


# =============================================================================================
# layer 1: Response + on_response, real side

def show_deflate(c):
    return '%d.%d.%d.%d' % (c.decompress_wbits, c.compress_wbits, 1 if c.reset_decompress else 0, 1 if c.reset_compress else 0)


def real_resp(item):
    """item = (key hex, block hex) -> canonical line (same format as the driver's `http resp`)"""
    from lomond.response import Response
    from lomond.websocket import WebSocket
    from lomond import errors
    key, data = bytes.fromhex(item[0]), bytes.fromhex(item[1])
    resp = Response(data)
    hdrs = ','.join(enc(k) + ':' + enc(v) for k, v in resp.headers.items())
    ws = WebSocket('ws://example.com/', proxies={})
    ws.state.key = key
    try:
        proto, exts = ws.on_response(resp)
        out = 'ok:%s:%s' % ('-' if proto is None else 'p' + enc(proto),
                            show_deflate(ws.state.compression) if 'permessage-deflate' in exts else '-')
    except errors.HandshakeError as e:
        out = 'err:' + enc(str(e))
    except Exception as e:  # noqa -- on_response must refuse a reply with HandshakeError, nothing else (anything else escapes feed() as a crash of the connection)
        out = 'exc:' + type(e).__name__
    return 'ver=%s code=%s status=%s hdrs=%s res=%s' % (enc(resp.http_ver), resp.status_code, enc(resp.status), hdrs, out)


def real_resp_many(items):
    return [real_resp(it) for it in items]


def detect_strict():
    """variant detection: replay the D5 witness on the real code"""
    key = base64.b64encode(bytes(range(16)))
    d = rfc_accept(key)
    block = b'HTTP/1.1 101 Switching Protocols\r\nUpgrade: websocket\r\nSec-WebSocket-Accept: ' + d.swapcase() + b'\r\n\r\n'
    return ' res=err:' in real_resp((key.hex(), block.hex()))


# =============================================================================================
# layer 2: the request actually written, several connects on one object

def draw_bytes(seed, k, n):
    return hashlib.sha256(b'draw %d %d' % (seed, k)).digest()[:n] if n <= 32 else bytes(n)


def real_requests(item):
    """item: dict(url, agent|None, protocols, headers[[hex,hex]], compress, connects, seed).
       returns dict(traces=[...], draws=[(n, hex, phase)], ...)"""
    import os as _os
    import lomond.session as _session, lomond.events as _events, lomond.frame as _frame
    from lomond.websocket import WebSocket
    draws = []
    phase = ['init']

    def fake_urandom(n):
        b = draw_bytes(item['seed'], len(draws), n)
        draws.append((n, b.hex(), phase[0]))
        return b
    cur = {}

    class TimeShim:
        @staticmethod
        def time():
            return cur['world'].clock.t

    def next_key():
        w = cur['world']
        k = w.key_ctr
        w.key_ctr += 1
        return world.test_key(k)
    saved = (_session.time, _events.time, _frame.make_masking_key, _os.urandom)
    traces = []
    try:
        _session.time = TimeShim
        _events.time = TimeShim
        _frame.make_masking_key = next_key
        _os.urandom = fake_urandom
        ws = WebSocket(item['url'], proxies={}, protocols=item['protocols'] or None, agent=item['agent'], compress=item['compress'])
        for h, v in item['headers']:
            ws.add_header(bytes.fromhex(h), bytes.fromhex(v))
        for i in range(item['connects']):
            phase[0] = 'connect%d' % i
            sc = Scenario([('wait', 0, ('eof',))], prate=0, url=item['url'])
            w = world.World(sc)
            w.canon_write = world._canon_write_factory(w)
            cur['world'] = w
            traces.append(world._run_one(ws, sc, w))
        default_agent = None
        if item['agent'] is None:
            from lomond import constants
            default_agent = constants.USER_AGENT
    finally:
        _session.time, _events.time, _frame.make_masking_key, _os.urandom = saved
    return dict(traces=traces, draws=draws, default_agent=default_agent)


HOSTS = ['example.com', 'Example.COM', 'localhost', '127.0.0.1', 'a.b-c.example.org', 'xn--bcher-kva.example', 'h']
PATHS = ['', '/', '/chat', '/a/b/c', '/a%20b', '/~user/x.y', '//double', '/a;b', '/p/', '/ws:80']
QUERIES = [None, None, '', 'a=1', 'a=1&b=2', 'q=%3F', 'x', 'a=b=c', 'redirect=ws://o/', '?', 'a#']
AGENTS = [None, None, 'test-agent/1.0', 'Mozilla/5.0 (X11; Linux x86_64)', 'a', 'agént ü']
HDRS = [(b'Origin', b'http://example.com'), (b'Authorization', b'Bearer abc.def'), (b'Cookie', b'a=b; c=d'), (b'X-Custom', b''), (b'X-Trace', b'1:2:3'),
        (b'Sec-WebSocket-Foo', b'bar, baz'), (b'x-lower', b'v')]
PROTO_OFFERS = [[], [], ['chat'], ['chat', 'superchat'], ['v1.json', 'v2.json', 'v3.json'], ['proto-é']]


def gen_client(rng, seed):
    scheme = rng.choice(['ws', 'ws', 'wss', 'WS', 'Wss'])
    host = rng.choice(HOSTS)
    port = rng.choice([None, None, None, 80, 443, 8080, 8443, 1, 65535, 0])
    path = rng.choice(PATHS)
    query = rng.choice(QUERIES)
    if query == 'a#':
        query = 'a'
        frag = '#frag?x'
    else:
        frag = rng.choice(['', '', '#frag'])
    userinfo = rng.choice(['', '', '', 'user:pw@', 'u@'])
    url = '%s://%s%s%s%s%s%s' % (scheme, userinfo, host, '' if port is None else ':%d' % port, path, '' if query is None else '?' + query, frag)
    hdrs = [rng.choice(HDRS) for _ in range(rng.choice([0, 0, 1, 2, 3]))]
    return dict(url=url, agent=rng.choice(AGENTS), protocols=rng.choice(PROTO_OFFERS), headers=[[h.hex(), v.hex()] for h, v in hdrs],
                compress=rng.random() < 0.5, connects=rng.choice([1, 1, 2, 3, 4]), seed=seed)


def req_model_line(item, rnd16, agent):
    u = split_url(item['url'])
    return 'http req secure=%d host=%s port=%s path=%s query=%s agent=%s protos=%s hdrs=%s vals=%s compress=%d rnd=%s' % (
        1 if u['secure'] else 0, u['host'].encode().hex(), '-' if u['port'] is None else u['port'], u['path'].encode().hex(), u['query'].encode().hex(),
        agent.encode('utf-8').hex(), ','.join(p.encode('utf-8').hex() or '-' for p in item['protocols']),
        ','.join(h or '-' for h, _ in item['headers']), ','.join(v or '-' for _, v in item['headers']), 1 if item['compress'] else 0, rnd16)


def show_spec_request(raw):
    """the driver's `spec:` suffix computed by the independent Python reader"""
    try:
        m, t, v, hdrs = read_request(raw)
    except Malformed:
        return 'malformed'
    return 'm=%s t=%s v=%s hdrs=%s' % (m.hex(), t.hex(), v.hex(), ','.join(n.hex() + ':' + val.hex() for n, val in hdrs))


def judge_request(res, item, raw, fresh_draws, used_keys, what_input):
    """oracle for one written request; returns the key (b64) or None"""
    def fail(cls, what):
        res.failures.append(dict(cls=cls, what=what, input=what_input, observed=raw[:600].decode('latin-1')))
    try:
        m, t, v, hdrs = read_request(raw)
    except Malformed as e:
        fail('request-malformed', 'the written request is not a well-formed HTTP/1.1 request: %s' % e)
        return None
    u = split_url(item['url'])
    want_target = (u['path'] or '/') + ('?' + u['query'] if u['query'] else '')
    if (m, v) != (b'GET', b'HTTP/1.1') or t != want_target.encode('utf-8'):
        fail('request-line', 'request line is %r %r %r, expected GET %s HTTP/1.1' % (m, t, v, want_target))
    names = [n.lower() for n, _ in hdrs]
    d = {}
    for n, val in hdrs:
        d.setdefault(n.lower(), []).append(val)
    port = u['port'] if u['port'] else (443 if u['secure'] else 80)
    want = {b'host': ('%s:%d' % (u['host'], port)).encode(), b'upgrade': b'websocket', b'connection': b'Upgrade', b'sec-websocket-version': b'13'}
    default_port = port == (443 if u['secure'] else 80)
    for n, val in want.items():
        got = d.get(n, [])
        ok = len(got) == 1 and (got[0].lower() == val.lower() if n in (b'upgrade', b'connection', b'host') else got[0] == val)
        if n == b'host' and len(got) == 1 and default_port and got[0].lower() == u['host'].lower().encode():
            ok = True            # RFC 7230 5.4: the port may be omitted when it is the default of the scheme
        if not ok:
            fail('request-header', 'header %s is %r, expected exactly one %r' % (n.decode(), got, val))
    custom = [(bytes.fromhex(h), bytes.fromhex(x)) for h, x in item['headers']]
    # every custom header is sent verbatim (where in the request, and in which order, is not part of 'well-formed')
    rest = list(hdrs)
    for c in custom:
        if c in rest:
            rest.remove(c)
        else:
            fail('request-custom-headers', 'custom header %r: %r not sent verbatim' % c)
            break
    offered = d.get(b'sec-websocket-protocol', [])
    if item['protocols']:
        if len(offered) != 1 or [p.strip() for p in offered[0].split(b',')] != [p.encode('utf-8') for p in item['protocols']]:
            fail('request-protocols', 'offered protocols %r, expected %r' % (offered, item['protocols']))
    elif offered:
        fail('request-protocols', 'protocols offered although none configured')
    ext = d.get(b'sec-websocket-extensions', [])
    if item['compress']:
        if len(ext) != 1 or not all(e.split(b';')[0].strip() == b'permessage-deflate' for e in ext[0].split(b',')):
            fail('request-extensions', 'compress=True but the offer is %r' % ext)
    elif ext and not any(n.lower() == b'sec-websocket-extensions' for n, _ in custom):
        fail('request-extensions', 'extensions offered although compress=False')
    keys = d.get(b'sec-websocket-key', [])
    if len(keys) != 1:
        fail('request-key', 'expected exactly one Sec-WebSocket-Key, got %r' % keys)
        return None
    key = keys[0]
    try:
        rawkey = base64.b64decode(key, validate=True)
    except Exception:
        rawkey = b''
    if len(rawkey) != 16 or base64.b64encode(rawkey) != key:
        fail('request-key', 'key %r is not the base64 of 16 bytes' % key)
        return key
    if fresh_draws and rawkey.hex() not in fresh_draws:
        # the harness's entropy source WAS consulted during this connect(): then the key must come from it (a client using
        # another source is judged by the freshness rule below only)
        fail('key-not-fresh', 'key %r is not a 16-byte draw made during this connect() (draws: %s)' % (key, fresh_draws))
    if key in used_keys:
        fail('key-not-fresh', 'key %r was already used by an earlier connect()' % key)
    return key


# =============================================================================================
# layer 2b: the application RECONFIGURES the object between connection attempts (add_header() before the first connect()
# and between two connect()s), and a server that ANSWERS THE REQUEST IT ACTUALLY RECEIVED

AFTER = server_frame(1, b'AFTER')
AFTER_TOK = 'E:text:' + b'AFTER'.hex()

RECONF_ENDS = ['served', 'served', 'rejected', 'mid-header', 'mid-frame', 'mid-fragment', 'server-close', 'connfail', 'wfail', 'abandon', 'app-close']
# endings after which the whole reply header block has reached the client
RECONF_REPLY_DELIVERED = ('served', 'mid-frame', 'mid-fragment', 'server-close', 'abandon', 'app-close')


def server_answer(raw, plan):
    """what a plain HTTP server library does with the request bytes `raw` it received: it reads them with the RFC 7230 reader
       above and takes the FIRST Sec-WebSocket-Key field (the way http.server / email.message `get` do); it computes the accept
       value from THAT key (RFC 6455 4.2.2) and selects the first protocol the request offers.
       returns (reply header block, info dict)"""
    try:
        _m, _t, _v, hdrs = read_request(raw)
    except Malformed as e:
        return b'HTTP/1.1 400 Bad Request\r\nContent-Length: 0\r\n\r\n', dict(status=400, why=str(e))
    keys = [v for n, v in hdrs if n.lower() == b'sec-websocket-key']
    if not keys:
        return b'HTTP/1.1 400 Bad Request\r\nContent-Length: 0\r\n\r\n', dict(status=400, why='no key')
    if plan['end'] == 'rejected':
        return b'HTTP/1.1 401 Unauthorized\r\nContent-Length: 0\r\n\r\n', dict(status=401, nkeys=len(keys))
    # (a subprotocol name is an RFC 7230 token, RFC 6455 4.1 item 10: an offered name with other octets is not selectable)
    offers = [p.strip(b' \t') for n, v in hdrs if n.lower() == b'sec-websocket-protocol' for p in v.split(b',') if TOKEN.fullmatch(p.strip(b' \t'))]
    proto = offers[0] if (offers and plan.get('proto')) else None
    reply = (b'HTTP/1.1 101 Switching Protocols\r\nUpgrade: websocket\r\nConnection: Upgrade\r\nSec-WebSocket-Accept: ' + rfc_accept(keys[0]) + CRLF +
             (b'Sec-WebSocket-Protocol: ' + proto + CRLF if proto is not None else b'') + CRLF)
    return reply, dict(status=101, nkeys=len(keys), key=keys[0].decode('latin-1'), proto=None if proto is None else proto.hex())


class AnsweringEnv(list):
    """an environment script (harness/world.py `World.env`) that is written when the client first waits for data - i.e. after the
       request went out - by `server_answer` from the bytes the socket really accepted"""

    def __init__(self, w, plan):
        list.__init__(self)
        self.w, self.plan, self.made = w, plan, False

    def __bool__(self):
        if not self.made:
            self.made = True
            from refcodec import close_payload
            reply, info = server_answer(b''.join(self.w.raw), self.plan)
            self.w.answer = info
            end = self.plan['end']
            if info['status'] != 101:
                steps = reads([reply]) + [('wait', 0, ('eof',))]
            elif end == 'mid-header':
                steps = reads([reply[:40]]) + [('wait', 0, ('eof',))]
            elif end == 'mid-frame':
                steps = reads([reply + AFTER + server_frame(1, b'hello world')[:5]]) + [('wait', 0, ('sockerr',))]
            elif end == 'mid-fragment':
                steps = reads([reply + AFTER + server_frame(1, b'he', fin=0)]) + [('wait', 0, ('eof',))]
            elif end == 'server-close':
                steps = reads([reply + AFTER + server_frame(8, close_payload(1000, b''))]) + [('wait', 0, ('eof',))]
            else:
                steps = reads([reply + AFTER]) + [('wait', 0, ('eof',))]
            self.extend(steps)
        return len(self) > 0


def reconf_draw(seed, phase, j, n):
    return hashlib.sha256(b'reconf %d %d %d' % (seed, phase, j)).digest()[:n] if n <= 32 else bytes(n)


def real_reconf(item):
    """item: dict(url, agent|None, protocols, compress, seed, headers[[hex,hex]] (added before the first connect()),
                  rounds=[dict(add=[[hex,hex]...] (add_header() calls made right before THIS connect()), end=<RECONF_ENDS>, proto=bool)],
                  k0 = number of the first round (the entropy source serves connect number k0+i the same bytes whatever
                       object makes it: a fresh object's only connect can be given the draw of a used object's k-th)).
       returns dict(traces, draws=[(n, hex, phase)], answers=[server_answer info | None], default_agent)"""
    import os as _os
    import lomond.session as _session, lomond.events as _events, lomond.frame as _frame
    from lomond.websocket import WebSocket
    draws = []
    phase = [-1]

    def fake_urandom(n):
        j = sum(1 for d in draws if d[2] == phase[0])
        b = reconf_draw(item['seed'], phase[0], j, n)
        draws.append((n, b.hex(), phase[0]))
        return b
    cur = {}

    class TimeShim:
        @staticmethod
        def time():
            return cur['world'].clock.t

    def next_key():
        w = cur['world']
        k = w.key_ctr
        w.key_ctr += 1
        return world.test_key(k)
    saved = (_session.time, _events.time, _frame.make_masking_key, _os.urandom)
    traces, answers = [], []
    try:
        _session.time = TimeShim
        _events.time = TimeShim
        _frame.make_masking_key = next_key
        _os.urandom = fake_urandom
        ws = WebSocket(item['url'], proxies={}, protocols=item['protocols'] or None, agent=item['agent'], compress=item['compress'])
        for h, v in item['headers']:
            ws.add_header(bytes.fromhex(h), bytes.fromhex(v))
        t_next = 1000.0
        one_cls = world.make_session_class(cur)
        for i, rd in enumerate(item['rounds']):
            for h, v in rd.get('add', []):
                ws.add_header(bytes.fromhex(h), bytes.fromhex(v))
            phase[0] = item.get('k0', 0) + i
            end = rd['end']
            rx = {2: [('abandon', 'close')]} if end == 'abandon' else ({2: [('close', 1000, ('b', b'bye'))]} if end == 'app-close' else {})
            sc = Scenario([], rx, prate=0, url=item['url'], conn='sockfail' if end == 'connfail' else 'ok', wfail={0} if end == 'wfail' else ())
            w = world.World(sc, t_next)
            w.canon_write = world._canon_write_factory(w)
            w.answer = None
            w.env = AnsweringEnv(w, rd)
            cur['world'] = w
            traces.append(world._run_one(ws, sc, w, None, one_cls))
            answers.append(w.answer)
            t_next = w.clock.t + 3.0
        default_agent = None
        if item['agent'] is None:
            from lomond import constants
            default_agent = constants.USER_AGENT
    finally:
        _session.time, _events.time, _frame.make_masking_key, _os.urandom = saved
    return dict(traces=traces, draws=draws, answers=answers, default_agent=default_agent)


def gen_reconf(rng, seed):
    """a client (gen_client) whose application adds custom headers before the first connect() and / or between connects, and
       makes 2-4 connection attempts on the object; how each attempt ends is drawn from RECONF_ENDS"""
    item = gen_client(rng, seed)
    del item['connects']
    rounds = []
    for i in range(rng.choice([2, 2, 3, 3, 4])):
        nadd = 0 if i == 0 else rng.choice([0, 1, 1, 1, 2])
        rounds.append(dict(add=[[h.hex(), v.hex()] for h, v in (rng.choice(HDRS) for _ in range(nadd))], end=rng.choice(RECONF_ENDS), proto=rng.random() < 0.7))
    if rng.random() < 0.35:
        item['headers'] = []          # the first custom header of the object's life is added after its first connection
    item['rounds'] = rounds
    item['k0'] = 0
    return item


def reconf_headers(item, k):
    """the custom headers in force at connect number k: everything add_header() was given up to then"""
    return list(item['headers']) + [hv for rd in item['rounds'][:k + 1] for hv in rd.get('add', [])]


def explore_reconf(res, rng, quick, model_ok, seed, keys_seen):
    n = 60 if quick else 1200
    items = [gen_reconf(rng, seed * 100003 + 50000 + i) for i in range(n)]
    outs = runner.parallel_map('props.c10', 'real_reconf', items, chunk=20)
    lines, backrefs = [], []
    for item, out in zip(items, outs):
        if '__crash__' in out:
            res.crashes.append(out)
            continue
        used = set()
        u = split_url(item['url'])
        judged = not u['v6'] and all(ord(c) < 128 for c in item['url'])
        agent = item['agent'] if item['agent'] is not None else out['default_agent']
        for k, (trace, rd, ans) in enumerate(zip(out['traces'], item['rounds'], out['answers'])):
            tk = toks(trace)
            evs = [t for t in tk if t.startswith('E:')]
            names = [e.split(':')[1] for e in evs]
            wr = [t for t in tk if t.startswith('W:')]
            inp = dict(kind='reconf', item=item, connect=k)
            eff = dict(item, headers=reconf_headers(item, k))
            res.case(('reconf', json.dumps(item, sort_keys=True), k), nontrivial=k > 0)
            res.count('reconf:connect#%d' % k)
            res.count('reconf:after:%s' % (item['rounds'][k - 1]['end'] if k else 'construction'))
            res.count('reconf:headers-added-%s' % ('before-first-connect' if k == 0 and item['headers'] else ('between-connects' if k and rd['add'] else 'not-here')))
            res.traces_validated += 1
            if rd['end'] in ('connfail', 'wfail'):
                if rd['end'] == 'connfail' and wr:
                    res.failures.append(dict(cls='request-not-written', what='a request was written although the connection could not be made', input=inp, observed=trace[:300]))
                continue
            if not wr:
                res.failures.append(dict(cls='request-not-written', what='connect() wrote no request', input=inp, observed=trace[:300]))
                continue
            raw = bytes.fromhex(wr[0][2:])
            fresh = [d[1] for d in out['draws'] if d[2] == k and d[0] == 16]
            nf = len(res.failures)
            key = judge_request(res, eff, raw, fresh, used, inp) if judged else None
            if key:
                used.add(key)
                keys_seen.add(key)
            if judged and len(res.failures) == nf:
                # the CURRENT custom headers, each exactly as often as add_header() was called with it
                try:
                    hdrs = read_request(raw)[3]
                except Malformed:
                    hdrs = []
                custom = [(bytes.fromhex(h), bytes.fromhex(x)) for h, x in eff['headers']]
                for c in set(custom):
                    if hdrs.count(c) != custom.count(c):
                        res.failures.append(dict(cls='request-custom-headers', what='custom header %r: %r was added %d time(s) but is sent %d time(s) by connect #%d' % (c[0], c[1], custom.count(c), hdrs.count(c), k + 1),
                                                 input=inp, observed=raw[:600].decode('latin-1')))
                        break
            if len(fresh) != 1:
                res.failures.append(dict(cls='key-not-fresh', what='connect() made %d 16-byte draws (expected exactly one)' % len(fresh), input=inp))
            lines.append(req_model_line(eff, fresh[0] if fresh else '', agent))
            backrefs.append((item, k, raw))
            # the server answered the request it received: 101, Upgrade: websocket, the digest of the (one) key in that request
            if ans and ans['status'] == 101 and ans['nkeys'] == 1 and rd['end'] in RECONF_REPLY_DELIVERED:
                res.count('reconf:answered-101')
                want_p = '-' if ans['proto'] is None else 'p' + ans['proto']
                rdy = [e for e in evs if e.startswith('E:ready')]
                if len(rdy) != 1 or 'rejected' in names or any(e.startswith('E:protocol_error') for e in evs):
                    res.failures.append(dict(cls='rejected-good-reply', what='connect #%d: the server answered the request it received with a correct upgrade reply (accept = digest of the key in that request), '
                                             'but the client did not yield exactly one Ready' % (k + 1), input=inp, observed=[e[:160] for e in evs[:8]], expected='ready'))
                elif rdy[0].split(':')[2] != want_p:
                    res.failures.append(dict(cls='ready-reports', what='Ready.protocol is %s, the reply said %s' % (rdy[0].split(':')[2], want_p), input=inp))
                elif rd['end'] in ('served', 'mid-frame', 'mid-fragment', 'server-close') and AFTER_TOK not in evs:
                    res.failures.append(dict(cls='ready-then-messages', what='frame following the header block was not delivered after Ready', input=inp, observed=[e[:160] for e in evs[:8]]))
            elif ans and ans['status'] != 101:
                res.count('reconf:answered-%d' % ans['status'])
                if 'ready' in names or any(e.split(':')[1] in MSG_EVENTS for e in evs) or names.count('rejected') != 1:
                    res.failures.append(dict(cls='not-ready-consequences', what='reply with status %d: expected exactly one Rejected, no Ready, no message events' % ans['status'], input=inp,
                                             observed=[e[:160] for e in evs[:8]], expected='rejected'))
    if model_ok and lines:
        mo = runner.model_run(lines)
        for (item, k, raw), line, m in zip(backrefs, lines, mo):
            want = raw.hex() + ' spec:' + show_spec_request(raw)
            if m != want:
                res.diffs.append(dict(input=line[:2000], real=want[-1500:], model=m[-1500:], item=item, connect=k))


# =============================================================================================
# layer 3: whole connections


def conn_scenario(rng, tier, i, variant, mode=None):
    """one whole-connection case. returns (scenario, meta); `mode` forces a reply of that generator mode"""
    url = rng.choice(['ws://example.com/chat', 'ws://example.com/chat', 'wss://example.com/', 'ws://h:8080/a?b=c', 'wss://Example.com:443', 'ws://127.0.0.1:80/x/y?z'])
    compress = rng.random() < 0.4
    offered = rng.choice(PROTO_OFFERS[:5])
    sc = Scenario([], prate=0, url=url, compress=compress, protocols=offered, key_seed=rng.randrange(1 << 20), variant=variant)
    key = sc.key()
    kind = rng.choice(['reply'] * 8 + ['limit'] * 2 + ['unterminated'])
    if mode is not None:
        kind = 'reply'
    meta = dict(kind=kind)
    if kind == 'reply':
        block, m = gen_reply(rng, key, mode)
        meta.update(m)
        tail = rng.choice([b'', AFTER, AFTER, AFTER + server_frame(9, b'p') + server_frame(2, b'\x00\x01')])
        data = block + tail
        meta['tail'] = len(tail)
        end = [('wait', 1, ('eof',))]
    elif kind == 'limit':
        # header block of exactly `total` bytes (terminator included) around the 16 KiB limit
        total = rng.choice([16384, 16384, 16385, 16385, 16383, 16386, 16000, 17000, 20000, 16384 + 65536 - 100])
        good = rng.random() < 0.75
        block, m = gen_reply(rng, key, mode='good' if good else rng.choice(['status', 'accept', 'upgrade']))
        meta.update(m)
        block = pad_block(rng, block, total)
        meta['total'] = len(block)
        tail = rng.choice([b'', AFTER])
        data = block + tail
        meta['tail'] = len(tail)
        end = [('wait', 1, ('eof',))]
    else:
        # no terminator at all: n bytes of header material, then silence or EOF
        n = rng.choice([10, 16384, 16385, 16384, 16385, 16383, 30000])
        head = b'HTTP/1.1 101 Switching Protocols\r\nUpgrade: websocket\r\nSec-WebSocket-Accept: ' + rfc_accept(key) + b'\r\nX-Pad: '
        fill = rng.choice(['p', 'crlf', 'almost'])
        body = (b'p' * n) if fill == 'p' else ((b'ab\r\n ' * n) if fill == 'crlf' else (b'p\r\n\r' * n))
        data = (head + body)[:n]
        if fill == 'almost' and n > 8:
            data = data[:-4] + b'p\r\n\r'
        assert b'\r\n\r\n' not in data
        meta.update(mode='unterminated', sub=fill, total=n, intended=None, tail=0)
        block = None
        end = rng.choice([[('wait', 1, ('eof',))], [('wait', 3, None)], [('wait', 1, ('sockerr',))]])
    seg = rng.choice(['whole', 'whole', 'rand', 'rand', 'sep', 'bytes' if len(data) < 600 else 'rand'])
    if seg == 'whole':
        chunks = [data]
    elif seg == 'bytes':
        chunks = [data[j:j + 1] for j in range(len(data))]
    elif seg == 'sep' and block is not None:
        # cut inside / right before / right after the terminator
        e = len(block)
        chunks = cut(data, sorted(set(rng.sample([e - 4, e - 3, e - 2, e - 1, e, e + 1, e + 2], rng.randint(1, 4)))))
    else:
        chunks = cut(data, random_cuts(rng, len(data), rng.choice([1, 2, 4, 9])))
    meta['seg'] = seg
    sc.env = reads(limit_chunks(chunks)) + end
    meta['block'] = block
    meta['data_len'] = len(data)
    meta['nchunks'] = len(chunks)
    meta['offered'] = offered
    return sc, meta


def judge_conn(res, js, line, real, meta, sc):
    tk = toks(real)
    evs = [t for t in tk if t.startswith('E:')]
    names = [e.split(':')[1] for e in evs]

    conn_input = dict(kind='conn', scenario=js, line=line[:1500])

    def fail(cls, what, expected=None):
        res.failures.append(dict(cls=cls, what=what, input=conn_input, observed=[e[:160] for e in evs[:8]], expected=expected))
    wr = [t for t in tk if t.startswith('W:')]
    if names[:1] != ['connecting'] or not wr or tk.index(wr[0]) > tk.index('E:connected:0' if 'E:connected:0' in tk else tk[-1]):
        return fail('request-not-written', 'no request written before Connected')
    raw = bytes.fromhex(wr[0][2:])
    # key out of the request actually written
    try:
        _m, _t, _v, hdrs = read_request(raw)
        keys = [v for n, v in hdrs if n.lower() == b'sec-websocket-key']
    except Malformed as e:
        return fail('request-malformed', 'the written request is not well-formed: %s' % e)
    if len(keys) != 1:
        return fail('request-key', 'expected one Sec-WebSocket-Key in the written request')
    key = keys[0]
    if key != base64.b64encode(sc.key_bytes()):
        fail('key-not-fresh', 'the key in the request is not the base64 of the 16 bytes os.urandom returned')
    digest = rfc_accept(key)
    n_ready = names.count('ready')
    n_rej = names.count('rejected')
    perr = [e for e in evs if e.startswith('E:protocol_error')]
    msgs = [e for e in evs if e.split(':')[1] in MSG_EVENTS]
    closed_ok = tk[-1].startswith('END:sock=0') and 'SC' in tk
    total = meta.get('total')
    block = meta['block']
    # ---- what the property demands -----------------------------------------------------------
    if block is None:
        # unterminated header material
        want = 'protocol_error' if total > 16384 else 'nothing'
        info = {}
    elif len(block) > 16384:
        want, info = 'protocol_error', {}
    else:
        want, info = reply_verdict(block, digest)
        # (the generator's intention refers to the key it predicted; it is only comparable when that is the key really sent)
        if meta.get('intended') and want != 'either' and meta['intended'] != want and key == base64.b64encode(sc.key_bytes()):
            raise AssertionError('generator and oracle disagree: %s vs %s on %r' % (meta['intended'], want, block[:300]))
    meta['want'] = want
    if want == 'ready':
        if n_ready != 1 or n_rej or perr:
            return fail('rejected-good-reply', 'a correct upgrade reply did not yield exactly one Ready', 'ready')
    elif want == 'rejected':
        if n_ready:
            acc = info.get('accept')
            if info['up_ok'] and info['code'] == 101 and info['ext'] != 'invalid' and acc is not None and acc != digest and acc.lower() == digest.lower():
                res.failures.append(dict(cls='accept-case-insensitive',
                                         what='Ready although Sec-WebSocket-Accept %r differs from the digest %r (only in letter case)' % (acc.decode('latin-1'), digest.decode()),
                                         input=conn_input, observed=[e[:160] for e in evs[:6]], expected='rejected'))
                return
            return fail('ready-on-bad-reply', 'Ready for a reply that is not a correct upgrade reply (%s/%s)' % (meta.get('mode'), meta.get('sub')), 'rejected')
        if n_rej != 1 or perr:
            return fail('not-ready-consequences', 'expected exactly one Rejected (and no ProtocolError)', 'rejected')
    elif want == 'protocol_error':
        if n_ready or n_rej:
            return fail('header-limit', 'header block of %s bytes (> 16384) was not refused: %s' % (total, names), 'protocol_error')
        if len(perr) != 1:
            return fail('header-limit', 'expected exactly one ProtocolError for a header block of %s bytes' % total, 'protocol_error')
    elif want == 'nothing':
        if n_ready or n_rej or perr:
            return fail('incomplete-reply', 'an unterminated header block of %s bytes (<= 16384) produced %s' % (total, names))
    # ---- consequences of not being ready ------------------------------------------------------
    if n_ready == 0:
        if msgs:
            return fail('not-ready-consequences', 'message events without Ready: %s' % msgs[:3])
        ended = names and names[-1] == 'disconnected'
        if (ended or want in ('rejected', 'protocol_error')) and not closed_ok:
            return fail('not-ready-consequences', 'socket not closed after a failed handshake: %s' % tk[-1])
        if want in ('rejected', 'protocol_error') and not ended:
            return fail('not-ready-consequences', 'no final Disconnected after a failed handshake')
    else:
        if n_ready > 1 or names.index('ready') != 2:
            return fail('ready-order', 'Ready must come exactly once, right after Connected: %s' % names[:5])
        # Ready reports the negotiated protocol and extensions
        if want == 'ready':
            rd = evs[names.index('ready')].split(':')
            proto = info['protocol']
            if proto is not Ellipsis:
                want_p = '-' if proto is None else 'p' + proto.hex()
                if rd[2] != want_p:
                    return fail('ready-reports', 'Ready.protocol is %s, the reply said %r' % (rd[2], proto))
            if rd[3] != ('1' if info['has_pmd'] else '0'):
                return fail('ready-reports', 'Ready.extensions %s, the reply %s permessage-deflate' % (rd[3], 'has' if info['has_pmd'] else 'has no'))
            # the connection is usable: what follows the header block in the same read is delivered
            if meta.get('tail') and AFTER_TOK not in evs:
                return fail('ready-then-messages', 'frame following the header block was not delivered after Ready')


# =============================================================================================

# =============================================================================================
# layer 4: SHA-1 / accept value of the model vs hashlib / base64 (and vs the real on_response)

BLOCK_EDGES = (0, 1, 19, 20, 27, 28, 55, 56, 57, 63, 64, 65, 83, 84, 91, 92, 119, 120, 121, 127, 128, 129, 183, 184, 191, 192, 200)


def real_digests(msgs):
    """the two computations exactly as `on_response` spells them (`from hashlib import sha1`, `from base64 import b64encode`,
       `constants.WS_KEY`): (sha1(m).digest(), b64encode(sha1(m + constants.WS_KEY).digest()))"""
    from hashlib import sha1
    from base64 import b64encode
    from lomond import constants
    return [(sha1(m).digest(), b64encode(sha1(m + constants.WS_KEY).digest())) for m in msgs]


def change_accept(acc):
    """an accept value that differs from `acc` in one character and not only in letter case"""
    c = acc[:1]
    if c.isdigit():
        d = b'%d' % ((int(c) + 1) % 10)
    elif c.isalpha():
        d = bytes([c[0] + 1]) if c.lower() != b'z' else (b'a' if c == b'z' else b'A')
    else:
        d = b'/' if c == b'+' else b'+'
    assert d.lower() != c.lower()
    return d + acc[1:]


def digest_layer(res, rng, quick, model_ok, strict, keys_seen):
    msgs = []
    per_len = 10 if quick else 60
    for n in range(201):
        for j in range(per_len):
            msgs.append(bytes(rng.getrandbits(8) for _ in range(n)))
    for n in BLOCK_EDGES:
        msgs += [bytes(n), b'\xff' * n, b'\x80' * n, bytes(range(256))[:n] if n <= 256 else bytes(n)]
    msgs += [b'abc', b'', b'abcdbcdecdefdefgefghfghighijhijkijkljklmklmnlmnomnopnopq', b'a' * 1000, b'dGhlIHNhbXBsZSBub25jZQ==', bytes(range(256)) * 3]
    nrandom = len(msgs)
    msgs += sorted(keys_seen)
    res.exhaustive['sha1_message_lengths_0_to_200'] = 201
    real = real_digests(msgs)
    if real[msgs.index(b'abc')][0].hex() != 'a9993e364706816aba3e25717850c26c9cd0d89d' or \
       real_digests([b'dGhlIHNhbXBsZSBub25jZQ=='])[0][1] != rfc_accept(b'dGhlIHNhbXBsZSBub25jZQ=='):
        res.failures.append(dict(cls='digest', what='lomond computes the accept value with another GUID or hash than RFC 6455 4.2.2 says',
                                 input=dict(kind='digest', msg=b'dGhlIHNhbXBsZSBub25jZQ=='.hex())))
    for i, m in enumerate(msgs):
        res.case(('digest', m), nontrivial=len(m) > 0)
        res.count('digest:key-of-a-case' if i >= nrandom else 'digest:len%%64=%s' % ('55..56' if len(m) % 64 in (55, 56) else ('63..0' if len(m) % 64 in (63, 0) else 'other')))
    if not model_ok:
        return
    mo = runner.model_run(['http sha1 ' + m.hex() for m in msgs] + ['http accept ' + m.hex() for m in msgs])
    for i, (m, (d, a)) in enumerate(zip(msgs, real)):
        res.traces_validated += 1
        if mo[i] != d.hex():
            res.diffs.append(dict(input='http sha1 ' + m.hex(), real=d.hex(), model=mo[i]))
        if mo[len(msgs) + i] != a.hex():
            res.diffs.append(dict(input='http accept ' + m.hex(), real=a.hex(), model=mo[len(msgs) + i]))
    # the model's accept value in front of the REAL on_response (the hash inside on_response, not a re-computation):
    # granted Ready; with one character changed: refused
    probes = []
    for i, m in enumerate(msgs):
        acc = bytes.fromhex(mo[len(msgs) + i])
        head = b'HTTP/1.1 101 Switching Protocols\r\nUpgrade: websocket\r\nSec-WebSocket-Accept: '
        probes.append((m.hex(), (head + acc + CRLF + CRLF).hex()))
        probes.append((m.hex(), (head + change_accept(acc) + CRLF + CRLF).hex()))
    outs = []
    for part in runner.parallel_map('props.c10', 'real_resp_many', [probes[j:j + 1000] for j in range(0, len(probes), 1000)], chunk=1):
        if isinstance(part, dict):
            res.crashes.append(part)
            return
        outs.extend(part)
    for j, out in enumerate(outs):
        good = j % 2 == 0
        res.traces_validated += 1
        if (' res=ok:' in out) != good:
            res.diffs.append(dict(input='http accept ' + probes[j][0], real='on_response %s the reply carrying %s' % ('refuses' if good else 'accepts', 'the model\'s accept value' if good else 'a changed accept value'),
                                  model=bytes.fromhex(mo[len(msgs) + j // 2]).decode('latin-1')))
    res.count('digest:real-on_response-probes', len(outs))
    res.samples += ['http accept ' + msgs[nrandom].hex() if len(msgs) > nrandom else 'http accept ']


def explore(res, tier, seed, model_ok=True):
    import gencheck   # differential test of the translated code (Generated/Code.lean) against the original Python
    gencheck.run(res, 'C10', tier, seed, model_ok)
    rng = random.Random(seed)
    quick = tier == 'quick'
    res.rule = ('(1) reply header blocks built from a semantic description: status (101 / other codes / forms int() accepts / broken), Upgrade variants, '
                '%d kinds of wrong Sec-WebSocket-Accept (digest of another key, swapcase/lower/upper/one letter, truncations, padding, duplicates, folded, ...), '
                'protocols, permessage-deflate parameter spellings (valid / invalid / odd), filler and duplicate fields, in any order, any name casing, blanks/tabs around '
                'values, obs-folds; %d kinds of repeated header names (Upgrade / Sec-WebSocket-Accept / extensions / protocol / filler, equal and different values, both orders) and '
                '%d kinds of continuation lines inside values (filler, extension list, accept, upgrade, protocol; several folds, trailing blanks, blank continuation lines), each kind '
                'forced at least once in layers 1 and 3; plus a malformed stream (23 anomaly kinds) and byte-level mutations (insert/delete/replace/duplicate with CR LF TAB VT FF FS US : , ; = " _ + - 0 1 0x80 0xff NUL) -- run on Response+on_response and on the model; '
                '(2) clients: URL shapes (ws/wss, default/explicit/zero port, userinfo, path, query, fragment) x agent x offered protocols x custom headers x compress, '
                '1-4 connects on one object with a logged os.urandom -- request actually written vs model vs RFC 7230 reader; '
                '(2b) the same clients with add_header() calls before the first connect() and/or BETWEEN 2-4 connect()s on one object, every attempt ending in one of 10 ways '
                '(served, rejected, mid-header, mid-frame, mid-fragment, server close, connect failure, request write failure, abandoned, closed by the application): every request '
                'judged against the custom headers in force at that moment (each exactly as often as added) vs model (`http req` with the current header list); a scripted server reads the '
                'request it really received (first Sec-WebSocket-Key field, first offered protocol) and answers it: Ready with that protocol must follow; '
                '(3) whole connections: the same replies x segmentation (whole, random, around the terminator, byte-wise) x trailing frames x header blocks of exactly '
                '16383..16386 and more bytes, terminated or not; non-trivial = anything but the canonical plain good reply; distinct by wire bytes + segmentation') % (len(WRONG_ACCEPT), len(DUP_KINDS), len(FOLD_KINDS))
    strict = detect_strict()
    variant = '11111' + ('1' if strict else '0')
    res.notes.append('variant detection: Sec-WebSocket-Accept compared %s on the real code' % ('exactly' if strict else 'case-insensitively (D5)'))

    # ---------------- layer 1 ----------------------------------------------------------------
    n1 = 1500 if quick else 30000
    items, metas = [], []
    modes = (['good', 'status', 'status-lenient', 'status-broken', 'upgrade', 'accept', 'ext-valid', 'ext-invalid', 'ext-odd', 'anomaly'] +
             ['dup:' + k for k in DUP_KINDS] + ['fold:' + k for k in FOLD_KINDS])
    for i in range(n1):
        key = base64.b64encode(bytes(rng.getrandbits(8) for _ in range(16)))
        # every mode (and every wrong-accept kind) is hit from the start; the rest is drawn from the mixture
        mode = modes[i] if i < len(modes) else None
        block, m = gen_reply(rng, key, mode)
        if len(modes) <= i < len(modes) + len(WRONG_ACCEPT):
            k = WRONG_ACCEPT[i - len(modes)]
            acc = wrong_accept(rng, k, rfc_accept(key), key)
            block = b'HTTP/1.1 101 Switching Protocols\r\nUpgrade: websocket\r\nConnection: Upgrade\r\n' + b''.join(b'Sec-WebSocket-Accept: ' + a + CRLF for a in acc) + CRLF
            m = dict(mode='accept', sub=k, intended='rejected', plain=True, proto=None)
        items.append((key.hex(), block.hex()))
        metas.append((key, block, m))
    # finite sub-domains, enumerated completely: every 3-digit status code; every byte appended to /
    # put in front of a correct accept value; every single-letter case flip of the digest
    xkey = base64.b64encode(bytes(rng.getrandbits(8) for _ in range(16)))
    xd = rfc_accept(xkey)
    base = b'Upgrade: websocket\r\nConnection: Upgrade\r\n'
    exh = []
    for code in range(1000):
        exh.append(('status3', b'HTTP/1.1 %03d X\r\n' % code + base + b'Sec-WebSocket-Accept: ' + xd + CRLF + CRLF, 'ready' if code == 101 else 'rejected'))
    for b in range(256):
        if b in (10, 13):
            continue
        exh.append(('accept-suffix', b'HTTP/1.1 101 X\r\n' + base + b'Sec-WebSocket-Accept: ' + xd + bytes([b]) + CRLF + CRLF, None))
        exh.append(('accept-prefix', b'HTTP/1.1 101 X\r\n' + base + b'Sec-WebSocket-Accept:' + bytes([b]) + xd + CRLF + CRLF, None))
    nflip = 0
    for i, c in enumerate(xd):
        if chr(c).isalpha():
            nflip += 1
            exh.append(('accept-flip', b'HTTP/1.1 101 X\r\n' + base + b'Sec-WebSocket-Accept: ' + xd[:i] + xd[i:i + 1].swapcase() + xd[i + 1:] + CRLF + CRLF, 'rejected'))
    # whitespace between field name and colon combined with a continuation line, on each header the client inspects; for every
    # blank spelling: good value folded (either reading may apply), junk folded onto a good value (never Ready)
    nwsf = 0
    for wsb in (b' ', b'\t', b' \t'):
        for lead in (b' ', b'\t'):
            H = b'HTTP/1.1 101 X\r\n'
            exh.append(('ws-colon-fold', H + b'Upgrade: websocket\r\nSec-WebSocket-Accept' + wsb + b':\r\n' + lead + xd + CRLF + CRLF, None))
            exh.append(('ws-colon-fold', H + b'Upgrade' + wsb + b':\r\n' + lead + b'websocket\r\nSec-WebSocket-Accept: ' + xd + CRLF + CRLF, None))
            exh.append(('ws-colon-fold', H + b'Upgrade: websocket\r\nSec-WebSocket-Accept' + wsb + b': ' + xd + CRLF + lead + b'junk' + CRLF + CRLF, 'rejected'))
            exh.append(('ws-colon-fold', H + b'Upgrade' + wsb + b': websocket\r\n' + lead + b'h2c\r\nSec-WebSocket-Accept: ' + xd + CRLF + CRLF, 'rejected'))
            exh.append(('ws-colon-fold', H + b'Upgrade: websocket\r\nSec-WebSocket-Accept' + wsb + b': ' + xd + CRLF + lead + rfc_accept(b'x' * 24) + CRLF + CRLF, 'rejected'))
            nwsf += 5
    res.exhaustive['whitespace_before_colon_with_fold'] = nwsf
    for kind, block, intended in exh:
        items.append((xkey.hex(), block.hex()))
        metas.append((xkey, block, dict(mode='exh:' + kind, sub=None, intended=intended, plain=False, proto=None)))
    res.exhaustive['status_codes_3digit'] = 1000
    res.exhaustive['byte_after_accept_value'] = 254
    res.exhaustive['byte_before_accept_value'] = 254
    res.exhaustive['single_letter_case_flips_of_digest'] = nflip
    nfuzz = n1 // 3
    for i in range(nfuzz):
        key = base64.b64encode(bytes(rng.getrandbits(8) for _ in range(16)))
        block, m = gen_reply(rng, key)
        block = fuzz_block(rng, block)
        items.append((key.hex(), block.hex()))
        metas.append((key, block, dict(mode='fuzz', sub=None, intended=None, plain=False, proto=None)))
    chunks = [items[j:j + 500] for j in range(0, len(items), 500)]
    reals = []
    for part in runner.parallel_map('props.c10', 'real_resp_many', chunks, chunk=1):
        if isinstance(part, dict):
            res.crashes.append(part)
            return
        reals.extend(part)
    # the model gets the KEY (state.key); it computes the expected accept value itself (Handshake.acceptFor)
    models = runner.model_run(['http resp %d %s %s' % (1 if strict else 0, k.hex(), b.hex()) for k, b, _ in metas]) if model_ok else None
    for i, ((key, block, m), real) in enumerate(zip(metas, reals)):
        digest = rfc_accept(key)
        canonical = m['mode'] == 'good' and m['plain']
        res.case(('resp', block, key), nontrivial=not canonical)
        res.count('resp:' + m['mode'])
        if m['mode'] == 'accept':
            res.count('accept:' + m['sub'])
        if m['mode'] in ('dup', 'fold'):
            res.count('%s:%s' % (m['mode'], m['sub']))
        res.traces_validated += 1
        if models is not None and models[i] != real:
            res.diffs.append(dict(input='http resp %d %s %s' % (1 if strict else 0, key.hex(), block.hex()), real=real[-1200:], model=models[i][-1200:]))
        got_ready = ' res=ok:' in real
        if m['mode'] == 'fuzz':
            # no verdict is defined for mutated bytes; only the necessary condition below is checked
            want, info = 'either', {}
        else:
            want, info = reply_verdict(block, digest)
        if m['intended'] and want != 'either' and want != m['intended']:
            raise AssertionError('generator and oracle disagree: %s vs %s on %r' % (m['intended'], want, block))
        res.count('verdict:' + want)
        inp = dict(kind='resp', key=key.hex(), block=block.hex())
        if ' res=exc:' in real:
            res.failures.append(dict(cls='handshake-exception', what='on_response raised %s instead of granting Ready or raising HandshakeError (no Rejected event can be produced)' % real.rsplit(' res=exc:', 1)[1],
                                     input=inp, observed=real[-300:], expected=want))
        if want == 'ready' and not got_ready:
            res.failures.append(dict(cls='rejected-good-reply', what='on_response refused a correct upgrade reply', input=inp, observed=real[-300:], expected='ready'))
        if want == 'rejected' and got_ready:
            acc = info['accept']
            if acc is not None and acc != digest and acc.lower() == digest.lower() and info['up_ok'] and info['code'] == 101:
                res.failures.append(dict(cls='accept-case-insensitive',
                                         what='on_response accepted Sec-WebSocket-Accept %r although the digest of the key is %r (differs in letter case)' % (acc.decode('latin-1'), digest.decode()),
                                         input=inp, observed=real[-200:], expected='rejected'))
            else:
                res.failures.append(dict(cls='ready-on-bad-reply', what='on_response accepted a reply that is not a correct upgrade reply (%s/%s)' % (m['mode'], m['sub']),
                                         input=inp, observed=real[-300:], expected='rejected'))
        if want == 'ready' and got_ready:
            out = real.rsplit(' res=', 1)[1].split(':')
            p = info['protocol']
            if p is not Ellipsis and out[1] != ('-' if p is None else 'p' + p.hex()):
                res.failures.append(dict(cls='ready-reports', what='protocol reported %s, reply said %r' % (out[1], p), input=inp))
            if (out[2] != '-') != info['has_pmd']:
                res.failures.append(dict(cls='ready-reports', what='extension set wrong: %s vs has_pmd=%s' % (out[2], info['has_pmd']), input=inp))
        # necessary condition, also on anomalous input: Ready needs the digest (up to case) somewhere in the block and "101" in the status line
        if got_ready and (digest.lower() not in block.lower() or b'1' not in block.split(CRLF)[0]):
            res.failures.append(dict(cls='ready-on-bad-reply', what='Ready although the digest does not occur in the reply at all', input=inp, observed=real[-300:]))
    res.exhaustive['wrong_accept_kinds'] = len(WRONG_ACCEPT)
    keys_seen = set(k for k, _b, _m in metas)       # every key of layers 1-3 goes through layer 4
    res.samples += ['http resp 0 <key> ' + metas[j][1][:160].decode('latin-1').replace('\r\n', '\\r\\n') for j in (0, len(modes) + 1, len(modes) + 4)]

    # ---------------- layer 2 ----------------------------------------------------------------
    n2 = 120 if quick else 1500
    clients = [gen_client(rng, seed * 100003 + i) for i in range(n2)]
    outs = runner.parallel_map('props.c10', 'real_requests', clients, chunk=25)
    lines, backrefs = [], []
    for ci, (item, out) in enumerate(zip(clients, outs)):
        if '__crash__' in out:
            res.crashes.append(out)
            continue
        used = set()
        u = split_url(item['url'])
        judged = not u['v6'] and all(ord(c) < 128 for c in item['url'])
        agent = item['agent'] if item['agent'] is not None else out['default_agent']
        for k, trace in enumerate(out['traces']):
            tk = toks(trace)
            wr = [t for t in tk if t.startswith('W:')]
            res.case(('req', json.dumps(item, sort_keys=True), k), nontrivial=True)
            res.count('req:connect#%d' % k if k < 3 else 'req:connect#3+')
            res.count('req:' + ('wss' if u['secure'] else 'ws') + (':port' if u['port'] is not None else ':defaultport') + (':query' if u['query'] else ''))
            res.traces_validated += 1
            if not wr:
                res.failures.append(dict(cls='request-not-written', what='connect() wrote no request', input=dict(kind='req', item=item, connect=k), observed=trace[:300]))
                continue
            raw = bytes.fromhex(wr[0][2:])
            fresh = [d[1] for d in out['draws'] if d[2] == 'connect%d' % k and d[0] == 16]
            key = judge_request(res, item, raw, fresh, used, dict(kind='req', item=item, connect=k)) if judged else None
            if key:
                used.add(key)
                keys_seen.add(key)
            # model: the key of this connect is b64 of the draw made by this connect's reset()
            rnd16 = fresh[0] if fresh else ''
            lines.append(req_model_line(item, rnd16, agent))
            backrefs.append((item, k, raw))
            # exactly one 16-byte draw per connect, one more at construction
            if len(fresh) != 1:
                res.failures.append(dict(cls='key-not-fresh', what='connect() made %d 16-byte draws (expected exactly one)' % len(fresh), input=dict(kind='req', item=item, connect=k)))
    if model_ok and lines:
        mo = runner.model_run(lines)
        for (item, k, raw), line, m in zip(backrefs, lines, mo):
            want = raw.hex() + ' spec:' + show_spec_request(raw)
            if m != want:
                res.diffs.append(dict(input=line[:2000], real=want[-1500:], model=m[-1500:], item=item, connect=k))
    res.samples += lines[:1]

    # ---------------- layer 2b: add_header() between connection attempts; the server answers the request it received ----
    explore_reconf(res, rng, quick, model_ok, seed, keys_seen)

    # ---------------- layer 3 ----------------------------------------------------------------
    n3 = 260 if quick else 4000
    scs, metas3 = [], []
    forced3 = ['dup:' + k for k in DUP_KINDS] + ['fold:' + k for k in FOLD_KINDS]
    for i in range(n3):
        # every repeated-name / continuation-line kind runs as a whole connection from the start; the rest is the mixture
        sc, meta = conn_scenario(rng, tier, i, variant, forced3[i] if i < len(forced3) else None)
        scs.append(sc)
        metas3.append(meta)
    # corpus: the D5 witness and the two limit witnesses always run
    for extra in ('swapcase', 'limit-16384', 'limit-16385', 'unterminated-16385'):
        sc = Scenario([], prate=0, key_seed=7, variant=variant)
        key = sc.key()
        d = rfc_accept(key)
        if extra == 'swapcase':
            block = b'HTTP/1.1 101 Switching Protocols\r\nUpgrade: websocket\r\nConnection: Upgrade\r\nSec-WebSocket-Accept: ' + d.swapcase() + b'\r\n\r\n'
            meta = dict(kind='reply', mode='accept', sub='swapcase', intended='rejected', block=block, tail=len(AFTER), seg='whole')
            data = block + AFTER
        elif extra.startswith('limit'):
            total = int(extra.split('-')[1])
            block = pad_block(random.Random(1), b'HTTP/1.1 101 Switching Protocols\r\nUpgrade: websocket\r\nSec-WebSocket-Accept: ' + d + b'\r\n\r\n', total)
            meta = dict(kind='limit', mode='good', sub=None, intended='ready', block=block, tail=len(AFTER), total=total, seg='whole')
            data = block + AFTER
        else:
            data = (b'HTTP/1.1 101 Switching Protocols\r\nUpgrade: websocket\r\nSec-WebSocket-Accept: ' + d + b'\r\nX: ' + b'p' * 20000)[:16385]
            meta = dict(kind='unterminated', mode='unterminated', sub='p', intended=None, block=None, tail=0, total=16385, seg='whole')
        sc.env = reads([data]) + [('wait', 1, ('eof',))]
        meta['data_len'] = len(data)
        scs.append(sc)
        metas3.append(meta)
    pairs = coreutil.run_pairs(scs, model_ok)
    for (js, line, real, model), meta, sc in zip(pairs, metas3, scs):
        if isinstance(real, dict):
            res.crashes.append(real)
            continue
        canonical = meta.get('mode') == 'good' and meta.get('plain') and meta.get('seg') == 'whole' and meta['kind'] == 'reply'
        res.case(line, nontrivial=not canonical)
        res.count('conn:' + meta['kind'])
        res.count('conn:mode:' + str(meta.get('mode')))
        if meta.get('mode') in ('dup', 'fold'):
            res.count('conn:%s:%s' % (meta['mode'], meta.get('sub')))
        res.count('conn:seg:' + str(meta.get('seg')))
        judge_conn(res, js, line, real, meta, sc)
        res.count('conn:want:' + str(meta.get('want')))
        if meta.get('total'):
            res.count('conn:block-bytes:%s' % (meta['total'] if 16380 <= meta['total'] <= 16390 else ('<16384' if meta['total'] < 16384 else '>16384')))
    coreutil.check_corr(res, pairs)
    res.samples += [p[1][:300] for p in pairs[:2] if not isinstance(p[2], dict)]
    # the expected accept value is no input of the model: no line carries it, and the key the model reads out of the
    # request bytes of the line (Handshake.keyOfRequest -> challenge) is the key the scenario's connection sends
    reqs = []
    for (js, line, real, model), sc in zip(pairs, scs):
        if ' chal=' in line:
            res.diffs.append(dict(input=line[:300], real='no chal= token', model='the core line passes the accept value as an input'))
        reqs.append((line.split(' req=', 1)[1].split(' ', 1)[0], sc.key()))
        keys_seen.add(sc.key())
    if model_ok and reqs:
        for (rq, key), got in zip(reqs, runner.model_run(['http keyof ' + rq for rq, _ in reqs])):
            if got != key.hex():
                res.diffs.append(dict(input='http keyof ' + rq[:600], real=key.hex(), model=got))

    # ---------------- layer 4: the digest ------------------------------------------------------
    digest_layer(res, rng, quick, model_ok, strict, keys_seen)
    res.notes.append('observations (not judged): lomond accepts status forms +101/0101/1_01, any first token as HTTP version, VT/FF/FS..US as blanks around values, '
                     'unknown extensions/parameters, permessage-deflate although not offered, and does not look at the Connection header')


def replay(rp):
    inp = rp.get('input')
    if isinstance(inp, dict) and inp.get('kind') == 'resp':
        key, block = bytes.fromhex(inp['key']), bytes.fromhex(inp['block'])
        print('key    : %s' % key.decode())
        print('digest : %s' % rfc_accept(key).decode())
        print('reply  : %r' % block)
        print('oracle : %s' % (reply_verdict(block, rfc_accept(key)),))
        print('real   : %s' % real_resp((inp['key'], inp['block'])))
        return 0
    if isinstance(inp, dict) and inp.get('kind') == 'req':
        out = real_requests(inp['item'])
        for t in out['traces']:
            print(t)
        return 0
    if isinstance(inp, dict) and inp.get('kind') == 'reconf':
        out = real_reconf(inp['item'])
        for k, (t, a) in enumerate(zip(out['traces'], out['answers'])):
            print('connect #%d: custom headers in force: %r' % (k + 1, [(bytes.fromhex(h), bytes.fromhex(v)) for h, v in reconf_headers(inp['item'], k)]))
            w = [x for x in toks(t) if x.startswith('W:')]
            print('  request written: %r' % (bytes.fromhex(w[0][2:]) if w else None))
            print('  server answered: %s' % (a,))
            print('  trace: %s' % t[-500:])
        return 0
    if isinstance(inp, dict) and inp.get('kind') == 'conn':
        sc = coreutil.scenario_from_json(inp['scenario'])
        print(world.run_real(sc))
        return 0
    return coreutil.replay_core(rp)
