"""C05 - Text is delivered iff strictly valid UTF-8; fail-fast.
   (T) Lomond.Properties.C05 over the generated DFA table.
   (K) exhaustive validator steps + all short strings on the real Utf8Validator vs the model;
       generated text messages through the whole receive path, every split.
   (S) oracle: hand-written RFC 3629 recogniser + CPython's codec."""
from __future__ import annotations
import itertools, random
import runner, coreutil, gen_core
from coreutil import Scenario, server_frame, cut, reads, events
import refcodec

TRUSTED = ['harness/translate.py (DFA table extraction)', 'correspondence: harness/props/c05.py + harness/world.py',
           'CPython bytes.decode as second oracle']
ASSUMPTIONS = ['pure-Python Utf8Validator is the one in use (wsaccel absent; translator checks this)',
               'message-level statements go through the hand-written core model (Model/Core.lean)']


def real_validator_steps(_):
    from lomond.utf8validator import Utf8Validator
    out = []
    for s in range(9):
        for b in range(256):
            v = Utf8Validator()
            v._state = s
            ok, ends, _, _ = v.validate(bytes([b]))
            out.append((s, b, ok, v._state))
    return out


def real_validate_many(items):
    from lomond.utf8validator import Utf8Validator
    out = []
    for bs in items:
        v = Utf8Validator()
        ok, ends, _, _ = v.validate(bs)
        out.append((ok, ends, v._state))
    return out


def real_validate_chunks(items):
    """items: lists of chunks fed to ONE validator one after the other; returns per item the list of (ok, ends) after each chunk
    (stops at the first rejection)"""
    from lomond.utf8validator import Utf8Validator
    out = []
    for chunks in items:
        v = Utf8Validator()
        r = []
        for c in chunks:
            ok, ends, _, _ = v.validate(c)
            r.append((ok, ends))
            if not ok:
                break
        out.append(r)
    return out


def long_chunk_cases(rng, tier):
    """LONG chunks (the validator may treat them differently from short ones): lengths around 64, 256, 1 KiB, 4 KiB, 64 KiB; the chunk
    ends after a complete 1/2/3/4-byte character, or 1..3 bytes into a multi-byte character (continued in the next chunk, correctly
    or not); an invalid byte near the start, in the middle, near the end"""
    chars = ['a', '\u00e9', '\u20ac', '\U0001f600', '\U0010ffff', '\ud7ff', '\ue000', '\x7f', '\u0080', '\u07ff', '\u0800', '\uffff', '\U00010000']
    out = []
    for n in ([60, 255, 1020, 1024, 1030, 4096, 65536] if tier == 'quick' else [60, 255, 1000, 1020, 1023, 1024, 1025, 1030, 2048, 4096, 16384, 65530, 65536, 70000]):
        for last in chars:
            enc = last.encode('utf-8')
            body = ''.join(rng.choice(chars) for _ in range(n)).encode('utf-8')[:n]
            # repair the cut end of the filler so that it is valid text
            while body:
                try:
                    body.decode('utf-8'); break
                except UnicodeDecodeError:
                    body = body[:-1]
            whole = body + enc
            out.append([whole])                                     # ends exactly on a complete character
            for k in range(1, len(enc)):
                out.append([body + enc[:k], enc[k:] + b'tail'])         # split inside the last character, completed in the next chunk
                out.append([body + enc[:k], b'A'])                      # ... not completed: invalid
            out.append([whole, whole])
            for pos in (1, len(whole) // 2, len(whole) - 2, len(whole) - 5):
                bad = bytearray(whole); bad[pos] = rng.choice([0xff, 0xc0, 0x80, 0xf8]); out.append([bytes(bad)])
    return out


def text_scenario(rng, payload, nfrag, ncuts, compress_negotiated=False, stop_after=None, ctrl_between=False, compressed=False, empty_final=False, empty_first=False):
    """one text message `payload` in nfrag frames, stream cut into reads; `compressed`: the message is sent compressed (RSV1;
       the fragments cut the COMPRESSED bytes); `empty_final`: an empty final fragment is appended"""
    sc = Scenario([], prate=0)
    wire = payload
    if compressed:
        compress_negotiated = True
        wire = refcodec.DeflatePeer().compress(payload)
    points = sorted(rng.sample(range(1, len(wire)), min(nfrag - 1, max(0, len(wire) - 1)))) if len(wire) > 1 else []
    parts = cut(wire, points) or [b'']
    if empty_final:
        parts = parts + [b'']
    if empty_first:
        parts = [b''] + parts
    frames = []
    for i, part in enumerate(parts):
        frames.append(server_frame(1 if i == 0 else 0, part, fin=1 if i == len(parts) - 1 else 0, rsv1=1 if (compressed and i == 0) else 0))
    extra = b'Sec-WebSocket-Extensions: permessage-deflate\r\n' if compress_negotiated else b''
    hs = sc.good_reply(extra)
    ctrl = [server_frame(rng.choice([9, 10]), bytes(rng.randrange(256) for _ in range(rng.randint(0, 3)))) if (ctrl_between and i < len(frames) - 1) else b'' for i in range(len(frames))]
    stream = b''.join(f + c for f, c in zip(frames, ctrl))
    if stop_after is not None:
        # keep only the bytes up to and including payload byte index stop_after-1
        # locate that byte in the stream: walk frames
        pos, seen, out = 0, 0, b''
        for fr, part, c in zip(frames, parts, ctrl):
            hdr = len(fr) - len(part)
            if seen + len(part) >= stop_after:
                out += fr[:hdr + (stop_after - seen)]
                break
            out += fr + c
            seen += len(part)
        stream = out
    data = hs + stream
    cuts = coreutil.random_cuts(rng, len(data), ncuts)
    sc.env = reads(coreutil.limit_chunks(cut(data, cuts)))       # a read never returns more than the receive buffer holds
    if stop_after is None:
        sc.env.append(('wait', 1, ('eof',)))
    return sc


ZTAIL = b'\x00\x00\xff\xff'


def zpos_scenario(rng):
    """a compressed text message at a position > 1 of a connection with permessage-deflate (context takeover, or
       server_no_context_takeover): a prefix of 1-3 items (compressed Text / Binary in 1-3 fragments, plain Text, Ping), THEN the
       compressed Text under test, THEN an uncompressed Text 'A' (must be delivered iff the text under test was).  The text under test
       is (slice) a slice of the plaintext history cut anywhere - also inside multi-byte characters -, compressed by the same zlib
       stream, so that it is coded as back-references into the earlier messages; (token) a hand-made fixed block of pure
       back-references (d, len) into the history, which means nothing without it; (gen) an independent payload.
       Returns (scenario, prefix_events, out) - out: what an RFC 7692 receiver must make of the message (independent inflater of
       refcodec over the plaintext window kept so far), None = not inflatable; plus whether the history matters."""
    sc = Scenario([], prate=0)
    snt = rng.random() < 0.3
    sw = rng.choice([15, 15, 12, 9])
    peer = refcodec.DeflatePeer(server_bits=sw, server_no_takeover=snt)
    extra = b'Sec-WebSocket-Extensions: permessage-deflate; server_max_window_bits=%d%s\r\n' % (sw, b'; server_no_context_takeover' if snt else b'')
    ctx = bytearray()
    frames, expected = [], []
    chars = ['a', 'b', ' ', 'é', '€', '\U0001f600', '߿', '퟿']

    def zframes(op, wire):
        pts = sorted(rng.sample(range(1, len(wire)), min(rng.choice([0, 0, 1, 2]), max(0, len(wire) - 1)))) if len(wire) > 1 else []
        parts = cut(wire, pts) or [b'']
        return [server_frame(op if i == 0 else 0, part, fin=1 if i == len(parts) - 1 else 0, rsv1=1 if i == 0 else 0) for i, part in enumerate(parts)]

    ncomp = 0
    for k in range(rng.randint(1, 3)):
        kind = rng.choice(['ztext', 'ztext', 'zbin', 'text', 'ping']) if (k > 0 or rng.random() < 0.2) else 'ztext'
        if kind in ('ztext', 'zbin'):
            t = ''.join(rng.choice(chars) for _ in range(rng.randint(3, 20))).encode('utf-8')
            if kind == 'zbin':
                t = t[rng.randint(0, 2):] + bytes([rng.choice([0x80, 0xbf, 0xff, 0xc0])])
            frames += zframes(1 if kind == 'ztext' else 2, peer.compress(t))
            expected.append(('E:text:' if kind == 'ztext' else 'E:binary:') + t.hex())
            ncomp += 1
            if not snt:
                ctx += t
        elif kind == 'text':
            t = ''.join(rng.choice(chars) for _ in range(rng.randint(0, 6))).encode('utf-8')
            frames.append(server_frame(1, t)); expected.append('E:text:' + t.hex())
        else:
            d = bytes(rng.randrange(256) for _ in range(rng.randint(0, 3)))
            frames.append(server_frame(9, d)); expected.append('E:ping:' + d.hex())
    mode = rng.choice(['slice', 'slice', 'token', 'gen'])
    hist = bytes(ctx)
    if mode == 'slice' and len(hist) >= 4:
        i = rng.randrange(0, len(hist) - 3)
        j = rng.randint(i + 3, len(hist))
        wire = peer.compress(hist[i:j])
    elif mode == 'token' and len(hist) >= 3:
        toks_ = []
        for _ in range(rng.randint(1, 3)):
            dd = rng.randint(1, len(hist)) if rng.random() < 0.8 else len(hist) + rng.randint(1, 4)      # sometimes beyond the history: not inflatable
            toks_.append((dd, rng.randint(3, min(12, max(3, dd)))))
            if rng.random() < 0.3:
                toks_.append(rng.choice([0x61, 0x80, 0xe2]))
        bw = refcodec.BitWriter()
        refcodec.put_fixed_block(bw, toks_)
        refcodec.sync_tail(bw)
        wire = bw.bytes()
        assert wire.endswith(ZTAIL)
        wire = wire[:-4]
    else:
        mode = 'gen'
        wire = peer.compress(gen_payload(rng))
    try:
        out = refcodec.inflate_log(wire + ZTAIL, hist, stop_at_final=False)['out']
    except refcodec.InflateError:
        out = None
    try:
        alone = refcodec.inflate_log(wire + ZTAIL, b'', stop_at_final=False)['out']
    except refcodec.InflateError:
        alone = None
    frames += zframes(1, wire)
    frames.append(server_frame(1, b'A'))
    data = sc.good_reply(extra) + b''.join(frames)
    sc.env = reads(coreutil.limit_chunks(cut(data, coreutil.random_cuts(rng, len(data), rng.choice([0, 1, 3, 10 ** 6]))))) + [('wait', 1, ('eof',))]
    return sc, expected, out, dict(mode=mode, snt=snt, ncomp=ncomp, history_matters=(alone != out), wire=wire.hex(), window=hist.hex())


_WRONG = [0x41, 0xc3, 0xff, 0xe2, 0xf0, 0x80, 0xbf, 0x9f, 0xa0, 0x8f, 0x90, 0xc0, 0xf5]
_CUTS = [(2, 1), (3, 1), (3, 2), (4, 1), (4, 2), (4, 3)]
_BY_WIDTH = {2: ['\u00e9', '\u0080', '\u07ff'], 3: ['\u20ac', '\u0800', '\ud7ff', '\ue000', '\uffff'], 4: ['\U0001f600', '\U00010000', '\U0010ffff']}


def _ascii_fill(rng, n):
    """n bytes of plain ASCII (JSON-like text with format metacharacters; now and then NUL / DEL)"""
    if n <= 0:
        return b''
    unit = rng.choice([b'{"key": "value", "n": 12345} ', b'abc def %s {0} ', b'x', b'lorem ipsum, dolor\r\n', b'\x00\x7f~ '])
    return (unit * (n // len(unit) + 1))[:n]


def boundary_scenario(rng, cuts, L, kind, where, joined, rest, ctrl):
    """An uncompressed text message with len(cuts) BOUNDARIES, each placed inside a multi-byte sequence (cuts[i] = (width, k): k bytes
       of a width-byte character come before the boundary).  where='frame': the boundary is a frame boundary (the message has
       len(cuts)+1 frames) and the read that brings the next frame's header brings exactly the first L bytes of its payload (the
       frame may be longer: `rest` more bytes follow in a later read); `joined`: that read also carries the end of the previous frame;
       `ctrl`: a Ping sits between the two frames.  where='read': one frame, the boundary is a boundary between two reads and the
       second read is L bytes long.  After every boundary but the last the sequence is completed correctly and plain ASCII follows.
       kind='valid': so also after the last one, the message is finished and must be delivered;  kind='ascii' / 'wrong': the first byte
       after the last boundary is an ASCII byte / some other byte that cannot continue the sequence, the rest of the L-byte slice is
       plain ASCII, and the stream STOPS with that read (the message is never finished): the error is due by then.
       Returns (scenario, payload as declared by the frames, index of the first offending byte or None)."""
    payload, bounds = b'', []
    for i, (w, k) in enumerate(cuts):
        enc = rng.choice(_BY_WIDTH[w]).encode('utf-8')
        payload += _ascii_fill(rng, rng.choice([0, 1, 3, 40]) if i == 0 else 0) + enc[:k]
        o = len(payload)
        if i == len(cuts) - 1 and kind != 'valid':
            first = b'A' if kind == 'ascii' else bytes([rng.choice([b for b in _WRONG if b >= 0x80 and not refcodec._extendable(enc[:k] + bytes([b]))])])
            if kind == 'ascii':
                first = _ascii_fill(rng, 1)
            sl = first + _ascii_fill(rng, L - 1)
        else:
            sl = enc[k:] + _ascii_fill(rng, L - (len(enc) - k))
        payload += sl
        bounds.append((o, len(sl)))
        payload += _ascii_fill(rng, rest)
    # self-check of the generator with the reference recogniser (linear: the part before the last character is valid, the few bytes
    # around the last boundary decide)
    t0 = bounds[-1][0] - cuts[-1][1]
    assert refcodec.rfc3629_valid(payload[:t0])
    bad = refcodec.first_bad_utf8_index(payload[t0:t0 + 8])
    assert (refcodec.rfc3629_valid(payload) if kind == 'valid' else bad == cuts[-1][1] + 1), (kind, bad, bounds)
    sc = Scenario([], prate=0)
    hs = sc.good_reply()
    cutset = set()
    if where == 'frame':
        parts = cut(payload, [o for o, _ in bounds])
        lastfin = 1 if kind == 'valid' else (0 if rest == 0 else rng.choice([0, 1]))
        stream, starts = b'', []
        for j, part in enumerate(parts):
            if j > 0 and ctrl:
                stream += server_frame(9, b'p%d' % j)
            fr = server_frame(1 if j == 0 else 0, part, fin=lastfin if j == len(parts) - 1 else 0)
            starts.append((len(stream), len(fr) - len(part)))
            stream += fr
        for j, (o, n) in enumerate(bounds):
            st, hdr = starts[j + 1]
            if not joined:
                cutset.add(st)
            cutset.add(st + hdr + n)
        end = starts[-1][0] + starts[-1][1] + bounds[-1][1]
    else:
        stream = server_frame(1, payload + (b'' if kind == 'valid' else b' never sent'), fin=1)
        hdr = len(stream) - len(payload) - (0 if kind == 'valid' else 11)
        for o, n in bounds:
            cutset.add(hdr + o); cutset.add(hdr + o + n)
        end = hdr + bounds[-1][0] + bounds[-1][1]
    if kind != 'valid':
        stream = stream[:end]
    chunks = [c for c in cut(stream, sorted(x for x in cutset if 0 < x < len(stream))) if c]
    if rng.random() < 0.3 and len(chunks[0]) < 4096:
        chunks[0] = hs + chunks[0]              # the handshake reply and the first bytes in one read
    else:
        chunks = [hs] + chunks
    sc.env = reads(coreutil.limit_chunks(chunks))
    if kind == 'valid':
        sc.env.append(('wait', 1, ('eof',)))
    return sc, payload, (None if kind == 'valid' else bounds[-1][0])


def boundary_cases(rng, tier):
    """cut position inside each width of sequence x length of the slice that follows x kind x where x number of boundaries"""
    out = []
    lens = [1, 63, 64, 511, 512, 513, 1024, 4096, 65536] if tier == 'quick' else [1, 2, 63, 64, 65, 255, 256, 511, 512, 513, 1000, 1023, 1024, 1025, 2048, 4095, 4096, 4097, 16384, 65535, 65536]
    for L in lens:
        for ci, c in enumerate(_CUTS):
            for kind in ('ascii', 'wrong', 'valid'):
                for where, joined in (('frame', False), ('frame', True), ('read', False)):
                    for m in ((1, 2) if tier == 'quick' else (1, 2, 3, 5)):
                        if L > 1024 and m > 1 and tier == 'quick':
                            continue
                        if L > 4096 and (where, joined) != ('frame', False) and (tier == 'quick' or m > 1):
                            continue
                        if L > 4097 and m > 2:
                            continue
                        cuts = [rng.choice(_CUTS) for _ in range(m - 1)] + [c]
                        rest = rng.choice([0, 0, 7, 600])
                        ctrl = where == 'frame' and rng.random() < 0.25
                        sc, p, bad = boundary_scenario(rng, cuts, L, kind, where, joined, rest, ctrl)
                        out.append((sc, p, kind, ctrl, 'boundary_%s%s_%s' % (where, '_joined' if joined else '', kind), L))
    return out


def gen_payload(rng):
    kind = rng.random()
    cps = []
    for k in range(rng.randint(0, 12)):
        r = rng.random()
        if (k == 0 and r < 0.2) or r < 0.04:
            cps.append(rng.choice(gen_core.SPECIAL_CPS))      # leading U+FEFF, NUL, noncharacters, braces, percent, ...
        elif r < 0.4:
            cps.append(rng.randint(0, 0x7f))
        elif r < 0.6:
            cps.append(rng.randint(0x80, 0x7ff))
        elif r < 0.8:
            c = rng.randint(0x800, 0xffff)
            cps.append(c if not 0xd800 <= c <= 0xdfff else 0xe000)
        else:
            cps.append(rng.randint(0x10000, 0x10ffff))
    good = ''.join(chr(c) for c in cps).encode('utf-8')
    if kind < 0.45:
        return good
    b = bytearray(good or b'a')
    m = rng.random()
    if m < 0.25:
        b[rng.randrange(len(b))] = rng.choice([0x80, 0xbf, 0xc0, 0xc1, 0xf5, 0xff, 0xed, 0xe0, 0xf0, 0xf4])
    elif m < 0.5:
        b = b[:max(1, len(b) - rng.randint(1, 2))]          # truncated tail
    elif m < 0.75:
        bad = rng.choice([b'\xed\xa0\x80', b'\xc0\xaf', b'\xe0\x80\xaf', b'\xf4\x90\x80\x80', b'\xf0\x8f\xbf\xbf', b'\xed\xbf\xbf', b'\xe0\x9f\xbf'])
        i = rng.randrange(len(b) + 1)
        b[i:i] = bad
    else:
        b.insert(rng.randrange(len(b) + 1), rng.randrange(0x80, 0x100))
    return bytes(b)


def explore(res, tier, seed, model_ok=True):
    import gencheck   # differential test of the translated code (Generated/Code.lean) against the original Python
    gencheck.run(res, 'C05', tier, seed, model_ok)
    rng = random.Random(seed)
    res.rule = ('exhaustive: 9x256 validator steps and all byte strings of length <= %d on the real Utf8Validator vs model vs RFC 3629 oracle; '
                'long chunks (60 bytes .. 64 KiB) ending on / inside every width of character, continued correctly or not, with an invalid byte near start / middle / end: validator vs RFC 3629 oracle; generated: text payloads (valid, and invalid by 7 corruption kinds) x fragmentation x read cuts through the real receive path; '
                'boundary family (real code vs model vs oracle): a frame / read ending 1..3 bytes into a 2/3/4-byte sequence x length of the next frame\'s first read slice (1 .. 65536; plain ASCII, or starting with a byte that cannot continue) x 1..5 such boundaries x separate / joined reads x Ping between: error due by the read that delivers the offending byte (stream stops there), valid texts of the same shape delivered exactly; '
                'non-trivial = multi-byte or invalid payload, distinct by (payload, fragmentation, cuts)') % (3 if tier == 'thorough' else 2)
    # 1. exhaustive steps
    steps = real_validator_steps(None)
    mo = runner.model_run(['utf8 step %d %d' % (s, b) for s, b, _, _ in steps]) if model_ok else None
    for i, (s, b, ok, st) in enumerate(steps):
        res.case(('step', s, b), nontrivial=(b >= 0x80))
        if mo is not None and str(st) != mo[i]:
            res.diffs.append(dict(input='utf8 step %d %d' % (s, b), real=st, model=mo[i]))
        if ok != (st != 1):
            res.failures.append(dict(cls='validator-step', what='validate() verdict inconsistent with state', input=[s, b]))
    res.exhaustive['validator_steps'] = len(steps)
    # 2. all short strings
    maxlen = 3 if tier == 'thorough' else 2
    strings = [bytes(t) for n in range(maxlen + 1) for t in itertools.product(range(256), repeat=n)] if maxlen <= 2 else None
    if strings is None:
        strings = [bytes(t) for n in range(3) for t in itertools.product(range(256), repeat=n)]
        # length 3: all strings whose first byte is >= 0x80 or that contain a non-ascii byte (ascii-only are trivial) -- 3 ascii bytes never reject
        strings += [bytes(t) for t in itertools.product(range(0x80, 0x100), range(256), range(256))]
        strings += [bytes((a, b, c)) for a in (0x00, 0x41, 0x7f) for b in range(256) for c in range(256)]
    chunks = [strings[i:i + 20000] for i in range(0, len(strings), 20000)]
    reals = []
    for part in runner.parallel_map('props.c05', 'real_validate_many', chunks, chunk=1):
        reals.extend(part)
    models = runner.model_run(['utf8 validate 0 ' + bs.hex() for bs in strings]) if model_ok else None
    for i, bs in enumerate(strings):
        ok, ends, st = reals[i]
        res.case(('str', bs), nontrivial=any(b >= 0x80 for b in bs))
        want_ext = refcodec._extendable(bs)
        want_wf = refcodec.rfc3629_valid(bs)
        if ok != want_ext:
            res.failures.append(dict(cls='validator-verdict', what='validate() says %s, RFC 3629 extendable=%s' % (ok, want_ext), input=bs.hex()))
        if ok and ends != want_wf:
            res.failures.append(dict(cls='validator-ends', what='endsOnCodePoint=%s, RFC 3629 wf=%s' % (ends, want_wf), input=bs.hex()))
        try:
            bs.decode('utf-8')
            cp = True
        except UnicodeDecodeError:
            cp = False
        if cp != want_wf:
            res.failures.append(dict(cls='oracle-disagree', what='CPython codec and RFC oracle disagree', input=bs.hex()))
        if models is not None:
            m = models[i]
            r = ('valid %d' % st) if ok else 'invalid'
            if m != r:
                res.diffs.append(dict(input='utf8 validate 0 ' + bs.hex(), real=r, model=m))
    res.exhaustive['strings_len_le_%d' % maxlen] = len(strings)
    # 2b. decode agreement on valid strings (model decoder vs CPython)
    valid = [bs for bs in strings if refcodec.rfc3629_valid(bs)][:70000]
    if model_ok:
        md = runner.model_run(['utf8 decode ' + bs.hex() for bs in valid])
        for bs, m in zip(valid, md):
            want = 'ok ' + '.'.join(str(ord(c)) for c in bs.decode('utf-8'))
            if m != want:
                res.diffs.append(dict(input='utf8 decode ' + bs.hex(), real=want, model=m))
    # 2c. long chunks
    longs = long_chunk_cases(rng, tier)
    lparts = [longs[i:i + 40] for i in range(0, len(longs), 40)]
    lres = []
    for part in runner.parallel_map('props.c05', 'real_validate_chunks', lparts, chunk=1):
        lres.extend(part)
    for chunks, r in zip(longs, lres):
        res.case(('long', len(chunks[0]), hash(tuple(chunks))), nontrivial=True); res.count('long_chunk_validations')
        acc = b''
        for c, (ok, ends) in zip(chunks, r):
            acc += c
            want_ext, want_wf = refcodec._extendable(acc), refcodec.rfc3629_valid(acc)
            if ok != want_ext or (ok and ends != want_wf):
                res.failures.append(dict(cls='validator-verdict', what='validate() on a chunk of %d bytes (total %d) says ok=%s ends=%s, RFC 3629: extendable=%s well-formed=%s' % (
                    len(c), len(acc), ok, ends, want_ext, want_wf), input=dict(chunks=[x.hex() if len(x) < 3000 else ('%d bytes ending ' % len(x)) + x[-16:].hex() for x in chunks]),
                    observed=[ok, ends], expected=[want_ext, want_wf]))
                break
            if not ok:
                break
    # 3. message level through the real receive path
    n = 300 if tier == 'quick' else 3000
    scs, meta = [], []
    for i in range(n):
        p = gen_payload(rng)
        nfrag = rng.choice([1, 1, 2, 3, 4])
        ncuts = rng.choice([0, 1, 3, 8, 10 ** 6])
        neg = rng.random() < 0.25
        cb = rng.random() < 0.4
        bad = refcodec.first_bad_utf8_index(p)
        if bad is not None and rng.random() < 0.6:
            scs.append(text_scenario(rng, p, nfrag, ncuts, neg, stop_after=bad, ctrl_between=cb))
            meta.append((p, 'failfast', neg, cb))
        else:
            scs.append(text_scenario(rng, p, nfrag, ncuts, neg, ctrl_between=cb))
            meta.append((p, 'verdict', neg, cb))
    # texts larger than the 64 KiB receive buffer arriving in ONE burst (and in a few large reads): valid with multi-byte characters
    # throughout, and invalid far into the message
    for size in ((70000, 140000) if tier == 'quick' else (65536, 66000, 70000, 131072, 140000, 300000)):
        big = ''.join(rng.choice(['a', 'b', ' ', '\u00e9', '\u20ac', '\U0001f600']) for _ in range(size // 2)).encode('utf-8')[:size]
        while True:
            try:
                big.decode('utf-8'); break
            except UnicodeDecodeError:
                big = big[:-1]
        for p_ in (big, big[:40000] + b'\xff' + big[40001:], big[:-1]):
            for ncuts in (0, 1, 3):
                scs.append(text_scenario(rng, p_, 1, ncuts, False))
                meta.append((p_, 'verdict', False, False))
    # texts whose exact decoding is easily lost: leading / inner U+FEFF, NUL, noncharacters, format directives
    for t in ('\ufeff', '\ufeffabc', 'a\ufeffb', '\ufeff\ufeff', '\x00', '\x00a\x00', '\uffff\ufffe', '{}', '{0} %s {x', '%', '\u2028\x85'):
        p_ = t.encode('utf-8')
        for nfrag, ncuts in ((1, 0), (2, 0), (1, 10 ** 6), (3, 3)):
            scs.append(text_scenario(rng, p_, nfrag, ncuts, False, ctrl_between=(nfrag > 1)))
            meta.append((p_, 'verdict', False, nfrag > 1))
    # compressed text: the verdict is about the INFLATED bytes (valid, invalid, truncated at the very end), any fragmentation of the
    # compressed bytes; and uncompressed messages whose last fragment is empty (a truncated tail can then only be seen by the final check)
    for k in range(40 if tier == 'quick' else 400):
        p_ = gen_payload(rng)
        scs.append(text_scenario(rng, p_, rng.choice([1, 2, 3]), rng.choice([0, 1, 10 ** 6]), compressed=True, ctrl_between=rng.random() < 0.4, empty_final=rng.random() < 0.3))
        meta.append((p_, 'verdict', True, False))
    for t_ in (b'caf\xc3', b'\xf0\x9f\x98', b'abc \xe2\x82', b'ok', '\u20ac'.encode('utf-8'), b'\xe2\x82\xac\xe2'):
        for comp in (False, True):
            for nfrag in (1, 2):
                scs.append(text_scenario(rng, t_, nfrag, 0, compressed=comp, empty_final=True))
                meta.append((t_, 'verdict', comp, False))
    # an EMPTY first fragment (the text / compressed nature of the message is fixed by a frame that carries no payload), then the rest;
    # and after such a compressed message an uncompressed invalid one (fail-fast must be back)
    for t_ in (b'hello', '\u20ac uro'.encode('utf-8'), b'caf\xc3', b'\xff', b'ok\xe2\x82'):
        for comp in (False, True):
            for neg in (False, True):
                if comp and not neg:
                    continue
                scs.append(text_scenario(rng, t_, 2, rng.choice([0, 10 ** 6]), compress_negotiated=neg, compressed=comp, empty_first=True))
                meta.append((t_, 'verdict', neg, False))
    # format directives in the bytes BEFORE the offending byte, the frame arriving in two or more reads (error texts built from buffered data)
    for pre in (b'{"k": "', b'set {} is empty ', b'%s {0} ', b'{'):
        for bad_ in (b'\xe2\x82"}', b'\xc0\xaf', b'\xff'):
            p_ = pre + bad_
            for ncuts in (1, 3, 10 ** 6):
                scs.append(text_scenario(rng, p_, 1, ncuts))
                meta.append((p_, 'verdict', False, False))
            sc_ = Scenario([], prate=0)
            fr_ = server_frame(1, p_)
            hdr_ = len(fr_) - len(p_)
            sc_.env = reads([sc_.good_reply() + fr_[:hdr_ + len(pre)], fr_[hdr_ + len(pre):]]) + [('wait', 1, ('eof',))]
            scs.append(sc_); meta.append((p_, 'verdict', False, False))
    # targeted: a read that ends inside a multi-byte sequence, next read starts with the offending byte
    for lead in (b'\xc2', b'\xdf', b'\xe0', b'\xe0\xa0', b'\xe1\x80', b'\xed', b'\xed\x9f', b'\xef\xbf', b'\xf0', b'\xf0\x90', b'\xf0\x90\x80', b'\xf1\x80\x80', b'\xf4', b'\xf4\x8f\xbf'):
        for offending in (b'a', b' ', b'\xc2', b'\xff'):
            for pre in (b'', b'ok '):
                for nfrag in (1, 2):
                    p_ = pre + lead + offending + b'zz'
                    sc = Scenario([], prate=0)
                    stop = len(pre) + len(lead) + 1
                    if nfrag == 1:
                        frames = server_frame(1, p_)
                        hdr = len(frames) - len(p_)
                        stream = frames[:hdr + stop]
                        cutpos = hdr + stop - 1
                    else:
                        f1 = server_frame(1, pre + lead, fin=0)
                        f2 = server_frame(0, offending + b'zz', fin=1)
                        stream = f1 + f2[:3]
                        cutpos = len(f1)
                    hs = sc.good_reply()
                    sc.env = reads([hs + stream[:cutpos], stream[cutpos:]])
                    scs.append(sc); meta.append((p_, 'failfast', False, False))
    # a frame (or read) that ends INSIDE a multi-byte sequence, followed by a next frame whose first read slice is short .. very long
    # (plain ASCII, or starting with the wrong kind of byte): fail-fast by the read that delivers the offending byte whatever the
    # slice sizes, and valid texts of the same shape delivered.  Own rng stream (derived from the seed): the cases above stay as they were.
    tags = {}
    rngb = random.Random(seed * 1000003 + 505)
    for sc_, p_, kind_, ctrl_, tag_, L_ in boundary_cases(rngb, tier):
        tags[len(scs)] = (tag_, L_)
        scs.append(sc_); meta.append((p_, 'verdict' if kind_ == 'valid' else 'failfast', False, ctrl_))
    # witnesses of the two known fail-fast defects of the pinned commit run first (corpus)
    pairs = coreutil.run_pairs(scs, model_ok)
    for idx_, ((js, line, real, model), (p, mode, neg, cb)) in enumerate(zip(pairs, meta)):
        if idx_ in tags:
            res.count(tags[idx_][0]); res.count('boundary_next_slice_%s' % ('ge_512' if tags[idx_][1] >= 512 else 'lt_512'))
        if isinstance(real, dict):
            res.crashes.append(real)
            continue
        res.case((p, line), nontrivial=(any(b >= 0x80 for b in p)))
        res.count(mode)
        res.count('negotiated' if neg else 'plain')
        res.traces_validated += 1
        if model is not None and real != model:
            res.diffs.append(dict(input=line, real=real, model=model, scenario=js))
        evs = [e for e in events(real) if not e.startswith(('E:ping', 'E:pong'))]
        res.count('ctrl_between' if cb else 'no_ctrl')
        texts = [e for e in evs if e.startswith('E:text:')]
        perr = [e for e in evs if e.startswith('E:protocol_error')]
        valid = refcodec.rfc3629_valid(p)
        if mode == 'verdict':
            if valid:
                if texts != ['E:text:' + p.hex()] or perr:
                    res.failures.append(dict(cls='verdict-valid', what='valid text not delivered exactly once with exact decoding', input=line, scenario=js, observed=evs))
            else:
                if texts or len(perr) != 1:
                    res.failures.append(dict(cls='verdict-invalid', what='invalid text: expected one ProtocolError and no Text', input=line, scenario=js, observed=evs))
        else:
            if texts or len(perr) != 1:
                res.failures.append(dict(cls='failfast-negotiated' if neg else ('failfast-after-control' if cb else 'failfast'), what='no ProtocolError as soon as the first offending byte arrived', input=line, scenario=js, observed=evs))

    # 4. a compressed text message at a position > 1 (context takeover: its meaning depends on the earlier messages' window)
    zs = [zpos_scenario(rng) for _ in range(150 if tier == 'quick' else 1500)]
    zpairs = coreutil.run_pairs([z[0] for z in zs], model_ok)
    for (js, line, real, model), (_, pre_evs, out, info) in zip(zpairs, zs):
        if isinstance(real, dict):
            res.crashes.append(real)
            continue
        try:
            valid = out is not None and (out.decode('utf-8') is not None)      # CPython's strict decoder
        except UnicodeDecodeError:
            valid = False
        res.case(('zpos', line), nontrivial=True)
        res.traces_validated += 1
        res.count('zpos_' + info['mode'])
        res.count('zpos_no_takeover' if info['snt'] else 'zpos_takeover')
        res.count('zpos_valid' if valid else ('zpos_not_inflatable' if out is None else 'zpos_invalid_utf8'))
        if info['history_matters'] and not valid:
            res.count('zpos_invalid_only_given_the_history')
        if model is not None and real != model:
            res.diffs.append(dict(input=line, real=real, model=model, scenario=js))
        evs = [e for e in events(real) if e.startswith(('E:text', 'E:binary', 'E:ping', 'E:pong', 'E:protocol_error'))]
        want = pre_evs + (['E:text:' + out.hex(), 'E:text:41'] if valid else [])
        got = evs if valid else evs[:-1]
        last_ok = valid or (len(evs) == len(pre_evs) + 1 and evs[-1].startswith('E:protocol_error') and evs[-1].endswith(':1'))
        if got != want or not last_ok:
            res.failures.append(dict(cls='zpos-verdict-valid' if valid else 'zpos-verdict-invalid',
                what='compressed text at position > 1: ' + ('not delivered exactly once with the exact decoding of its inflated payload, followed by the next message' if valid
                      else 'expected the events of the prefix, then ONE critical ProtocolError and nothing after'),
                input=line, scenario=js, observed=evs, expected=want + ([] if valid else ['E:protocol_error:*:1']), info=info))
    if len(res.samples) < 4:
        res.samples += [p[1][:300] for p in pairs[:3]] + ['utf8 validate 0 e282', 'utf8 step 4 159']


def replay(rp):
    return coreutil.replay_core(rp)
