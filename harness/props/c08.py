"""C08 - the closing handshake completes correctly in both directions."""
from __future__ import annotations
import itertools, random, struct
import runner, coreutil, gen_core
from coreutil import Scenario, events, reads, toks, cut, random_cuts, limit_chunks
from refcodec import server_frame, close_payload, decode_client_frames

TRUSTED = ['correspondence: harness/world.py', 'oracle rules in harness/props/c08.py written from the property text']
ASSUMPTIONS = ['single-threaded histories only (threads: C12)']


def make(rng):
    sc = Scenario([], prate=0)
    pre = [gen_core.gen_item(rng) for _ in range(rng.randint(0, 3))]
    mid = [gen_core.gen_item(rng) for _ in range(rng.randint(0, 3))]
    post = [gen_core.gen_item(rng) for _ in range(rng.randint(0, 2))]
    sclose = gen_core.gen_close(rng) if rng.random() < 0.8 else None
    frames = []
    for it in pre + mid:
        frames += gen_core.serialise_item(rng, it)
    nev_pre = 4 + sum(len(it.expected()) for it in pre)      # connecting, connected, ready, poll, then pre events
    if sclose is not None:
        cf = gen_core.serialise_item(rng, sclose)
        if rng.random() < 0.25:
            # the Close arrives between the fragments of an unfinished message (RFC 6455 5.4: control frames may be injected there)
            opc, part = rng.choice([(1, 'caf\u00e9 '.encode('utf-8')), (1, b'\xe2\x82'), (2, b'\x00\xff'), (1, b'')])
            frames += [gen_core.server_frame(opc, part, fin=0)] + cf + [gen_core.server_frame(0, b'\xac rest', fin=1)]
        else:
            frames += cf
    for it in post:
        frames += gen_core.serialise_item(rng, it)
    neg = rng.random() < 0.3          # permessage-deflate negotiated: the application's data sends go through the compressed path
    sc.compress = neg
    data = sc.good_reply(b'Sec-WebSocket-Extensions: permessage-deflate\r\n' if neg else b'') + b''.join(frames)
    sc.env = reads(limit_chunks(cut(data, random_cuts(rng, len(data), rng.choice([0, 0, 2, 5]))))) + [('wait', 1, ('eof',))]
    rx = {}
    r = rng.random()
    app_close = None
    if r < 0.6:
        at = rng.choice([0, 1, 2, 3, nev_pre, nev_pre + 1, rng.randint(0, nev_pre + 4)])
        code = rng.choice([1000, 1001, 3000, 4999, None])
        reason = rng.choice([('b', b'bye'), ('b', b''), ('s', [0x62, 0x20ac]), ('b', b'r' * 123)])
        if code is None and rng.random() < 0.5:
            reason = ('b', b'')         # (with no code there is no payload at all, whatever the reason argument is: RFC 6455 5.5.1)
        rx[at] = [('close', code, reason)]
        app_close = (at, code, reason)
    for i in range(0, nev_pre + 10):
        if rng.random() < 0.35:
            rx.setdefault(i, []).append(rng.choice([('send_text', ('s', [104, 105]), True), ('send_binary', ('b', b'\x00\x01'), True),
                                                    ('send_ping', ('b', b'')), ('close', 1001, ('b', b'again'))]))
    sc.reactions = rx
    sc.server_close = sclose is not None       # the (valid) stream contains a server Close
    exp_msgs = []
    for it in pre + mid:
        exp_msgs += it.expected()
    sc.meta = dict(expected=exp_msgs, sclose=None if sclose is None else ['N' if sclose.code is None else str(sclose.code), sclose.reason.hex()])
    sc.ctimeout = rng.choice([30, 30, 30, 0, 0, 5])
    sc.zero = rng.random() < 0.5           # a disabled close timeout given as 0 rather than None
    return sc


def judge(res, js, line, real, server_close=False, calls=(), meta=None):
    tk = toks(real)
    def fail(msg, cls='close-handshake'):
        res.failures.append(dict(cls=cls, what=msg, input=line[-1800:], scenario=js, observed=[t[:70] for t in tk[-10:]]))
    frames = []       # (index, opcode, payload, app?)
    for i, t in enumerate(tk):
        if t.startswith('Z:'):         # a compressed data frame (canonicalised by the harness to its plaintext)
            frames.append((i, int(t.split(':')[1]), bytes.fromhex(t.split(':')[2]), i + 1 < len(tk) and tk[i + 1].startswith('R:')))
        if t.startswith('W:'):
            try:
                f = decode_client_frames(bytes.fromhex(t[2:]))[0]
            except Exception:  # noqa   (the upgrade request)
                continue
            frames.append((i, f['opcode'], f['payload'], i + 1 < len(tk) and tk[i + 1].startswith('R:')))
    closes = [f for f in frames if f[1] == 8]
    if len(closes) > 1:
        return fail('%d Close frames written' % len(closes), 'two-closes')
    if closes:
        ci = closes[0][0]
        later = [f for f in frames if f[0] > ci and f[1] in (0, 1, 2)]
        if later:
            return fail('data frame written after the Close frame', 'data-after-close')
        # every application send after the Close is refused and writes nothing
        for i in range(ci + 1, len(tk)):
            if tk[i].startswith('R:') and not (closes[0][3] and i == ci + 1):
                if tk[i] == 'R:ok' and tk[i - 1].startswith(('W:', 'Z:')):
                    return fail('a send after the Close frame was accepted', 'send-after-close')
    names = [t for t in tk if t.startswith('E:')]
    # ---- per call: the application's own close() and what is allowed after it
    def reason_bytes(r):
        return bytes.fromhex(r[1]) if r[0] == 'b' else ''.join(chr(c) for c in r[1]).encode('utf-8', 'replace')
    acts = [a for k in sorted(js['reactions'], key=int) for a in js['reactions'][k]]
    client_close_at = None
    ai = 0
    for pos, kind, result, wire in calls:
        act = acts[ai] if ai < len(acts) else None
        ai += 1
        before = tk[:pos]
        up = any(t.startswith('E:connected') for t in before) and not any(t.startswith(('E:disconnected', 'E:closing', 'E:closed', 'E:rejected', 'E:protocol_error')) for t in before)
        if kind == 'close' and client_close_at is None and up and result == 'ok' and act is not None and act[0] == 'close':
            code, reason = act[1], act[2]
            want = b'' if code is None else struct.pack('!H', code) + reason_bytes(reason)
            got = []
            for w in wire:
                if w.startswith('W:'):
                    try:
                        got += decode_client_frames(bytes.fromhex(w[2:]))
                    except Exception:  # noqa
                        got.append(dict(opcode=-1, payload=b''))
                else:
                    got.append(dict(opcode=-2, payload=b''))
            if len(got) != 1 or got[0]['opcode'] != 8 or got[0]['payload'] != want:
                return fail('close(%r, %r) on an open connection returned normally but wrote %s instead of exactly one Close frame carrying the given code and reason'
                            % (code, reason_bytes(reason)[:20], [(g['opcode'], bytes(g['payload'])[:12]) for g in got]), 'close-frame-content')
            client_close_at = pos
            continue
        if client_close_at is not None and kind in ('send_text', 'send_binary', 'send_ping', 'send_pong', 'send_json'):
            if wire:
                return fail('%s after the client\'s Close frame wrote to the socket' % kind, 'send-after-close')
            if not result.startswith(('WebSocket', 'TransportFail')):
                return fail('%s after the client\'s Close frame returned %s instead of raising a WebSocketError' % (kind, result), 'send-after-close')
    # ---- incoming messages keep being delivered (before, between and after the application's close(), up to the server's Close)
    if meta is not None and any(t.startswith('E:ready') for t in tk):
        cutpos = next((i for i, t in enumerate(tk) if t.startswith(('E:closing', 'E:closed'))), len(tk))
        msgs = [t for t in tk[:cutpos] if t.split(':')[0] == 'E' and t.split(':')[1] in ('text', 'binary', 'ping', 'pong')]
        want = meta['expected']
        if msgs[:len(want)] != want and not any(t.startswith('E:disconnected:close-timeout') for t in tk):
            k = next((i for i, (a, b) in enumerate(zip(msgs, want)) if a != b), min(len(msgs), len(want)))
            return fail('messages of the (valid) stream were not all delivered in order: first difference at index %d (%s instead of %s)' % (k, (msgs[k:k + 1] or ['nothing'])[0][:60], want[k][:60]), 'delivery-while-closing')
        # the server's Close is reported with ITS code and reason
        if meta['sclose'] is not None:
            rep = next((t for t in tk if t.startswith(('E:closing:', 'E:closed:'))), None)
            if rep is not None and rep.split(':')[2:4] != meta['sclose']:
                return fail('the server\'s Close(%s, %s) was reported as %s' % (meta['sclose'][0], meta['sclose'][1][:20], rep[:60]), 'close-code-reported')
    # the stream is valid and contains a Close from the server: it must surface as Closing (server first) or Closed (client first)
    if server_close and any(t.startswith('E:ready') for t in tk) and not any(t.startswith(('E:closing:', 'E:closed:')) for t in tk):
        if not any(t.startswith('WF:') for t in tk) and not any(t.startswith('E:disconnected:close-timeout') for t in tk):
            return fail('the server sent a Close frame in a valid stream but neither Closing nor Closed was reported', 'close-not-reported')
    # the handshake may only be cut short by the close timeout when that is enabled and has really elapsed
    if any(t.startswith('E:disconnected:close-timeout') for t in tk):
        elapsed = sum(st[1] for st in js['env'] if st[0] == 'wait')
        if js['ctimeout'] == 0 or elapsed < js['ctimeout']:
            return fail('closing handshake cut short by a close timeout that is disabled / has not elapsed (close_timeout=%s%s, %d s of history)'
                        % (js['ctimeout'], ' given as 0' if js.get('zero') else '', elapsed), 'premature-close-timeout')
    # server closes first: Closing(code, reason) then exactly one echo with the same code
    for i, t in enumerate(tk):
        if t.startswith('E:closing:'):
            _, _, code, reason = t.split(':')
            # the Close after Closing is the library's echo, unless the application itself called close()
            # while handling the Closing event (then that one is the only Close and the echo is skipped)
            allc = [f for f in frames if f[0] > i and f[1] == 8]
            echo = [f for f in allc if not f[3]]
            if len(allc) == 1 and allc[0][3]:
                continue
            client_before = [f for f in closes if f[0] < i]
            if not client_before:
                wf = any(x.startswith('WF:88') for x in tk[i:])
                if len(echo) != 1 and not wf:
                    return fail('server Close not echoed exactly once (%d)' % len(echo), 'echo')
                if echo:
                    want = b'' if code == 'N' else struct.pack('!H', int(code)) + bytes.fromhex(reason)
                    if echo[0][2] != want:
                        return fail('echoed Close differs from the received code/reason', 'echo')
                    # sends made while handling the Closing event are written (before the echo)
                    k = i + 1
                    while k < echo[0][0]:
                        if tk[k].startswith('R:') and tk[k] != 'R:ok' and tk[k] in ('R:WebSocketClosing', 'R:WebSocketClosed'):
                            return fail('application send during the Closing event was refused', 'send-during-closing')
                        k += 1
    # client closed first and the server's Close arrived: Closed, graceful Disconnected, socket closed
    if any(t.startswith('E:closed:') for t in tk):
        j = next(i for i, t in enumerate(names) if t.startswith('E:closed:'))
        if names[j + 1:] != ['E:disconnected:closed:1']:
            return fail('Closed not followed by exactly a graceful Disconnected: %s' % names[j + 1:], 'closed-then-graceful')
        if 'sock=1' in tk[-1]:
            return fail('socket open after Closed')
    if any(t.startswith('E:closing:') for t in tk) and names and names[-1].startswith('E:disconnected') and not names[-1].endswith(':1'):
        # server closed, client echoed, EOF: must be graceful unless a fault/violation happened afterwards
        if not any(t.startswith(('E:protocol_error', 'WF:')) for t in tk):
            return fail('server-initiated close did not end gracefully', 'closing-then-graceful')


SENDS = ('send_text', 'send_binary', 'send_ping', 'send_pong', 'send_json')


def write_attempts(tk, spans):
    """every attempt to write a WebSocket frame seen in the trace, successful or not:
       (trace index, opcode | 'data' (a compressed data frame whose write failed: its bytes are not in the trace), payload | None,
        failed?, made inside an application call?).  The upgrade request is not a frame and is left out."""
    out = []
    for i, t in enumerate(tk):
        app = any(a <= i <= b for a, b, _k, _r, _w in spans)
        if t.startswith('Z:'):
            out.append((i, int(t.split(':')[1]), bytes.fromhex(t.split(':')[2]), False, app))
        elif t.startswith(('W:', 'WF:')):
            failed = t.startswith('WF:')
            raw = bytes.fromhex(t.split(':', 1)[1])
            if raw.startswith(b'GET '):
                continue
            if failed and not raw:
                out.append((i, 'data', None, True, app)); continue
            try:
                f = decode_client_frames(raw)
            except Exception:  # noqa
                out.append((i, 'undecodable', None, failed, app)); continue
            for g in f:
                out.append((i, g['opcode'], bytes(g['payload']), failed, app))
    return out


def judge_fault(res, js, line, real, calls):
    """oracle for histories in which ONE write fails (the socket reports an error for that sendall; how much of the data had gone
    out is unknown to the client).  Rules written from the property text only:
      F1  at most one attempt to write a Close frame per connection, and after that attempt (complete or not) no data frame and no
          further Close is put on the wire ('at most one Close frame is written per connection and no data frame follows it');
      F2  after the application's close() on a connected WebSocket (its one write attempt is exactly the Close frame with the given
          code and reason, whether or not the socket took it) every later send raises a WebSocketError and writes nothing, and a
          later close() writes nothing;
      F3  server closes first (Closing yielded): sends are possible during that event only - every send after it raises a
          WebSocketError and writes nothing; the echo, when attempted, is one Close with the same code/reason; and once the server
          drops the connection (EOF) the history ends with a GRACEFUL Disconnected and a closed socket - also when the echo could
          not be written because the server had already gone."""
    tk = toks(real)
    if not any(t.startswith('E:ready') for t in tk):
        return
    def fail(msg, cls):
        res.failures.append(dict(cls=cls, what=msg + ' [history with one failing write: write #%s, errno %s]' % (js['wfail'], js.get('werrno')),
                                 input=line[-1800:], scenario=js, observed=[t[:70] for t in tk[-14:]]))
    spans = []
    for pos, kind, result, wire in calls:
        r = next((k for k in range(pos, len(tk)) if tk[k].startswith('R:')), len(tk))
        spans.append((pos, r, kind, result, wire))
    wr = write_attempts(tk, spans)
    names = [t for t in tk if t.startswith('E:')]
    DATA = (0, 1, 2, 'data')
    # ---- F1
    closes = [w for w in wr if w[1] == 8]
    if closes:
        c0 = closes[0]
        seen_first = False
        for w in wr:
            if w is c0:
                seen_first = True; continue
            if not seen_first:
                continue
            if w[1] == 8:
                return fail('a second Close frame was put on the wire (the first attempt %s)' % ('failed part-way: the stream is garbled' if c0[3] else 'succeeded'), 'two-closes')
            if w[1] in DATA:
                return fail('a data frame was put on the wire after the Close frame (whose write %s)' % ('failed' if c0[3] else 'succeeded'), 'data-after-close')
    # ---- F2
    def reason_bytes(r):
        return bytes.fromhex(r[1]) if r[0] == 'b' else ''.join(chr(c) for c in r[1]).encode('utf-8', 'replace')
    acts = [a for k in sorted(js['reactions'], key=int) for a in js['reactions'][k]]
    client_close_at = None
    for ai, (pos, end, kind, result, wire) in enumerate(spans):
        act = acts[ai] if ai < len(acts) else None
        before = tk[:pos]
        up = any(t.startswith('E:connected') for t in before) and not any(t.startswith(('E:disconnected', 'E:closing', 'E:closed', 'E:rejected', 'E:protocol_error')) for t in before)
        mine = [w for w in wr if pos <= w[0] <= end]
        if kind == 'close' and client_close_at is None and up and act is not None and act[0] == 'close' and result in ('ok', 'TransportFail') \
                and not any(w[1] == 8 and w[0] < pos for w in wr):
            code, reason = act[1], act[2]
            want = b'' if code is None else struct.pack('!H', code) + reason_bytes(reason)
            if len(mine) != 1 or mine[0][1] != 8 or mine[0][2] != want:
                return fail('close(%r, %r) on an open connection attempted %s instead of exactly one Close frame carrying the given code and reason'
                            % (code, reason_bytes(reason)[:20], [(w[1], (w[2] or b'')[:12], 'failed' if w[3] else 'written') for w in mine]), 'close-frame-content')
            client_close_at = pos
            continue
        if client_close_at is not None:
            if kind in SENDS:
                if mine:
                    return fail('%s after the application\'s close() wrote to the socket' % kind, 'send-after-close')
                if not result.startswith(('WebSocket', 'TransportFail')):
                    return fail('%s after the application\'s close() returned %s instead of raising a WebSocketError' % (kind, result), 'send-after-close')
            elif kind == 'close' and mine:
                return fail('a second close() wrote to the socket again', 'two-closes')
    # ---- F3
    ci = next((i for i, t in enumerate(tk) if t.startswith('E:closing:')), None)
    if ci is not None and not any(w[1] == 8 and w[0] < ci for w in wr):
        _, _, code, reason = tk[ci].split(':')
        end = ci + 1                      # first trace position after the application's handling of the Closing event
        while True:
            sp = next((s for s in spans if s[0] == end), None)
            if sp is None:
                break
            end = sp[1] + 1
        for pos, e2, kind, result, wire in spans:
            if pos >= end and kind in SENDS:
                mine = [w for w in wr if pos <= w[0] <= e2]
                if mine:
                    return fail('%s after the Closing event (server closed first) wrote to the socket' % kind, 'send-after-closing')
                if not result.startswith(('WebSocket', 'TransportFail')):
                    return fail('%s after the Closing event (server closed first) returned %s instead of raising a WebSocketError' % (kind, result), 'send-after-closing')
        later_closes = [w for w in wr if w[0] > ci and w[1] == 8]
        want = b'' if code == 'N' else struct.pack('!H', int(code)) + bytes.fromhex(reason)
        for w in later_closes:
            if not w[4] and w[2] != want:
                return fail('echoed Close differs from the received code/reason', 'echo')
        # how it ends: the only things that may stand in the way of a graceful end are a protocol violation by the server after its
        # Close, a fault on some OTHER write after the Closing event, or a close timeout that is enabled and has elapsed
        other_fault = any(w[3] and w[1] != 8 and w[0] > ci for w in wr)
        perr = any(t.startswith('E:protocol_error') for t in tk[ci:])
        elapsed = sum(st[1] for st in js['env'] if st[0] == 'wait')
        timed = any(t.startswith('E:disconnected:close-timeout') for t in tk) and js['ctimeout'] != 0 and elapsed >= js['ctimeout']
        eof = bool(js['env']) and js['env'][-1][0] == 'wait' and js['env'][-1][2] == ['eof']
        if eof and not other_fault and not perr and not timed and 'HANG' not in tk:
            if not names[-1].startswith('E:disconnected') or not names[-1].endswith(':1'):
                return fail('the server closed first (Closing yielded%s) and then dropped the connection, but the history ends with %s instead of a graceful Disconnected'
                            % (', the echo could not be written' if any(w[3] for w in later_closes) else '', names[-1]), 'closing-then-graceful')
            if 'sock=1' in tk[-1]:
                return fail('socket still open after the server-initiated close ended', 'closing-then-graceful')


def explore(res, tier, seed, model_ok=True):
    import gencheck   # differential test of the translated code (Generated/Code.lean) against the original Python
    gencheck.run(res, 'C08', tier, seed, model_ok)
    rng = random.Random(seed)
    n = 500 if tier == 'quick' else 8000
    res.rule = ('%d histories: handshake, 0-3 messages, application close() at a random event (incl. Connecting/Connected/Ready) with code/reason variants, 0-3 more messages, server Close (valid code, empty, with reason; in a quarter of the cases between the fragments of an unfinished text/binary message) or none, more frames, EOF; '
                'application sends (text, binary, ping, second close) at random events; close_timeout 30 / 5 / disabled (given as None or as 0); permessage-deflate negotiated in 30%% (application data then goes through the compressed send path); oracle: wire opcode sequence, per-call results and event order judged by rules written from the property; '
                'plus the same kind of history with one failing write (ECONNRESET / EPIPE on write #1..#6, or placed on the connection\'s Close frame - the application\'s or the echo, incl. server-first histories without any application close() - by a fault-free dry run): compared with the model and judged by oracle rules F1-F3 (one Close attempt and no data/Close after it; sends after close() / after the Closing event refused and write nothing; server-first close ends with a graceful Disconnected on EOF even when the echo could not be written); non-trivial = history containing a close() call or a server Close; distinct by operation line') % n
    scs = [make(rng) for _ in range(n)]
    pairs = coreutil.run_pairs(scs, model_ok)
    callrecs = runner.parallel_map('coreutil', 'real_one_calls', [p[0] for p in pairs])
    for (js, line, real, model), sc, cr in zip(pairs, scs, callrecs):
        if isinstance(real, dict):
            res.crashes.append(real); continue
        res.case(line, nontrivial=('cl=' in line or 'E:closing' in real))
        for k in ('E:closing', 'E:closed', 'R:WebSocketClosing', 'R:WebSocketClosed'):
            if k in real:
                res.count(k)
        judge(res, js, line, real, sc.server_close, cr.get('calls', []) if isinstance(cr, dict) and cr.get('trace') == real else [], sc.meta)
    coreutil.check_corr(res, pairs)
    res.samples += [pairs[0][1][-300:], pairs[1][1][-300:]]
    # the same histories with ONE transport fault: one sendall fails (ECONNRESET or EPIPE).  Three ways of placing the fault:
    #   random     - write #1..#6 of the connection (whatever that write is: a data frame, a pong, the application's Close, the echo)
    #   on-close   - the write of the connection's Close frame (the application's own, or the echo of the server's), located by a
    #                fault-free dry run of the same history on the code under test (only to PLACE the fault; nothing is judged by it);
    #                in half of the histories the EOF follows the last frame at once, in the other half after 2 s of silence
    #   on-echo    - like on-close, in a server-first history (server Close present, the application never calls close())
    # Each run is compared with the model AND judged by `judge_fault` (rules F1-F3, written from the property text).
    nf = 90 if tier == 'quick' else 1500
    fscs, placing = [], []
    for k in range(nf):
        sc = make(rng)
        sc.werrno = rng.choice([104, 104, 32])
        mode = ('random', 'on-close', 'random')[k % 3] if k % 6 != 5 else 'on-echo'
        if mode == 'on-echo':
            # server-first histories: a server Close is present and the application itself never calls close(), so the
            # connection's Close frame is the library's echo
            while not sc.server_close:
                sc = make(rng)
            sc.werrno = rng.choice([104, 32, 32])
            sc.reactions = {i: [a for a in acts if a[0] != 'close'] for i, acts in sc.reactions.items()}
            sc.reactions = {i: acts for i, acts in sc.reactions.items() if acts}
        sc.wfail = {rng.choice([1, 1, 2, 3, 3, 4, 5, 6])}
        if k % 2 == 0:
            sc.env = sc.env[:-1] + [('wait', 2, None), ('wait', 1, ('eof',))]
        fscs.append(sc); placing.append(mode)
    dry = [i for i, m in enumerate(placing) if m in ('on-close', 'on-echo')]
    saved = [fscs[i].wfail for i in dry]
    for i in dry:
        fscs[i].wfail = set()
    dry_traces = runner.parallel_map('coreutil', 'real_one', [coreutil.scenario_to_json(fscs[i]) for i in dry])
    for i, old, tr in zip(dry, saved, dry_traces):
        fscs[i].wfail = old
        if isinstance(tr, str):
            wtoks = [t for t in toks(tr) if t.startswith(('W:', 'Z:', 'WF:', 'W!'))]
            pos = next((n for n, t in enumerate(wtoks) if t.startswith('W:88')), None)
            if pos is not None:
                fscs[i].wfail = {pos}
            else:
                placing[i] = 'random'
    fpairs = coreutil.run_pairs(fscs, model_ok)
    fcalls = runner.parallel_map('coreutil', 'real_one_calls', [p[0] for p in fpairs])
    for (js, line, real, model), mode, cr in zip(fpairs, placing, fcalls):
        if isinstance(real, dict):
            res.crashes.append(real); continue
        res.case(line, nontrivial='WF:' in real); res.count('one_write_fault_oracle_and_correspondence')
        res.count('one_write_fault_placed_' + mode)
        if 'WF:88' in real:
            res.count('failed_close_frame_write')
            if 'E:closing' in real:
                res.count('failed_echo_of_server_close')
        if isinstance(cr, dict) and cr.get('trace') == real:
            judge_fault(res, js, line, real, cr.get('calls', []))
    coreutil.check_corr(res, fpairs)

def replay(rp):
    return coreutil.replay_core(rp)
