"""C03 - every frame the client writes is a valid client frame that round-trips."""
from __future__ import annotations
import random, struct
import runner, coreutil, gen_core
from coreutil import Scenario, reads, toks
from refcodec import decode_client_frames, ClientFrameError

TRUSTED = ['correspondence: harness/world.py', 'harness/refcodec.py decode_client_frames: independent RFC 6455 section 5.2 decoder (requires MASK=1, minimal length, control <= 125, FIN on control)']
ASSUMPTIONS = ['send_json is covered through send_text (json.dumps is not modelled)', 'caller data untouched: only immutable bytes/str are accepted by the API; checked by the harness, not a theorem',
               'mask_payload slice/translate mechanics checked exhaustively on the real code (4 lanes x 256 keys x 256 data bytes) rather than proved']

LENS = list(range(0, 131)) + [65530, 65535, 65536, 65537, 70000]


def calls_for(rng, tier):
    """list of (act, expected) where expected = ('ok', opcode, payload) | ('reject', exc)"""
    out = []
    lens = LENS if tier == 'thorough' else list(range(0, 131, 1))[::1] + [65535, 65536]
    for n in lens:
        b = gen_core.rand_bytes(rng, n)
        out.append((('send_binary', ('b', b), True), ('ok', 2, b)))
        if n <= 130:
            out.append((('send_ping', ('b', b)), ('ok', 9, b) if n <= 125 else ('reject', 'ValueError')))
            out.append((('send_pong', ('b', b)), ('ok', 10, b) if n <= 125 else ('reject', 'ValueError')))
            reason = gen_core.rand_text(rng, n)
            code = rng.choice([1000, 1001, 3000, 4999, 0, 65535])
            out.append((('close', code, ('b', reason)), ('ok', 8, struct.pack('!H', code) + reason) if n <= 123 else ('reject', 'ValueError')))
            out.append((('close', None, ('b', reason)), ('ok', 8, b'')))
        t = gen_core.rand_text(rng, n)
        out.append((('send_text', ('s', [ord(c) for c in t.decode('utf-8')]), True), ('ok', 1, t)))
    # texts over all planes, lone surrogates, wrong types, out-of-range codes
    for cps in ([0x24, 0xa2, 0x20ac, 0x10348], [0x10ffff, 0], [0xd7ff, 0xe000, 0xfffd], [0x7f, 0x80, 0x7ff, 0x800, 0xffff, 0x10000]):
        out.append((('send_text', ('s', cps), True), ('ok', 1, ''.join(chr(c) for c in cps).encode('utf-8'))))
    for cps in ([0xd800], [0x61, 0xdfff, 0x62], [0xdbff, 0xdc00]):
        out.append((('send_text', ('s', cps), True), ('reject', 'ValueError')))
        out.append((('close', 1000, ('s', cps)), ('ok', 8, struct.pack('!H', 1000) + ''.join(chr(c) for c in cps).encode('utf-8', 'replace'))))
    out.append((('close', 1000, ('s', [0x20ac] * 41)), ('ok', 8, struct.pack('!H', 1000) + '€'.encode() * 41)))
    out.append((('close', 1000, ('s', [0x20ac] * 42)), ('reject', 'ValueError')))
    for act, exc in ((('send_text', ('b', b'x'), True), 'TypeError'), (('send_text', ('o',), True), 'TypeError'),
                     (('send_binary', ('s', [120]), True), 'TypeError'), (('send_binary', ('o', 'bytearray'), True), 'TypeError'),
                     (('send_ping', ('s', [120])), 'TypeError'), (('send_pong', ('o',)), 'TypeError'), (('send_ping', ('o', 'bytearray')), 'TypeError'),
                     (('close', 65536, ('b', b'x')), 'ValueError'), (('close', 70000, ('b', b'')), 'ValueError'), (('close', 1 << 40, ('s', [120])), 'ValueError')):
        out.append((act, ('reject', exc)))
    return out


def real_mask_table(_):
    """exhaustive check of mask_payload on the real code: every lane, key byte, data byte; and lengths 0..9"""
    from lomond.mask import mask_payload
    bad = []
    for lane in range(4):
        for k in range(256):
            key = bytearray(4); key[lane] = k
            data = bytearray(range(256)) * 4
            # place byte value v at an index congruent to lane
            buf = bytearray(1024)
            for v in range(256):
                buf[v * 4 + lane] = v
            mask_payload(bytes(key), buf)
            for v in range(256):
                if buf[v * 4 + lane] != (v ^ k):
                    bad.append((lane, k, v))
            if any(buf[i] for i in range(1024) if i % 4 != lane):
                bad.append((lane, k, 'other-lane-touched'))
    for n in range(10):
        d = bytearray(range(1, n + 1))
        mask_payload(b'\x01\x02\x04\x08', d)
        if bytes(d) != bytes((i + 1) ^ [1, 2, 4, 8][i % 4] for i in range(n)):
            bad.append(('len', n))
    return bad


def explore(res, tier, seed, model_ok=True):
    rng = random.Random(seed)
    res.rule = ('API calls made by the application at the Ready event on the real WebSocket: send_binary/send_text with every length 0..130 and around 65536, ping/pong/close lengths 0..130, '
                'texts over all planes, lone surrogates, wrong argument types, out-of-range close codes; with and without negotiated compression and compress flag; every written frame decoded by the independent decoder; '
                'exhaustive: mask_payload on 4 lanes x 256 key bytes x 256 data bytes; non-trivial = every call; distinct by call')
    bad = real_mask_table(None)
    res.exhaustive['mask_lane_key_byte'] = 4 * 256 * 256
    res.evaluations += 4 * 256
    for b in bad[:3]:
        res.failures.append(dict(cls='mask-table', what='mask_payload wrong at %s' % (b,), input=list(b)))
    calls = calls_for(rng, tier)
    scs, meta = [], []
    for act, exp in calls:
        for neg, cflag in ((False, True), (True, True), (True, False)):
            if act[0] in ('send_text', 'send_binary'):
                a = (act[0], act[1], cflag)
            else:
                if neg and not cflag:
                    continue
                a = act
            if tier == 'quick' and neg and rng.random() < 0.5:
                continue
            sc = Scenario([], prate=0, compress=neg)
            extra = b'Sec-WebSocket-Extensions: permessage-deflate\r\n' if neg else b''
            # a second harmless call after the first checks that a rejected call left the state unchanged
            sc.reactions = {2: [a, ('send_binary', ('b', b'\x01\x02'), False)]}
            if a[0] == 'close':
                sc.reactions = {2: [a]}
            sc.env = reads([sc.good_reply(extra)]) + [('wait', 1, ('eof',))]
            scs.append(sc); meta.append((a, exp, neg))
    pairs = coreutil.run_pairs(scs, model_ok)
    for (js, line, real, model), (a, exp, neg) in zip(pairs, meta):
        if isinstance(real, dict):
            res.crashes.append(real); continue
        res.case((a, neg))
        res.count(a[0]); res.count('reject' if exp[0] == 'reject' else 'accept')
        tk = toks(real)
        i = tk.index(next(t for t in tk if t.startswith('E:ready')))
        after = tk[i + 1:]
        # tokens up to and including the first R: belong to the call under test
        j = next((k for k, t in enumerate(after) if t.startswith('R:')), None)
        def fail(what, cls=None):
            res.failures.append(dict(cls=cls or ('api:' + a[0]), what=what, input=line[-1500:], scenario=js, observed=after[:4]))
        if j is None:
            fail('no result recorded for the call'); continue
        mine, result = after[:j], after[j][2:]
        if exp[0] == 'reject':
            if result != exp[1]:
                fail('expected %s, call returned %s' % (exp[1], result), cls='close-args' if a[0] == 'close' else None); continue
            if mine:
                fail('rejected call wrote to the socket', cls='close-args' if a[0] == 'close' else None); continue
            if a[0] != 'close':
                rest = after[j + 1:]
                if len(rest) < 2 or not rest[0].startswith('W:') or rest[1] != 'R:ok':
                    fail('a rejected call changed the state: the next valid send did not go out')
            continue
        if result != 'ok':
            fail('valid call raised %s' % result, cls='close-args' if a[0] == 'close' else None); continue
        if len(mine) != 1:
            fail('accepted call wrote %d frames' % len(mine)); continue
        w = mine[0]
        compressed = neg and a[0] in ('send_text', 'send_binary') and a[2]
        if compressed:
            if not w.startswith('Z:') or w != 'Z:%d:%s' % (exp[1], exp[2].hex()):
                fail('compressed frame does not restore the payload (or RSV1 missing): %s' % w[:80], cls='compressed-send')
            continue
        if not w.startswith('W:'):
            fail('RSV1/compression used although not negotiated or not requested: %s' % w[:60]); continue
        try:
            fr = decode_client_frames(bytes.fromhex(w[2:]))
        except ClientFrameError as e:
            fail('written bytes are not a valid client frame: %s' % e, cls='close-args' if a[0] == 'close' else None); continue
        if len(fr) != 1:
            fail('one call wrote %d frames' % len(fr)); continue
        f = fr[0]
        if (f['fin'], f['rsv1'], f['rsv2'], f['rsv3'], f['opcode']) != (1, 0, 0, 0, exp[1]):
            fail('header bits wrong: %s' % {k: f[k] for k in ('fin', 'rsv1', 'rsv2', 'rsv3', 'opcode')}); continue
        if f['payload'] != exp[2]:
            fail('unmasked payload differs from the caller\'s data'); continue
    coreutil.check_corr(res, pairs)
    res.samples += [pairs[0][1][-200:], pairs[len(pairs) // 2][1][-200:]]


def replay(rp):
    return coreutil.replay_core(rp)
