"""C03 - every frame the client writes is a valid client frame that round-trips."""
from __future__ import annotations
import random, struct, zlib
import runner, coreutil, gen_core
from coreutil import Scenario, reads, toks
from refcodec import decode_client_frames, ClientFrameError

TRUSTED = ['correspondence: harness/world.py', 'frame-level correspondence: the real Frame.build / mask_payload / build_close_payload and the model driver ops `frame build|mask|maskmech|lanemech|closepayload`; the model\'s specification decoder `Spec.decodeClientFrame` (`frame decode`) against refcodec', 'harness/refcodec.py decode_client_frames: independent RFC 6455 section 5.2 decoder (requires MASK=1, minimal length, control <= 125, FIN on control)',
           'mask.py mechanics: CPython\'s bytes(<generator>), generator unpacking, bytearray.translate and extended-slice read / assignment behave as Model/Mask.lean models them (buildTable, unpackRows, translate, sliceGet, sliceSet); '
           'the shape of the program they are applied to is read off the AST of mask.py on every run (harness/maskfacts.py -> Generated/Mask.lean) and the model is compared with the real mask_payload by the driver op `frame maskmech`, and its slice / translate primitives with CPython on arbitrary (start, step) pairs by `frame lanemech`']
ASSUMPTIONS = ['send_json: json.dumps is a parameter of the model (ZFrame.sendJson; C03Z.send_json_is_send_text / send_json_as_act: the core driver is handed the equivalent send_text call)',
               'compressed frames: zlib is a parameter (ZFrame.Deflater); the byte-level comparison (driver op corez) instantiates it with an independent replay of the plaintext history through zlib',
               'key-schedule theorems: the application passes payloads shorter than 2^63 bytes (no Python object is longer); masking keys are os.urandom(4) with os.urandom returning as many bytes as asked', 'caller data untouched: only immutable bytes/str are accepted by the API; checked by the harness, not a theorem',
               'mask_payload: the slice/translate mechanics are PROVED equal to the specification maskPayload (Properties/C03_Mask.lean: mech_eq_spec, for every 4-byte key and every data length) over a model of '
               'Python\'s comprehension / unpacking / translate / extended-slice semantics; what remains assumed is that CPython implements those four constructs as modelled (differentially tested, and the exhaustive '
               '4 lanes x 256 keys x 256 data bytes check of the real function is kept)',
               'mask_payload with a key that is not 4 bytes long raises ValueError and leaves the data untouched (C03_Mask.wrong_key_length); the specification maskPayload is only used with 4-byte keys (os.urandom(4))']

LENS = list(range(0, 131)) + [65530, 65535, 65536, 65537, 70000]


def calls_for(rng, tier):
    """list of (act, expected) where expected = ('ok', opcode, payload) | ('reject', exc)"""
    out = []
    lens = LENS if tier == 'thorough' else list(range(0, 131, 1))[::1] + [65535, 65536]
    for n in lens:
        b = gen_core.rand_bytes(rng, n)
        out.append((('send_binary', ('b', b), True), ('ok', 2, b)))
        if n <= 130:
            out.append((('send_ping', ('b', b)), ('ok', 9, b) if n <= 125 else ('reject', 'ValueError')))
            out.append((('send_pong', ('b', b)), ('ok', 10, b) if n <= 125 else ('reject', 'ValueError')))
            reason = gen_core.rand_text(rng, n)
            code = rng.choice([1000, 1001, 3000, 4999, 0, 65535])
            out.append((('close', code, ('b', reason)), ('ok', 8, struct.pack('!H', code) + reason) if n <= 123 else ('reject', 'ValueError')))
            out.append((('close', None, ('b', reason)), ('ok', 8, b'')))
        t = gen_core.rand_text(rng, n)
        out.append((('send_text', ('s', [ord(c) for c in t.decode('utf-8')]), True), ('ok', 1, t)))
    # texts over all planes, lone surrogates, wrong types, out-of-range codes
    for cps in ([0x24, 0xa2, 0x20ac, 0x10348], [0x10ffff, 0], [0xd7ff, 0xe000, 0xfffd], [0x7f, 0x80, 0x7ff, 0x800, 0xffff, 0x10000]):
        out.append((('send_text', ('s', cps), True), ('ok', 1, ''.join(chr(c) for c in cps).encode('utf-8'))))
    for cps in ([0xd800], [0x61, 0xdfff, 0x62], [0xdbff, 0xdc00]):
        out.append((('send_text', ('s', cps), True), ('reject', 'ValueError')))
        out.append((('close', 1000, ('s', cps)), ('ok', 8, struct.pack('!H', 1000) + ''.join(chr(c) for c in cps).encode('utf-8', 'replace'))))
    out.append((('close', 1000, ('s', [0x20ac] * 41)), ('ok', 8, struct.pack('!H', 1000) + '€'.encode() * 41)))
    out.append((('close', 1000, ('s', [0x20ac] * 42)), ('reject', 'ValueError')))
    import json as _json
    for obj in ({'foo': 'bar', 'n': [1, 2.5, None, True]}, ['\u20ac', {'k': 'v'}], 'plain', 12, {}):
        out.append((('send_json', ('obj', obj)), ('ok', 1, _json.dumps(obj).encode('utf-8'))))
    out.append((('send_json', ('kwargs', {'foo': 'bar', 'x': 1})), ('ok', 1, _json.dumps({'foo': 'bar', 'x': 1}).encode('utf-8'))))
    out.append((('send_json', ('both', None)), ('reject', 'ValueError')))
    out.append((('send_json', ('obj', {1, 2})), ('reject', 'TypeError')))
    for act, exc in ((('send_text', ('b', b'x'), True), 'TypeError'), (('send_text', ('o',), True), 'TypeError'),
                     (('send_binary', ('s', [120]), True), 'TypeError'), (('send_binary', ('o', 'bytearray'), True), 'TypeError'),
                     (('send_ping', ('s', [120])), 'TypeError'), (('send_pong', ('o',)), 'TypeError'), (('send_ping', ('o', 'bytearray')), 'TypeError'),
                     (('close', 65536, ('b', b'x')), 'ValueError'), (('close', 70000, ('b', b'')), 'ValueError'), (('close', 1 << 40, ('s', [120])), 'ValueError'),
                     # the code range is tested before the reason is touched; a reason without .encode is AttributeError (TypeError class)
                     (('close', 70000, ('o',)), 'ValueError'), (('close', 1000, ('o',)), 'TypeError'), (('close', None, ('o', 'bytearray')), 'TypeError')):
        out.append((act, ('reject', exc)))
    return out


def real_mask_table(_):
    """exhaustive check of mask_payload on the real code: every lane, key byte, data byte; and lengths 0..9"""
    from lomond.mask import mask_payload
    bad = []
    for lane in range(4):
        for k in range(256):
            key = bytearray(4); key[lane] = k
            data = bytearray(range(256)) * 4
            # place byte value v at an index congruent to lane
            buf = bytearray(1024)
            for v in range(256):
                buf[v * 4 + lane] = v
            mask_payload(bytes(key), buf)
            for v in range(256):
                if buf[v * 4 + lane] != (v ^ k):
                    bad.append((lane, k, v))
            if any(buf[i] for i in range(1024) if i % 4 != lane):
                bad.append((lane, k, 'other-lane-touched'))
    for n in range(10):
        d = bytearray(range(1, n + 1))
        mask_payload(b'\x01\x02\x04\x08', d)
        if bytes(d) != bytes((i + 1) ^ [1, 2, 4, 8][i % 4] for i in range(n)):
            bad.append(('len', n))
    return bad


# ---------------------------------------------------------------------------------------------
# frame level: the real Frame.build / mask_payload / build_close_payload against the model's
# `frame ...` driver ops, and the model's specification decoder against refcodec

FRAME_LENS_QUICK = [0, 1, 2, 3, 4, 5, 7, 124, 125, 126, 127, 128, 65535, 65536]
FRAME_LENS_THOROUGH = list(range(0, 131)) + list(range(65530, 65542)) + [70000]


def hx(b):
    return bytes(b).hex() or '-'


def frame_build_cases(rng, tier):
    """(op, bits, payload, key)"""
    out = []
    lens = FRAME_LENS_THOROUGH if tier == 'thorough' else FRAME_LENS_QUICK
    for n in lens:
        for op in (0, 1, 2, 8, 9, 10):
            out.append((op, '1000', gen_core.rand_bytes(rng, n), gen_core.rand_bytes(rng, 4)))
        out.append((rng.choice([3, 7, 11, 15]), '1000', gen_core.rand_bytes(rng, n), gen_core.rand_bytes(rng, 4)))
    # every combination of FIN/RSV bits
    for bits in range(16):
        b = format(bits, '04b')
        for n in (0, 5, 126):
            out.append((rng.choice([0, 1, 2, 8, 9, 10]), b, gen_core.rand_bytes(rng, n), gen_core.rand_bytes(rng, 4)))
    # every key byte value in every lane, payload covering all four lanes twice, all-ones/zero data
    for lane in range(4):
        for k in range(256):
            key = bytearray(gen_core.rand_bytes(rng, 4)); key[lane] = k
            out.append((2, '1000', gen_core.rand_bytes(rng, 9) if k % 2 else bytes([0, 255, 0x55, 0xaa, k, k ^ 255, 1, 2, 3]), bytes(key)))
    # every data byte value
    out.append((2, '1000', bytes(range(256)), b'\x00\x00\x00\x00'))
    out.append((2, '1000', bytes(range(256)), b'\xff\x0f\xf0\xa5'))
    return out


def real_frame_build(case):
    from lomond.frame import Frame
    op, bits, payload, key = case[0], case[1], bytes.fromhex(case[2]), bytes.fromhex(case[3])
    keep_p, keep_k = bytes(payload), bytes(key)
    fin, r1, r2, r3 = (int(c) for c in bits)
    try:
        out = Frame.build(op, payload, fin=fin, rsv1=r1, rsv2=r2, rsv3=r3, mask=True, masking_key=key)
    except Exception as e:  # noqa
        return 'EXC:' + type(e).__name__
    if payload != keep_p or key != keep_k:
        return 'CALLER-DATA-MODIFIED'
    # session.send passes a private bytearray copy: the same bytes must come out
    out2 = Frame.build(op, bytearray(payload), fin=fin, rsv1=r1, rsv2=r2, rsv3=r3, mask=True, masking_key=key)
    if out2 != out:
        return 'BYTEARRAY-DIFFERS'
    return out.hex()


def real_mask(case):
    from lomond.mask import mask_payload
    key, data = bytes.fromhex(case[0]), bytearray.fromhex(case[1])
    mask_payload(key, data)
    return bytes(data).hex()


def real_maskmech(case):
    """mask_payload on a bytearray: 'ok <content>' or 'EXC:<class> <content of the bytearray after the exception>'"""
    from lomond.mask import mask_payload
    key, data = bytes.fromhex(case[0]), bytearray.fromhex(case[1])
    try:
        ret = mask_payload(key, data)
    except Exception as e:  # noqa
        return 'EXC:%s %s' % (type(e).__name__, bytes(data).hex())
    if ret is not None:
        return 'RETURNED:%r' % (ret,)
    return 'ok ' + bytes(data).hex()


def real_lanemech(case):
    """one statement data[ts::tst] = data[ss::sst].translate(_XOR_TABLE[kb]) on a bytearray, as CPython executes it"""
    from lomond.mask import _XOR_TABLE
    ts, tst, ss, sst, kb, data = case
    d = bytearray.fromhex(data)
    try:
        d[ts::tst] = d[ss::sst].translate(_XOR_TABLE[kb])
    except Exception as e:  # noqa
        return 'EXC:%s %s' % (type(e).__name__, bytes(d).hex())
    return 'ok ' + bytes(d).hex()


def explore_lanemech(res, tier, rng, model_ok):
    """the model's slice read / translate / slice assignment against CPython on arbitrary (start, step) pairs: equal slices, slices of
       different sizes (ValueError), an empty right-hand side (CPython deletes the target positions), step 1 (splice), step 0"""
    cases = []
    for n in list(range(0, 14)) + [31, 32, 33]:
        for _ in range(12 if tier == 'quick' else 60):
            ts, ss = rng.randint(0, 6), rng.randint(0, 6)
            tst, sst = rng.choice([0, 1, 2, 3, 4, 4, 5]), rng.choice([0, 1, 2, 3, 4, 4, 5])
            if rng.random() < 0.5:
                ss, sst = ts, tst
            cases.append((ts, tst, ss, sst, rng.choice([0, 255, rng.randrange(256)]), gen_core.rand_bytes(rng, n).hex()))
    reals = [real_lanemech(c) for c in cases]
    lines = ['frame lanemech %d %d %d %d %d %s' % (c[:5] + (c[5] or '-',)) for c in cases]
    models = runner.model_run(lines) if model_ok else [None] * len(lines)
    for c, line, real, model in zip(cases, lines, reals, models):
        res.case(('lanemech', c), nontrivial=True)
        res.count('lanemech-' + ('exc' if real.startswith('EXC') else 'same-slice' if c[:2] == c[2:4] else 'other-slice'))
        res.traces_validated += 1
        if model is not None and real.strip() != model.strip():
            res.diffs.append(dict(input=line[:300], real=real[:300], model=model[:300]))


def maskmech_cases(rng, tier):
    """(key hex, data hex): the mechanics model of mask.py (driver op `frame maskmech`) against the real function"""
    keys = [b'\x00\x00\x00\x00', b'\xff\xff\xff\xff', b'\x00\xff\x00\xff', b'\xff\x00\xff\x00', b'\x01\x02\x04\x08', b'\x80\x40\x20\x10']
    for lane in range(4):
        for v in (0, 255):
            k = bytearray(gen_core.rand_bytes(rng, 4)); k[lane] = v
            keys.append(bytes(k))
    keys += [gen_core.rand_bytes(rng, 4) for _ in range(4 if tier == 'quick' else 40)]
    small = list(range(0, 10)) + [4 * k + d for k in (3, 4, 5, 31, 32, 63, 64) for d in (-1, 0, 1)]
    big = [4 * k + d for k in (250, 256, 1024) for d in (-1, 0, 1)] + [1000, 1001, 1002, 1003, 2500]
    out = []
    for n in small:
        for k in keys:
            out.append((k, gen_core.rand_bytes(rng, n)))
    for n in big:
        for k in rng.sample(keys, 3 if tier == 'quick' else 8):
            out.append((k, gen_core.rand_bytes(rng, n)))
    # every data byte value in every lane; all-zero and all-ones data (the result shows the key / its complement)
    for k in keys[:6] + keys[-2:]:
        out.append((k, bytes(range(256)) + bytes(range(255, -1, -1)) + bytes(range(3))))
        out.append((k, b'\x00' * 13)); out.append((k, b'\xff' * 13))
    for _ in range(40 if tier == 'quick' else 600):
        out.append((gen_core.rand_bytes(rng, 4), gen_core.rand_bytes(rng, rng.choice([rng.randint(0, 40), rng.randint(0, 40), rng.randint(41, 700)]))))
    # keys of the wrong length: ValueError from the unpacking, the data untouched
    for kl in (0, 1, 2, 3, 5, 6, 7, 8, 16):
        for n in (0, 1, 3, 4, 5, 8, 21):
            out.append((gen_core.rand_bytes(rng, kl), gen_core.rand_bytes(rng, n)))
    out.append((b'\xff\xff\xff', b'\x01\x02\x03\x04\x05')); out.append((b'\x00' * 5, b'\x01\x02\x03\x04\x05'))
    return [(bytes(k).hex(), bytes(d).hex()) for k, d in out]


def explore_maskmech(res, tier, rng, model_ok):
    cases = maskmech_cases(rng, tier)
    reals = [real_maskmech(c) for c in cases]
    lines = ['frame maskmech %s %s' % (k or '-', d or '-') for k, d in cases]
    models = runner.model_run(lines) if model_ok else [None] * len(lines)
    for (k, d), line, real, model in zip(cases, lines, reals, models):
        kb, db = bytes.fromhex(k), bytes.fromhex(d)
        res.case(('maskmech', k, d), nontrivial=True)
        res.count('maskmech-key%d' % len(kb) if len(kb) != 4 else 'maskmech-len%s' % ('0' if not db else '%%4=%d' % (len(db) % 4)))
        res.traces_validated += 1
        if model is not None and real.strip() != model.strip():
            res.diffs.append(dict(input=line[:300], real=real[:300], model=model[:300]))
        # oracle (no model): with a 4-byte key, RFC 6455 section 5.3: octet i of the result is octet i of the data XOR octet i mod 4 of the key
        if len(kb) == 4:
            want = 'ok ' + bytes(b ^ kb[i % 4] for i, b in enumerate(db)).hex()
            if real != want:
                res.failures.append(dict(cls='mask-table', what='mask_payload is not XOR with key[i % 4]', input=[k, d[:200]], observed=real[:100], expected=want[:100]))
    res.exhaustive['maskmech_wrong_key_lengths'] = 9


def real_close_payload(case):
    from lomond.frame import Frame
    code, reason = case
    try:
        return Frame.build_close_payload(code, bytes.fromhex(reason)).hex()
    except Exception as e:  # noqa
        return 'EXC:' + type(e).__name__


def ref_decode_line(wire):
    """what refcodec says about a byte string, in the model driver's output format; the control-frame
       rules of section 5.5 (which the model states separately, `control_bound`) are reported apart"""
    try:
        fs = decode_client_frames(wire)
    except ClientFrameError as e:
        return ('control' if 'invalid control frame' in str(e) else 'invalid'), None
    return 'ok', 'ok ' + ' '.join('%d%d%d%d:%d:%s:%s' % (f['fin'], f['rsv1'], f['rsv2'], f['rsv3'], f['opcode'], f['key'].hex(), f['payload'].hex()) for f in fs)


def mutate_frame(rng, wire):
    """header-level malformations of one valid client frame"""
    w = bytearray(wire)
    kind = rng.choice(['unmask', 'trunc', 'nonmin16', 'nonmin64', 'len+', 'len-', 'top64', 'append', 'flip0'])
    if kind == 'unmask':
        w[1] &= 0x7f
    elif kind == 'trunc':
        w = w[:rng.randrange(0, len(w))] if len(w) else w
    elif kind == 'nonmin16':
        ln = w[1] & 0x7f
        if ln < 126:
            w = w[:1] + bytes([0x80 | 126]) + struct.pack('!H', ln) + w[2:]
    elif kind == 'nonmin64':
        ln = w[1] & 0x7f
        if ln < 126:
            w = w[:1] + bytes([0x80 | 127]) + struct.pack('!Q', ln) + w[2:]
        elif ln == 126:
            w = w[:1] + bytes([0x80 | 127]) + b'\x00' * 6 + w[2:]
    elif kind == 'len+':
        if (w[1] & 0x7f) < 125:
            w[1] += 1
    elif kind == 'len-':
        if 0 < (w[1] & 0x7f) < 126:
            w[1] -= 1
    elif kind == 'top64':
        w = w[:1] + bytes([0xff]) + b'\x80' + b'\x00' * 7 + w[2:]
    elif kind == 'append':
        w = w + w
    else:
        w[0] ^= rng.choice([0x80, 0x40, 0x20, 0x10, 0x0f])
    return kind, bytes(w)


def explore_frames(res, tier, rng, model_ok):
    cases = frame_build_cases(rng, tier)
    items = [(op, bits, bytes(p).hex(), bytes(k).hex()) for op, bits, p, k in cases]
    reals = runner.parallel_map('props.c03', 'real_frame_build', items)
    lines = ['frame build %d %s %s %s' % (op, bits, hx(p), hx(k)) for op, bits, p, k in cases]
    models = runner.model_run(lines) if model_ok else [None] * len(lines)
    wires = []
    for (op, bits, p, k), line, real, model in zip(cases, lines, reals, models):
        res.case(('fb', op, bits, len(p), bytes(k)), nontrivial=True)
        res.count('frame-build'); res.count('frame-len-%s' % ('7' if len(p) < 126 else '16' if len(p) < 65536 else '64'))
        res.traces_validated += 1
        if isinstance(real, dict):
            res.crashes.append(real); continue
        if model is not None and real != model:
            res.diffs.append(dict(input=line[:300], real=real[:300], model=model[:300]))
        if not all(c in '0123456789abcdef' for c in real):
            res.failures.append(dict(cls='frame-build', what='Frame.build: %s' % real, input=line[:300], observed=real, expected='a frame'))
            continue
        wire = bytes.fromhex(real)
        wires.append(wire)
        # independent oracle on the real bytes
        st, txt = ref_decode_line(wire)
        want = 'ok %s:%d:%s:%s' % (bits, op, bytes(k).hex(), bytes(p).hex())
        is_bad_ctrl = op >= 8 and (len(p) > 125 or bits[0] == '0')      # the low-level builder is not where section 5.5 is enforced
        if (st == 'control') != is_bad_ctrl or (st == 'ok' and txt != want) or st == 'invalid':
            res.failures.append(dict(cls='frame-build', what='Frame.build output does not decode to its arguments', input=line[:300],
                                     observed=(st, (txt or '')[:200]), expected=want[:200]))
    res.exhaustive['frame_build_key_byte_x_lane'] = 4 * 256
    res.exhaustive['frame_build_flag_bits'] = 16
    # the model's specification decoder against the reference decoder: valid frames, sequences, malformations
    dec = [w for w in wires if len(w) < 400]
    rng.shuffle(dec)
    dec = dec[:400 if tier == 'quick' else 3000]
    inputs = []
    for w in dec:
        inputs.append(('valid', w))
        inputs.append(mutate_frame(rng, w))
    for _ in range((50 if tier == 'quick' else 500) if dec else 0):      # no frame at all was built: already reported above
        inputs.append(('seq', b''.join(rng.choice(dec) for _ in range(rng.randint(2, 4)))))
    for w in [x for x in wires if len(x) >= 65536][:3]:
        inputs.append(('valid-long', w)); inputs.append(('trunc-long', w[:-1]))
    dlines = ['frame decode %s' % hx(w) for _, w in inputs]
    dmodels = runner.model_run(dlines) if model_ok else [None] * len(dlines)
    for (kind, w), line, model in zip(inputs, dlines, dmodels):
        res.case(('fd', w[:64], len(w)), nontrivial=True)
        res.count('frame-decode-' + kind)
        res.traces_validated += 1
        st, txt = ref_decode_line(w)
        if model is None:
            continue
        if st == 'control':
            continue          # section 5.5 violation: outside `Spec.decodeClientFrame` (section 5.2)
        if (st == 'ok' and model.rstrip() != txt.rstrip()) or (st == 'invalid' and model != 'invalid'):
            res.diffs.append(dict(input=line[:300], real='refcodec: ' + (txt or 'invalid')[:300], model=model[:300]))
    # mask_payload and build_close_payload against the model
    mcases = [(gen_core.rand_bytes(rng, 4).hex(), gen_core.rand_bytes(rng, n).hex()) for n in list(range(0, 13)) + [255, 256, 1000]]
    mreal = [real_mask(c) for c in mcases]
    mmodel = runner.model_run(['frame mask %s %s' % (k, d or '-') for k, d in mcases]) if model_ok else [None] * len(mcases)
    for c, r, m in zip(mcases, mreal, mmodel):
        res.case(('mask', c), nontrivial=True); res.count('mask'); res.traces_validated += 1
        if m is not None and (r or '') != m:
            res.diffs.append(dict(input='frame mask %s %s' % c, real=r, model=m))
        want = bytes(b ^ bytes.fromhex(c[0])[i % 4] for i, b in enumerate(bytes.fromhex(c[1]))).hex()
        if r != want:
            res.failures.append(dict(cls='mask-table', what='mask_payload is not XOR with key[i % 4]', input=list(c), observed=r[:100], expected=want[:100]))
    ccases = [(code, gen_core.rand_bytes(rng, n).hex()) for code in (None, 0, 1000, 1001, 4999, 65535) for n in (0, 1, 123, 124, 200)]
    creal = [real_close_payload(c) for c in ccases]
    cmodel = runner.model_run(['frame closepayload %s %s' % ('N' if c is None else c, r or '-') for c, r in ccases]) if model_ok else [None] * len(ccases)
    for c, r, m in zip(ccases, creal, cmodel):
        res.case(('closepayload', c), nontrivial=True); res.count('closepayload'); res.traces_validated += 1
        if m is not None and r != m:
            res.diffs.append(dict(input='frame closepayload %s %s' % c, real=r, model=m))
        want = b'' if c[0] is None else struct.pack('!H', c[0]) + bytes.fromhex(c[1])
        if r != want.hex():
            res.failures.append(dict(cls='close-args', what='build_close_payload is not code_be16 ++ reason', input=list(c), observed=r[:100], expected=want.hex()[:100]))



# ---------------------------------------------------------------------------------------------
# histories: several sends in one connection under every negotiated parameter combination, and the
# same on ONE WebSocket object connected several times (the next connection may negotiate differently)

EXTS = [None, 'permessage-deflate', 'permessage-deflate; client_no_context_takeover', 'permessage-deflate; server_no_context_takeover',
        'permessage-deflate; client_max_window_bits=9', 'permessage-deflate; client_no_context_takeover; client_max_window_bits=10; server_max_window_bits=11',
        'permessage-deflate; server_max_window_bits=8; client_max_window_bits=15',
        # legal spellings of the same parameters (RFC 7230 optional whitespace, RFC 7692 quoted values)
        'permessage-deflate; client_max_window_bits = 9', 'permessage-deflate;client_max_window_bits="8"', 'permessage-deflate ;  client_no_context_takeover ; client_max_window_bits =10']


def history_scenario(rng, ext, key_seed):
    # a negotiated window below 2^15 only matters when repeats lie further back than the window: long texts there
    base = gen_core.rand_text(rng, 900 if (ext and 'bits' in ext) else rng.choice([12, 40, 300, 900])).decode('utf-8')
    t1, t2 = 'header: ' + base, base + ' again ' + base
    b1 = ('bin ' + base).encode('utf-8') + gen_core.rand_bytes(rng, 20)
    acts = [('send_text', ('s', [ord(c) for c in t1]), True), ('send_binary', ('b', b1), True), ('send_text', ('s', [ord(c) for c in t2]), False),
            ('send_ping', ('b', b'p' * rng.choice([0, 5, 125]))), ('send_text', ('s', [ord(c) for c in t1]), True), ('send_json', ('obj', {'k': base})),
            ('send_binary', ('b', b1), True), ('close', 1000, ('b', b'done'))]
    import json as _json
    exp = [(1, t1.encode('utf-8'), True), (2, b1, True), (1, t2.encode('utf-8'), False), (9, acts[3][1][1], False), (1, t1.encode('utf-8'), True),
           (1, _json.dumps({'k': base}).encode('utf-8'), True), (2, b1, True), (8, struct.pack('!H', 1000) + b'done', False)]
    sc = Scenario([], {2: acts}, prate=0, compress=True)
    sc.key_seed = key_seed
    extra = (b'Sec-WebSocket-Extensions: ' + ext.encode() + b'\r\n') if ext else b''
    sc.env = reads([sc.good_reply(extra)]) + [('wait', 1, ('eof',))]
    return sc, exp


def judge_history(res, trace, exp, negotiated, what, inp):
    tk = toks(trace)
    try:
        i = tk.index(next(t for t in tk if t.startswith('E:ready')))
    except StopIteration:
        res.failures.append(dict(cls='history', what='%s: no Ready' % what, input=inp, observed=tk[:6])); return
    writes = [t for t in tk[i + 1:] if t[:2] in ('W:', 'Z:', 'W!')]
    results = [t for t in tk[i + 1:] if t.startswith('R:')]
    if results[:len(exp)] != ['R:ok'] * len(exp) or len(writes) < len(exp):
        res.failures.append(dict(cls='history', what='%s: %d calls, results %s, %d writes' % (what, len(exp), results[:len(exp)], len(writes)), input=inp)); return
    for n, ((op, payload, cflag), w) in enumerate(zip(exp, writes)):
        if negotiated and cflag and w.startswith(('Z:', 'W!')):      # compression is permitted here, not required: a plain frame is judged below
            if w != 'Z:%d:%s' % (op, payload.hex()):
                res.failures.append(dict(cls='compressed-send', what='%s: call %d: a peer honouring the negotiated parameters does not restore the payload (or RSV1 missing)' % (what, n), input=inp,
                                         observed=w[:120], expected=('Z:%d:%s' % (op, payload.hex()))[:120])); return
            continue
        if not w.startswith('W:'):
            res.failures.append(dict(cls='history', what='%s: call %d: RSV1/compression used although not negotiated on this connection or not requested' % (what, n), input=inp, observed=w[:120])); return
        try:
            fr = decode_client_frames(bytes.fromhex(w[2:]))
        except ClientFrameError as e:
            res.failures.append(dict(cls='history', what='%s: call %d: not a valid client frame: %s' % (what, n, e), input=inp, observed=w[:120])); return
        f = fr[0] if len(fr) == 1 else None
        if f is None or (f['fin'], f['rsv1'], f['rsv2'], f['rsv3'], f['opcode']) != (1, 0, 0, 0, op) or f['payload'] != payload:
            res.failures.append(dict(cls='history', what='%s: call %d: frame does not carry the caller\'s payload with FIN=1, RSV=0' % (what, n), input=inp, observed=w[:120])); return


def explore_histories(res, tier, rng, model_ok):
    from world import scenario_line
    singles = [history_scenario(rng, ext, 60 + i) + (ext,) for i, ext in enumerate(EXTS)]
    pairs = coreutil.run_pairs([s for s, _, _ in singles], model_ok)
    fresh = {}
    for (sc, exp, ext), (js, line, real, model) in zip(singles, pairs):
        res.case(('hist', ext), nontrivial=True); res.count('history-single')
        if isinstance(real, dict):
            res.crashes.append(real); continue
        judge_history(res, real, exp, ext is not None, 'single connection, reply extension %r' % ext, js)
        fresh[ext] = (js, line, real, model, exp)
    coreutil.check_corr(res, pairs)
    # reconnects: every ordered pair (quick: a sample of triples too)
    chains, meta = [], []
    for a in EXTS:
        for b in EXTS:
            chains.append([fresh[a][0], fresh[b][0]]); meta.append((a, b))
    for _ in range(6 if tier == 'quick' else 60):
        tri = [rng.choice(EXTS) for _ in range(3)]
        chains.append([fresh[x][0] for x in tri]); meta.append(tuple(tri))
    traces = runner.parallel_map('coreutil', 'real_chain', chains, chunk=8)
    for ch, tr, m in zip(chains, traces, meta):
        res.case(('hist-chain', m), nontrivial=True); res.count('history-chain%d' % len(m))
        if isinstance(tr, dict):
            res.crashes.append(tr); continue
        for k, ext in enumerate(m):
            js, line, real, model, exp = fresh[ext]
            what = 'connection %d of %d on one WebSocket object, reply extensions %r' % (k + 1, len(m), list(m))
            judge_history(res, tr[k], exp, ext is not None, what, dict(previous=ch[:k], next=ch[k]))
            res.traces_validated += 1
            if model is not None and tr[k] != model:
                res.diffs.append(dict(input=line[:2000], real=tr[k][-1000:], model=model[-1000:], scenario=js, previous=ch[:k]))

# ---------------------------------------------------------------------------------------------
# wire bytes: every byte string `sendall` accepted during a connection, compressed frames included,
# against the model's rendering `ZFrame.wireAll` (driver op `corez`) with zlib as the compressor
# parameter -- the zlib payloads come from an independent replay of the plaintext history, the keys
# from the connection's key source

def real_wire(sc_json):
    """run the scenario on the real code; returns dict(trace=<canonical trace>, raw=[hex of every accepted sendall])"""
    import world as _world
    sc = coreutil.scenario_from_json(sc_json)
    ws = []
    try:
        tr = _world.run_chain([sc], worlds=ws)[0]
    except runner.HangError:
        return dict(trace='HANG', raw=[])
    return dict(trace=tr, raw=[bytes(d).hex() for d in ws[0].raw], peer=ws[0].peer_cfg if isinstance(ws[0].peer_cfg, dict) else None)


def zlib_replay(plains, cw, no_takeover):
    """what RFC 7692 section 7.2.1 asks of the sender, with the window lomond picks (zlib cannot do 2^8):
       one raw-deflate stream per connection (per message with client_no_context_takeover), sync flush, tail removed"""
    import zlib
    out, c = [], None
    for p in plains:
        if c is None or no_takeover:
            c = zlib.compressobj(zlib.Z_DEFAULT_COMPRESSION, zlib.DEFLATED, -max(9, cw))
        z = c.compress(p) + c.flush(zlib.Z_SYNC_FLUSH)
        assert z.endswith(b'\x00\x00\xff\xff')
        out.append(z[:-4])
    return out


def wire_scenarios(rng, tier):
    """(scenario, [plaintexts of the compressed calls, in call order])"""
    import json as _json
    out = []
    n = 0
    for ext in EXTS:
        if ext is None:
            continue
        for variant in range(4 if tier == 'quick' else 12):
            n += 1
            sc, exp = history_scenario(rng, ext, 90 + n)
            if variant % 4 == 1:
                # calls before the socket exists: refused (WebSocketUnavailable) after their frame was built: each draws a key
                sc.reactions[0] = [('send_ping', ('b', b'early')), ('send_text', ('s', [104, 105]), True)][:rng.choice([1, 2])]
            if variant % 4 == 2:
                # a plain frame whose sendall raises (index 0 is the request): it has drawn a key too
                sc.wfail = {rng.choice([3, 4])}
            if variant % 4 == 3:
                sc.reactions[0] = [('send_binary', ('b', b'x'), False)]
                sc.wfail = {4}
                sc.prate = 1                  # an automatic Ping joins the frames (the eof step advances the clock)
                sc.env = sc.env[:-1] + [('wait', 2, None), ('wait', 1, ('eof',))]
            plains = [p for (op, p, c) in exp if c]
            out.append((sc, plains, ext))
    return out


def explore_wire(res, tier, rng, model_ok):
    from world import scenario_line, test_key
    cases = wire_scenarios(rng, tier)
    js = [coreutil.scenario_to_json(sc) for sc, _, _ in cases]
    reals = runner.parallel_map('props.c03', 'real_wire', js, chunk=8)
    lines = []
    for (sc, plains, ext), r in zip(cases, reals):
        peer = r.get('peer') if isinstance(r, dict) else None
        zs = zlib_replay(plains, peer['cw'], peer['cnt']) if peer else []
        lines.append('corez %s | %s' % (','.join(z.hex() for z in zs) if zs else '-', scenario_line(sc)[len('core '):]))
    models = runner.model_run(lines) if model_ok else [None] * len(lines)
    for (sc, plains, ext), j, r, line, model in zip(cases, js, reals, lines, models):
        res.case(('wire', ext, tuple(sorted(sc.wfail)), 0 in sc.reactions, sc.prate), nontrivial=True)
        res.count('wire-bytes')
        if not isinstance(r, dict) or 'raw' not in r:
            res.crashes.append(r if isinstance(r, dict) else dict(error=str(r))); continue
        raw, peer = r['raw'], r.get('peer')
        def fail(what, **kw):
            res.failures.append(dict(cls='wire-bytes', what='reply extension %r: %s' % (ext, what), input=j, **kw))
        if peer is None:
            fail('harness: the reply was not understood by the reference peer'); continue
        zs = zlib_replay(plains, peer['cw'], peer['cnt'])
        # ---- oracle (no model): the stream after the request is a sequence of valid client frames; the compressed ones
        # are FIN=1 RSV1=1 RSV2=RSV3=0 data frames carrying exactly the replayed zlib payloads in call order; every frame is
        # masked with a key of the key source, later frames with later keys (a fresh key per frame)
        frames = []
        ok = True
        for hx in raw[1:]:
            try:
                fr = decode_client_frames(bytes.fromhex(hx))
            except ClientFrameError as e:
                fail('a write is not a valid client frame: %s' % e, observed=hx[:80]); ok = False; break
            frames += fr          # the property is about frames on the wire, not about how many sendall calls carry them
        if not ok:
            continue
        zf = [f for f in frames if f['rsv1']]
        if [(f['fin'], f['rsv2'], f['rsv3']) for f in zf] != [(1, 0, 0)] * len(zf) or any(f['opcode'] not in (1, 2) for f in zf):
            fail('compressed frame with wrong flags/opcode'); continue
        # any compressor is fine as long as a peer honouring the negotiated parameters restores the plaintexts in order
        # (byte equality with a zlib replay is part of the model correspondence below, not of the property)
        try:
            inflater, got_plain = zlib.decompressobj(-peer['cw']), []
            for f in zf:
                got_plain.append(inflater.decompress(f['payload'] + b'\x00\x00\xff\xff'))
                if peer['cnt']:
                    inflater = zlib.decompressobj(-peer['cw'])
        except zlib.error as e:
            fail('a peer inflating with the negotiated parameters cannot read the compressed frames: %s' % e); continue
        want_plain = [bytes(p_) for p_ in plains][:len(got_plain)]
        if got_plain != want_plain:
            fail('compressed frames do not restore the plaintexts of the accepted calls in order', observed=[g[:30] for g in got_plain], expected=[w_[:30] for w_ in want_plain]); continue
        keyidx = []
        for f in frames:
            k = next((k for k in range(64) if test_key(k) == f['key']), None)
            keyidx.append(k)
        if None in keyidx:
            fail('a frame is masked with a key that did not come from the key source', observed=keyidx); continue
        res.traces_validated += 1
        # ---- correspondence: the model renders the same bytes, sendall by sendall
        if model is not None and model.split(' ') != raw:
            mt = model.split(' ')
            k = next((i for i, (a, b) in enumerate(zip(mt, raw)) if a != b), min(len(mt), len(raw)))
            res.diffs.append(dict(input=line[:3000], real='%d writes; first difference at write %d: %s' % (len(raw), k, (raw[k] if k < len(raw) else '-')[:120]),
                                  model='%d writes; %s' % (len(mt), (mt[k] if k < len(mt) else '-')[:120]), scenario=j))
    res.exhaustive['wire_byte_streams_compared'] = len(cases)


# ---------------------------------------------------------------------------------------------
# write faults: `sendall` of an application call's frame fails with the errno values a real socket produces, after the
# socket has taken any number of the frame's bytes (0 .. all but one).  The simulated socket records every sendall ATTEMPT
# with the bytes it took (world.wire), so the oracle sees the byte stream a peer would see, call by call.
#   accepted call (returns normally)  -> the bytes it put on the wire are exactly one complete valid client frame carrying the payload
#   call that raises                  -> the bytes it put on the wire are a prefix of ONE valid frame for the payload (the part the
#                                        socket took before the failure): nothing is written after a failed write, nothing twice
#   a call made before any fault whose write did not fail is accepted
# The model (core driver, `wfail=`) runs the same scenarios: a failed write is a failed call whatever the errno.

import errno as _errno

WRITE_ERRNOS = [('EPIPE', _errno.EPIPE), ('ECONNRESET', _errno.ECONNRESET), ('EINTR', _errno.EINTR), ('EAGAIN', _errno.EAGAIN),
                ('ETIMEDOUT', _errno.ETIMEDOUT), ('none', None), ('timeout', 'timeout')]
if _errno.EWOULDBLOCK != _errno.EAGAIN:
    WRITE_ERRNOS.append(('EWOULDBLOCK', _errno.EWOULDBLOCK))


def fault_calls(rng, n):
    """one valid call of every kind with an n-byte payload (control frames and close reasons cut to what fits):
       (act, opcode, payload, may be compressed)"""
    import json as _json
    b = gen_core.rand_bytes(rng, n)
    c = gen_core.rand_bytes(rng, min(n, 125))
    t = gen_core.rand_text(rng, n)
    reason = gen_core.rand_text(rng, min(n, 123))
    code = rng.choice([1000, 1001, 3000, 4999])
    obj = {'k': 'v' * n}
    return [(('send_text', ('s', [ord(ch) for ch in t.decode('utf-8')]), True), 1, t, True),
            (('send_binary', ('b', b), True), 2, b, True),
            (('send_json', ('obj', obj)), 1, _json.dumps(obj).encode('utf-8'), True),
            (('send_ping', ('b', c)), 9, c, False),
            (('send_pong', ('b', c)), 10, c, False),
            (('close', code, ('b', reason)), 8, struct.pack('!H', code) + reason, False)]


def fault_scenarios(rng, tier):
    """(scenario, wpart {write index: bytes taken}, [(opcode, payload, compressible) per call], label)"""
    out = []

    def add(calls, fails, parts, ename, eno, neg, label):
        sc = Scenario([], {2: [c[0] for c in calls]}, prate=0, compress=neg, wfail=set(fails), werrno=eno)
        sc.key_seed = rng.randrange(16)
        extra = b'Sec-WebSocket-Extensions: permessage-deflate\r\n' if neg else b''
        sc.env = reads([sc.good_reply(extra)]) + [('wait', 1, ('eof',))]
        out.append((sc, dict(zip(fails, parts)), [(c[1], c[2], c[3]) for c in calls], '%s-%s' % (label, ename)))

    filler = (('send_binary', ('b', b'\x01\x02'), False), 2, b'\x01\x02', False)
    # (1) short frames: EVERY number of bytes taken, every errno, every kind of call, the fault in the first call
    for kind in range(6):
        for ename, eno in WRITE_ERRNOS:
            calls = fault_calls(rng, 3)
            # header 2 + key 4 + payload (a close payload has two more bytes, the json text is longer): every position up to the longest
            for taken in range(0, 9 + 14):
                c = calls[kind]
                flen = 6 + len(c[2])
                if taken >= flen:
                    break
                add([c] if c[1] == 8 else [c, filler], [1], [taken], ename, eno, False, 'short-every-position')
    # (2) lengths on both sides of the 7/16/64-bit encodings: positions inside the header, the key, the payload, all but one / two
    lens = [0, 1, 125, 126, 300] + ([65535, 65536] if tier == 'thorough' else [65536])
    for n in lens:
        for ename, eno in WRITE_ERRNOS:
            calls = fault_calls(rng, n)
            kinds = range(6) if tier == 'thorough' else rng.sample(range(6), 3)
            for kind in kinds:
                c = calls[kind]
                hdr = 2 + (0 if len(c[2]) < 126 else 2 if len(c[2]) < 65536 else 8)
                pos = [0, 1, 2, hdr - 1, hdr, hdr + 1, hdr + 3, hdr + 4, hdr + 5, hdr + 4 + len(c[2]) // 2, -2, -1, rng.randrange(0, hdr + 4 + max(1, len(c[2])))]
                for taken in (pos if tier == 'thorough' else rng.sample(pos, 3) + [-1]):
                    neg = c[3] and rng.random() < 0.3
                    add([c] if c[1] == 8 else [c, filler], [1], [taken], ename, eno, neg, 'boundary-len%d%s' % (n, '-deflate' if neg else ''))
    # (3) the fault in a later call (a clean call first), and two failing writes in a row (a second attempt, if any, fails too)
    for ename, eno in WRITE_ERRNOS:
        for rep in range(2 if tier == 'quick' else 8):
            calls = fault_calls(rng, rng.choice([0, 2, 7, 40, 125, 126]))
            a, b = rng.sample(calls[:5], 2)
            last = rng.choice(calls)
            add([a, b, last], [2], [rng.choice([0, 1, 2, 5, 6, 7, -1])], ename, eno, False, 'second-call')
            add([a, b, last], [1, 2], [rng.choice([0, 1, 3, 6, -1]), rng.choice([0, 2, 6, -1])], ename, eno, False, 'two-failing-writes')
            add([a, b, last], [1, 3], [rng.choice([0, 1, 3, 6, -1]), rng.choice([0, 2, 6, -1])], ename, eno, False, 'two-faults-apart')
    return out


def real_fault(item):
    """item = (scenario json, [[write index, bytes taken] ...]); returns dict(trace, wire=<every sendall attempt>, calls)"""
    import world as _world
    sc_json, parts = item
    sc = coreutil.scenario_from_json(sc_json)
    sc.wpart = {int(k): int(n) for k, n in parts}
    ws = []
    try:
        tr = _world.run_chain([sc], worlds=ws)[0]
    except runner.HangError:
        return dict(trace='HANG', wire=[], calls=[])
    return dict(trace=tr, wire=ws[0].wire, calls=[[c[0], c[1], c[2]] for c in ws[0].calls])


def judge_one_frame(wire, op, payload, may_compress):
    """None if `wire` is exactly one complete valid client frame (FIN, RSV clear unless compression negotiated and requested,
       shortest length, masked) that carries `payload`; else what is wrong"""
    try:
        fr = decode_client_frames(wire)
    except ClientFrameError as e:
        return 'not a sequence of complete valid client frames (%s)' % e
    if len(fr) != 1:
        return '%d frames' % len(fr)
    f = fr[0]
    if (f['fin'], f['rsv2'], f['rsv3'], f['opcode']) != (1, 0, 0, op):
        return 'header bits wrong: %s' % {k: f[k] for k in ('fin', 'rsv1', 'rsv2', 'rsv3', 'opcode')}
    if f['rsv1']:
        if not may_compress:
            return 'RSV1 set although compression was not negotiated or not requested'
        try:
            plain = zlib.decompressobj(-15).decompress(f['payload'] + b'\x00\x00\xff\xff')
        except zlib.error as e:
            return 'compressed payload does not inflate (%s)' % e
        return None if plain == payload else 'inflated payload differs from the caller\'s data'
    return None if f['payload'] == payload else 'unmasked payload differs from the caller\'s data'


def judge_fault_run(r, exp, neg):
    """oracle for one write-fault run; returns a list of (what, observed) - empty if the run satisfies the property"""
    bad = []
    tk = toks(r['trace'])
    broken = False                       # a write has failed or a close went out: later calls may legitimately be refused
    for i, (n0, kind, result) in enumerate(r['calls']):
        if i >= len(exp):
            break
        op, payload, czip = exp[i]
        rpos = next((k for k in range(n0, len(tk)) if tk[k].startswith('R:')), len(tk))
        att = [e for e in r['wire'] if n0 <= e['pos'] < rpos]
        taken = b''.join(bytes.fromhex(e['data'])[:e['acc']] for e in att)
        failed = [e for e in att if e['err'] is not None]
        desc = 'call %d (%s): %s' % (i, kind, '; '.join('sendall of %d bytes %s' % (len(e['data']) // 2, 'taken' if e['err'] is None else 'failed with %s after %d bytes' % (e['err'], e['acc'])) for e in att) or 'no sendall')
        obs = dict(result=result, on_wire=taken.hex()[:160], attempts=[(e['acc'], len(e['data']) // 2, e['err']) for e in att])
        if result == 'ok' and kind == 'close' and failed:
            # close() does not raise on a dead transport: it reports nothing to the caller and the session ends through the event
            # stream (the documented behaviour all other properties build on).  Such a close is not an accepted write: it is judged
            # like a call that raised - what it put on the wire is one complete frame or a prefix of one, nothing after the failure
            first = bytes.fromhex(att[0]['data'])
            why = judge_one_frame(first, op, payload, False)
            if why:
                bad.append(('%s: the data handed to sendall is not one valid frame with the caller\'s payload: %s' % (desc, why), obs))
            elif taken != first[:len(taken)]:
                bad.append(('%s: a write of this close() failed, but the %d bytes it put on the wire are not a prefix of one frame: bytes were written after the failed write (a retry repeats what the socket had already taken)' % (desc, len(taken)), obs))
        elif result == 'ok':
            why = judge_one_frame(taken, op, payload, neg and czip)
            if why:
                bad.append(('%s returned normally, but the %d bytes it put on the wire are not exactly one complete frame with the caller\'s payload: %s' % (desc, len(taken), why), obs))
        else:
            if not failed and not broken:
                bad.append(('%s raised %s although the arguments are valid and no write had failed' % (desc, result), obs))
            if att:
                first = bytes.fromhex(att[0]['data'])
                why = judge_one_frame(first, op, payload, neg and czip)
                if why:
                    bad.append(('%s: the data handed to sendall is not one valid frame with the caller\'s payload: %s' % (desc, why), obs))
                elif taken != first[:len(taken)]:
                    bad.append(('%s raised %s, but the %d bytes it put on the wire are not a prefix of one frame: bytes were written after the failed write (a retry repeats what the socket had already taken)' % (desc, result, len(taken)), obs))
        if failed or kind == 'close':
            broken = True
    return bad


def explore_write_faults(res, tier, rng, model_ok):
    from world import scenario_line
    cases = fault_scenarios(rng, tier)
    js = [coreutil.scenario_to_json(sc) for sc, _, _, _ in cases]
    items = [(j, sorted(parts.items())) for j, (_, parts, _, _) in zip(js, cases)]
    reals = runner.parallel_map('props.c03', 'real_fault', items, chunk=16)
    lines = [scenario_line(sc) for sc, _, _, _ in cases]
    models = runner.model_run(lines) if model_ok else [None] * len(lines)
    for (sc, parts, exp, label), item, r, line, model in zip(cases, items, reals, lines, models):
        res.case(('write-fault', label, tuple(sorted(parts.items())), tuple(a[0] for a in sc.reactions[2]), tuple(len(e[1]) for e in exp), sc.compress), nontrivial=True)
        res.count('write-fault-' + label)
        if not isinstance(r, dict) or 'wire' not in r:
            res.crashes.append(r if isinstance(r, dict) else dict(error=str(r))); continue
        inp = dict(scenario=item[0], wpart=[list(p) for p in item[1]])
        if not any(e['err'] is not None for e in r['wire']):
            res.failures.append(dict(cls='write-fault', what='harness: the injected write fault was never reached (%s)' % label, input=inp, observed=r['trace'][-300:])); continue
        for what, obs in judge_fault_run(r, exp, sc.compress)[:1]:
            res.failures.append(dict(cls='write-fault', what='%s [errno %s]: %s' % (label, sc.werrno, what), input=inp, observed=obs,
                                     expected='an accepted call puts exactly one complete frame on the wire; a call whose write failed raises and writes nothing more'))
        res.traces_validated += 1
        if model is not None and r['trace'] != model:
            res.diffs.append(dict(input=line[:3000], real=r['trace'][-1500:], model=model[-1500:], scenario=item[0], wpart=inp['wpart']))
    res.exhaustive['write_fault_short_frame_positions_x_errnos_x_call_kinds'] = sum(1 for c in cases if c[3].startswith('short-every-position'))


def explore(res, tier, seed, model_ok=True):
    import gencheck   # differential test of the translated code (Generated/Code.lean) against the original Python
    gencheck.run(res, 'C03', tier, seed, model_ok)
    rng = random.Random(seed)
    res.rule = ('API calls made by the application at the Ready event on the real WebSocket: send_binary/send_text with every length 0..130 and around 65536, ping/pong/close lengths 0..130, '
                'texts over all planes, lone surrogates, wrong argument types, out-of-range close codes; with and without negotiated compression and compress flag; every written frame decoded by the independent decoder; '
                'exhaustive: mask_payload on 4 lanes x 256 key bytes x 256 data bytes; '
                'mask mechanics: the model of mask.py\'s table / unpacking / translate / slice assignment (frame maskmech) against the real mask_payload: lengths 0..9, 4k-1, 4k, 4k+1 up to 4097, keys with 00 and ff bytes in every lane, all byte values, and keys of 0,1,2,3,5,6,7,8,16 bytes (ValueError, data untouched); single statements data[s::t] = data[s\'::t\'].translate(row) with arbitrary slices against CPython (size mismatch, empty right-hand side, steps 0 and 1); '
                'frame level: the real Frame.build (all 16 FIN/RSV combinations, lengths on both sides of 126 and 65536, every key byte value in every lane) against the model and against the independent decoder, '
                'the model\'s specification decoder against the independent decoder on valid frames, frame sequences and header malformations (unmasked, truncated, non-minimal lengths, 2^63); '
                'histories: 8 calls (compressed and not, control frames) in one connection under 10 reply-extension spellings (incl. whitespace around the equals sign and quoted values) (window bits, no_context_takeover either side, none), inflated by a peer configured from the REPLY BYTES, '
                'and the same on ONE WebSocket object connected 2 or 3 times with every ordered pair of negotiations (each connection judged by its own negotiation, and against the model of a fresh connection); '
                'write faults: sendall of a call\'s frame fails with EPIPE / ECONNRESET / EINTR / EAGAIN(=EWOULDBLOCK) / ETIMEDOUT / no errno / socket.timeout after the socket took k bytes - every k from 0 to all-but-one on short frames of every call kind, header / key / payload / last-byte positions at payload lengths 0, 1, 125, 126, 300, 65536 (plain and deflate), in the first or a later call, two failing writes in a row or apart; '
                'judged on the bytes each call put on the wire (every sendall attempt recorded with the bytes taken): accepted call = exactly one complete frame, raising call = a prefix of one frame and nothing after the failed write; also compared with the model; '
                'non-trivial = every call; distinct by call')
    try:
        bad = real_mask_table(None)
    except Exception as e:      # a mask_payload that raises on a 4-byte key and plain data is a failure of the property, not of the harness
        bad = [('raised', type(e).__name__, str(e)[:80])]
    res.exhaustive['mask_lane_key_byte'] = 4 * 256 * 256
    res.evaluations += 4 * 256
    for b in bad[:3]:
        res.failures.append(dict(cls='mask-table', what='mask_payload wrong at %s' % (b,), input=list(b)))
    calls = calls_for(rng, tier)
    scs, meta = [], []
    for act, exp in calls:
        for neg, cflag in ((False, True), (True, True), (True, False)):
            if act[0] in ('send_text', 'send_binary'):
                a = (act[0], act[1], cflag)
            else:
                if neg and not cflag:
                    continue
                a = act
            if tier == 'quick' and neg and rng.random() < 0.5:
                continue
            sc = Scenario([], prate=0, compress=neg)
            extra = b'Sec-WebSocket-Extensions: permessage-deflate\r\n' if neg else b''
            # a second harmless call after the first checks that a rejected call left the state unchanged
            sc.reactions = {2: [a, ('send_binary', ('b', b'\x01\x02'), False)]}
            if a[0] == 'close':
                sc.reactions = {2: [a]}
            sc.env = reads([sc.good_reply(extra)]) + [('wait', 1, ('eof',))]
            scs.append(sc); meta.append((a, exp, neg))
    pairs = coreutil.run_pairs(scs, model_ok)
    for (js, line, real, model), (a, exp, neg) in zip(pairs, meta):
        if isinstance(real, dict):
            res.crashes.append(real); continue
        res.case((a, neg))
        res.count(a[0]); res.count('reject' if exp[0] == 'reject' else 'accept')
        tk = toks(real)
        i = tk.index(next(t for t in tk if t.startswith('E:ready')))
        after = tk[i + 1:]
        # tokens up to and including the first R: belong to the call under test
        j = next((k for k, t in enumerate(after) if t.startswith('R:')), None)
        def fail(what, cls=None):
            res.failures.append(dict(cls=cls or ('api:' + a[0]), what=what, input=line[-1500:], scenario=js, observed=after[:4]))
        if j is None:
            fail('no result recorded for the call'); continue
        mine, result = after[:j], after[j][2:]
        if exp[0] == 'reject':
            if result != exp[1]:
                fail('expected %s, call returned %s' % (exp[1], result), cls='close-args' if a[0] == 'close' else None); continue
            if mine:
                fail('rejected call wrote to the socket', cls='close-args' if a[0] == 'close' else None); continue
            if a[0] != 'close':
                rest = after[j + 1:]
                if len(rest) < 2 or not rest[0].startswith('W:') or rest[1] != 'R:ok':
                    fail('a rejected call changed the state: the next valid send did not go out')
            continue
        if result != 'ok':
            fail('valid call raised %s' % result, cls='close-args' if a[0] == 'close' else None); continue
        if len(mine) != 1:
            fail('accepted call wrote %d frames' % len(mine)); continue
        w = mine[0]
        compressed = neg and ((a[0] in ('send_text', 'send_binary') and a[2]) or a[0] == 'send_json')
        if compressed and w.startswith(('Z:', 'W!')):        # compression is permitted here, not required: a plain frame is judged below
            if w != 'Z:%d:%s' % (exp[1], exp[2].hex()):
                fail('compressed frame does not restore the payload (or RSV1 missing): %s' % w[:80], cls='compressed-send')
            continue
        if not w.startswith('W:'):
            fail('RSV1/compression used although not negotiated or not requested: %s' % w[:60]); continue
        try:
            fr = decode_client_frames(bytes.fromhex(w[2:]))
        except ClientFrameError as e:
            fail('written bytes are not a valid client frame: %s' % e, cls='close-args' if a[0] == 'close' else None); continue
        if len(fr) != 1:
            fail('one call wrote %d frames' % len(fr)); continue
        f = fr[0]
        if (f['fin'], f['rsv1'], f['rsv2'], f['rsv3'], f['opcode']) != (1, 0, 0, 0, exp[1]):
            fail('header bits wrong: %s' % {k: f[k] for k in ('fin', 'rsv1', 'rsv2', 'rsv3', 'opcode')}); continue
        if f['payload'] != exp[2]:
            fail('unmasked payload differs from the caller\'s data'); continue
    coreutil.check_corr(res, pairs)
    explore_frames(res, tier, rng, model_ok)
    explore_maskmech(res, tier, random.Random(seed * 7919 + 3), model_ok)     # its own stream: the other generators keep their cases
    explore_lanemech(res, tier, random.Random(seed * 7919 + 4), model_ok)
    explore_histories(res, tier, rng, model_ok)
    explore_wire(res, tier, rng, model_ok)
    explore_write_faults(res, tier, random.Random(seed * 7919 + 5), model_ok)     # its own stream: the other generators keep their cases
    res.samples += [pairs[0][1][-200:], pairs[len(pairs) // 2][1][-200:]]


def replay(rp):
    inp = rp.get('input')
    if isinstance(inp, str) and inp.startswith('frame build '):
        _, _, op, bits, p, k = inp.split(' ')
        out = real_frame_build((int(op), bits, '' if p == '-' else p, '' if k == '-' else k))
        print('Frame.build(%s, %s, bits=%s, masking_key=%s) -> %s' % (op, p, bits, k, out[:400]))
        if all(c in '0123456789abcdef' for c in out):
            print('independent decoder: %s' % (ref_decode_line(bytes.fromhex(out)),))
        return 0
    if isinstance(inp, dict) and 'previous' in inp:
        for t in coreutil.real_chain(inp['previous'] + [inp['next']]):
            print(t)
        return 0
    if isinstance(inp, list) and len(inp) == 2 and rp.get('cls') == 'mask-table':
        print('mask_payload(%s, %s) -> %s' % (inp[0], inp[1], real_mask(inp)))
        return 0
    if rp.get('cls') == 'write-fault' and isinstance(inp, dict):
        r = real_fault((inp['scenario'], inp['wpart']))
        print(r['trace'])
        for e in r['wire']:
            print('sendall #%d (trace position %d): %d bytes, %s: %s' % (e['k'], e['pos'], len(e['data']) // 2,
                  'all taken' if e['err'] is None else 'FAILED errno=%s after %d bytes were taken' % (e['err'], e['acc']), e['data'][:120]))
        print('calls (trace position, kind, result): %s' % (r['calls'],))
        return 0
    if rp.get('cls') == 'wire-bytes' and isinstance(inp, dict):
        r = real_wire(inp)
        print(r['trace'])
        for n, hx_ in enumerate(r['raw']):
            print('sendall #%d: %s' % (n, hx_[:400]))
        return 0
    return coreutil.replay_core(rp)
