"""C17 - each connect() starts from a clean slate."""
from __future__ import annotations
import json
import random
import runner, coreutil, gen_core
from coreutil import Scenario, events, reads
from refcodec import server_frame, close_payload

TRUSTED = ['correspondence: harness/world.py run_chain (two connections on one WebSocket object)', 'late finalisation: harness/props/c17.py real_reconnect (kept generators closed / collected at scripted moments) against Model/Reconnect.lean', 'harness/translate.py finalisation-time state-access facts (exitStateReads, onDisconnectOnParam)', 'harness/translate.py attribute-write facts', 'key schedule: harness/props/c17.py key_chain / ctr_nonces (a counter stream served in place of os.urandom) against Model/KeyChain.lean; harness/translate.py initValues (the text of the State.key initialiser)']
TRUSTED += ['configured objects (custom headers added before / between connections): harness/props/c10.py real_reconf, AnsweringEnv, server_answer (a scripted server that answers the request bytes the socket accepted) - oracle only, not run on the model']
ASSUMPTIONS = ['oracle is real-vs-real: the second connection on a used object against the first connection on a new object, same server behaviour and same key draw']

def endings(rng):
    """previous-connection scenarios with abnormal endings"""
    sc = Scenario([])
    g = sc.good_reply()
    gz = sc.good_reply(b'Sec-WebSocket-Extensions: permessage-deflate\r\n')
    E = []
    E.append(('mid-header', Scenario(reads([g[:40]]) + [('wait', 0, ('eof',))], {}, prate=0)))
    E.append(('mid-header-abandon', Scenario(reads([g[:40]]), {1: [('abandon', 'close')]}, prate=0)))
    E.append(('mid-frame', Scenario(reads([g + server_frame(1, b'hello world')[:5]]) + [('wait', 0, ('sockerr',))], {}, prate=0)))
    E.append(('mid-fragment', Scenario(reads([g + server_frame(1, b'he', fin=0)]) + [('wait', 0, ('eof',))], {}, prate=0)))
    E.append(('mid-fragment-abandon', Scenario(reads([g + server_frame(1, b'he', fin=0) + server_frame(9, b'')]), {4: [('abandon', 'drop')]}, prate=0)))
    E.append(('mid-utf8', Scenario(reads([g + server_frame(1, b'\xe2\x82', fin=0)]) + [('wait', 0, ('eof',))], {}, prate=0)))
    E.append(('utf8-error', Scenario(reads([g + server_frame(1, b'ab\xff')]) + [('wait', 0, ('eof',))], {}, prate=0)))
    E.append(('deflate-negotiated', Scenario(reads([gz + server_frame(1, b'plain')]) + [('wait', 0, ('eof',))], {}, prate=0)))
    # permessage-deflate with BOTH no_context_takeover options; the connection ends on invalid deflate data inside a compressed message
    gzz = sc.good_reply(b'Sec-WebSocket-Extensions: permessage-deflate; server_no_context_takeover; client_no_context_takeover\r\n')
    E.append(('bad-deflate-no-takeover', Scenario(reads([gzz + server_frame(1, b'\xff\xff\xff\x07garbage', rsv1=1)]) + [('wait', 0, ('eof',))], {}, prate=0)))
    E.append(('mid-deflate-no-takeover', Scenario(reads([gzz + server_frame(1, bytes.fromhex('f248cd'), rsv1=1, fin=0)]) + [('wait', 0, ('eof',))], {}, prate=0)))
    # a connection that really built compression contexts in both directions (and ends inside a compressed fragmented message)
    from refcodec import DeflatePeer
    pr = DeflatePeer()
    zfr = b''.join(server_frame(1, pr.compress(m), rsv1=1) for m in (b'context context context one', b'context context two'))
    zpart = pr.compress(b'context context context three')
    E.append(('deflate-contexts-built', Scenario(reads([gz + zfr + server_frame(2, zpart[:5], rsv1=1, fin=0)]) + [('wait', 0, ('eof',))],
                                                 {3: [('send_text', ('s', [ord(c) for c in 'context context context']), True)], 4: [('send_binary', ('b', b'context context context'), True)]}, prate=0)))
    E.append(('while-closing', Scenario(reads([g + server_frame(1, b'x')]) + [('wait', 0, ('eof',))], {2: [('close', 1000, ('b', b'bye'))]}, prate=0)))
    E.append(('closing-timeout', Scenario(reads([g]) + [('wait', 5, None)] * 8, {2: [('close', 1000, ('b', b'bye'))]}, prate=0, ctimeout=10)))
    E.append(('server-closed', Scenario(reads([g + server_frame(8, close_payload(1000, b''))]) + [('wait', 0, ('eof',))], {}, prate=0)))
    E.append(('rejected', Scenario(reads([b'HTTP/1.1 401 No\r\n\r\n']) + [('wait', 0, ('eof',))], {}, prate=0)))
    E.append(('connect-failed', Scenario([], {}, conn='sockfail')))
    E.append(('request-failed', Scenario([], {}, wfail={0})))
    E.append(('protocol-error', Scenario(reads([g + server_frame(3, b'')]) + [('wait', 0, ('eof',))], {}, prate=0)))
    E.append(('abandon-at-ready', Scenario(reads([g]), {2: [('abandon', 'raise')]}, prate=0)))
    E.append(('abandon-with', Scenario(reads([g + server_frame(2, b'zz')]), {4: [('abandon', 'with')]}, prate=0)))
    # abandoned but still referenced: the application breaks out of the loop and keeps the generator until after the next connect()
    # (`gen = ws.connect()` rebinding, a traceback or a non-refcounting interpreter keeping the frame alive) - it is finalised DURING the next connection
    for mech in ('late', 'late2'):
        E.append(('kept-at-ready-' + mech, Scenario(reads([g]), {2: [('abandon', mech)]}, prate=0)))
        E.append(('kept-at-text-' + mech, Scenario(reads([g + server_frame(1, b'one') + server_frame(1, b'two')]), {4: [('abandon', mech)]}, prate=0)))
        E.append(('kept-at-ping-' + mech, Scenario(reads([g + server_frame(1, b'he', fin=0) + server_frame(9, b'')]), {4: [('abandon', mech)]}, prate=0)))
        E.append(('kept-at-closing-' + mech, Scenario(reads([g + server_frame(8, close_payload(1000, b''))]), {4: [('abandon', mech)]}, prate=0)))
        E.append(('kept-at-connected-' + mech, Scenario(reads([g]), {1: [('abandon', mech)]}, prate=0)))
        E.append(('kept-at-poll-' + mech, Scenario(reads([g]), {3: [('abandon', mech)]}, prate=0)))
    E.append(('ping-timeout', Scenario(reads([g]) + [('wait', 5, None)] * 4, {}, prate=2, ptimeout=7)))
    E.append(('timers-advanced', Scenario(reads([g]) + [('wait', 5, None)] * 3 + [('wait', 0, ('eof',))], {}, prate=3)))
    for _ in range(4):
        E.append(('random', gen_core.gen_history(rng, n_steps=rng.randint(1, 6), timers=True)))
    return E


def key_chain(item):
    """worker: `n` consecutive connect() calls on ONE WebSocket object; the Sec-WebSocket-Key of each upgrade request, as a server
    would read it from the request bytes.  `src` = 'os' (the real os.urandom) or 'ctr' (a counter stream: every byte asked for is new)"""
    n, src = item
    import re
    import lomond.websocket as _websocket
    from lomond.websocket import WebSocket
    saved = _websocket.os.urandom
    ctr = [0]

    def stream(k):
        import hashlib
        out = b''
        while len(out) < k:
            ctr[0] += 1
            out += hashlib.sha256(b'key stream %d' % ctr[0]).digest()
        return out[:k]
    try:
        if src == 'ctr':
            _websocket.os.urandom = stream
        ws = WebSocket('ws://example.com/chat', proxies={})
        keys = []
        for _ in range(n):
            ws.connect()        # the generator is not advanced: the request is built from the state connect() has just made
            m = re.search(rb'\r\nSec-WebSocket-Key:[ \t]*([^\r\n]*?)[ \t]*\r\n', bytes(ws.build_request()), re.I)
            keys.append(m.group(1).decode('latin-1') if m else None)
        return keys
    finally:
        _websocket.os.urandom = saved


def explore_persist_touch(res, tier, rng):
    """reconnect chains produced by persist() in which the application touches the websocket BETWEEN two connections (close(), a send,
    a look at the flags while it handles BackOff): every connection of the chain must still be the connection the same server behaviour
    produces without persist() and without the touches (harness/props/c16.py run_world: `via` vs `direct`)"""
    import props.c16 as c16
    cases = []
    for _ in range(25 if tier == 'quick' else 400):
        case, names = c16.gen_world_case(rng)
        n = len(case['scs'])
        case['touch'] = {str(i): rng.choice([['close'], ['close'], ['send'], ['look', 'close'], ['close', 'send']]) for i in range(n) if rng.random() < 0.7}
        cases.append(case)
    for case, r in zip(cases, runner.parallel_map('props.c16', 'run_world', cases, chunk=5)):
        if '__crash__' in r:
            res.crashes.append(r); continue
        res.case(('persist-touch', json.dumps(case, sort_keys=True)[-300:]), nontrivial=bool(case['touch'])); res.count('persist_chain_touched_between_connections')
        for i, (v, d) in enumerate(zip(r['via'], r['direct'])):
            if v != d:
                a, b = v.split(' '), d.split(' ')
                at = next((k for k, (x, y) in enumerate(zip(a, b)) if x != y), min(len(a), len(b)))
                res.failures.append(dict(cls='stale-state', what='connection %d of a persist() chain whose application touched the websocket between connections (%s) differs from the same history on its own' % (
                    i + 1, case['touch']), input=dict(persist_touch=case), observed=' '.join(a[at:at + 4])[:400], expected=' '.join(b[at:at + 4])[:400]))
                break


def explore_reconf(res, tier, rng, seed):
    """the application configures the object between connections: add_header() before the first connect() and BETWEEN connect()s
    (a refreshed Authorization / Cookie), offered protocols, compress, any URL shape; 2-4 connection attempts on the object, each ending
    in one of the ways of props/c10.py RECONF_ENDS; a scripted server answers the request it really received (props/c10.py
    server_answer: first Sec-WebSocket-Key field of the request bytes).  Oracle (real-vs-real, no model: the core line has no custom
    headers): connection k of the used object == the only connection of a FRESH object that was given the same constructor
    arguments, the custom headers in force at that moment, the same entropy draw and the same server - request bytes, events, end state."""
    import props.c10 as c10
    n = 40 if tier == 'quick' else 800
    items = [c10.gen_reconf(rng, seed * 100003 + 70000 + i) for i in range(n)]
    fresh, where = [], []
    for ci, item in enumerate(items):
        for k in range(1, len(item['rounds'])):
            fresh.append(dict(item, headers=c10.reconf_headers(item, k), rounds=[dict(item['rounds'][k], add=[])], k0=k))
            where.append((ci, k))
    outs = runner.parallel_map('props.c10', 'real_reconf', items + fresh, chunk=20)
    used, alone = outs[:len(items)], outs[len(items):]
    for (ci, k), fr in zip(where, alone):
        item, ch = items[ci], used[ci]
        if '__crash__' in ch or '__crash__' in fr:
            res.crashes.append(ch if '__crash__' in ch else fr); continue
        prev = item['rounds'][k - 1]['end']
        res.case(('reconf', json.dumps(item, sort_keys=True), k), nontrivial=True)
        res.count('reconf_oracle_only_after_' + prev)
        res.count('reconf_oracle_only_headers_%s' % ('added_between_connects' if item['rounds'][k]['add'] else ('from_before' if c10.reconf_headers(item, k) else 'none')))
        res.traces_validated += 1
        got, want = ch['traces'][k], fr['traces'][0]
        if got != want:
            a, b = got.split(' '), want.split(' ')
            at = next((i for i, (x, y) in enumerate(zip(a, b)) if x != y), min(len(a), len(b)))
            show = lambda t: (bytes.fromhex(t[2:]).decode('latin-1') if t.startswith('W:') and b'HTTP/1.1' in bytes.fromhex(t[2:])[:400] else t)[:900]
            res.failures.append(dict(cls='stale-state', what='connect #%d on a configured object (previous connection ended: %s; custom headers %s) differs from the same connection on a fresh WebSocket '
                                     'with the same configuration, at trace token %d' % (k + 1, prev, 'added since' if item['rounds'][k]['add'] else 'unchanged', at),
                                     input=dict(reconf=item, connect=k), observed=' | '.join(show(t) for t in a[at:at + 3]), expected=' | '.join(show(t) for t in b[at:at + 3])))


def ctr_nonces(count):
    """what the counter stream of `key_chain(..., 'ctr')` serves for `count` consecutive os.urandom(16) calls (one sha256 block per call)"""
    import hashlib
    return [hashlib.sha256(b'key stream %d' % i).digest()[:16] for i in range(1, count + 1)]


def explore_keys(res, tier, model_ok=True):
    """"begins with a new handshake key": long reconnect chains on one object (what persist() produces over hours); no key of the chain
    may have been on the wire before.  (A repeat with the real os.urandom has probability < 2^-100.)
    Correspondence (Model/KeyChain.lean `chain`, theorems Properties/C17_Keys.lean): for the counter stream the nonces are known, so the
    model's key schedule (driver `http keychain`: constructor = draw 0, connect #k = draw k) must give exactly the keys the real requests carry."""
    n = 80 if tier == 'quick' else 1500
    items = [(n, 'os'), (n, 'ctr'), (n // 2, 'os')]
    for (k, src), keys in zip(items, runner.parallel_map('props.c17', 'key_chain', items, chunk=1)):
        if isinstance(keys, dict):
            res.crashes.append(keys); continue
        res.case(('key-chain', k, src), nontrivial=True); res.count('key_chain_connects', k)
        seen = {}
        for i, key in enumerate(keys):
            if key is None or len(key) != 24:
                res.failures.append(dict(cls='key-malformed', what='connect #%d of the chain: Sec-WebSocket-Key is %r' % (i + 1, key), input=dict(key_chain=[k, src])))
                break
            if key in seen:
                res.failures.append(dict(cls='key-reused', what='connect #%d on the object sends the Sec-WebSocket-Key of connect #%d again (%s)' % (i + 1, seen[key] + 1, key),
                                         input=dict(key_chain=[k, src]), observed=key))
                break
            seen[key] = i
        if src == 'ctr' and model_ok:
            # one os.urandom(16) per State: the constructor's, then one per connect()
            mk = runner.model_run(['http keychain ' + b''.join(ctr_nonces(k + 1)).hex()])[0].split(' ')
            model = [bytes.fromhex(h).decode('latin-1') for h in mk[1:]]
            res.traces_validated += 1
            if model != list(keys):
                at = next((i for i, (a, b) in enumerate(zip(model, keys)) if a != b), min(len(model), len(keys)))
                res.diffs.append(dict(input=dict(key_chain=[k, src]), real='connect #%d: %r' % (at + 1, keys[at] if at < len(keys) else None),
                                      model='connect #%d: %r' % (at + 1, model[at] if at < len(model) else None)))


def explore(res, tier, seed, model_ok=True):
    from world import scenario_line
    rng = random.Random(seed)
    nnext = 6 if tier == 'quick' else 40
    res.rule = ('pairs (previous connection, next connection) on ONE WebSocket object: 30 fixed abnormal endings (abandoned generators finalised only after the next connect() or in the middle of the next connection, at Ready/Text/Ping/Closing/Connected/Poll; mid-header, mid-frame, mid-fragment, mid-UTF-8 sequence, deflate negotiated, while closing, close timeout, server closed, rejected, connect failed, '
                'request failed, protocol error, abandoned by close/drop/raise/with, ping timeout, timers advanced) + random ones x %d next-connection histories (with timers and reactions); '
                'oracle: the second connection\'s trace equals the trace of the same history on a fresh object; '
                'configured objects (oracle only): custom headers added before the first connect() and between connect()s x offered protocols x compress x URL shapes, 2-4 attempts ending in 10 ways, '
                'a server answering the request it received - connection k == the connection of a fresh object with the current configuration (request bytes included); chains of 80 (quick) / 1500 connect() calls on one object: no Sec-WebSocket-Key is sent twice; non-trivial = every pair; distinct by (ending, next line)') % nnext
    nexts = []
    for i in range(nnext):
        b = gen_core.gen_history(rng, n_steps=rng.randint(2, 7), timers=rng.random() < 0.5, p_good=0.95, key_seed=5 + i)
        nexts.append(b)
    # fixed next-connection histories that look at the state most likely to be stale
    def fx(i, frames_after, rx=None, **kw):
        s = Scenario([], rx or {}, **kw)
        s.key_seed = 40 + i          # the reply must answer THIS connection's key
        s.env = reads([s.good_reply()] + frames_after[0]) + frames_after[1]
        return s
    def fxz(i, ext=b'permessage-deflate'):
        from refcodec import DeflatePeer
        peer = DeflatePeer(server_no_takeover=b'server_no_context_takeover' in ext)
        s = Scenario([], {3: [('send_text', ('s', [104, 105, 104, 105]), True)]}, prate=0, compress=True)
        s.key_seed = 40 + i
        fr = b''.join(server_frame(1, peer.compress(m), rsv1=1) for m in (b'hello hello hello', b'hello again hello'))
        s.env = reads([s.good_reply(b'Sec-WebSocket-Extensions: ' + ext + b'\r\n') + fr]) + [('wait', 0, ('eof',))]
        return s
    fixed_next = [
        fx(0, ([server_frame(1, b'hello') + server_frame(0x1, '€'.encode())], [('wait', 0, ('eof',))]), prate=0),
        fx(1, ([server_frame(0, b'cont')], [('wait', 0, ('eof',))]), prate=0),
        fx(2, ([], [('wait', 5, None), ('wait', 5, None), ('wait', 0, ('eof',))]), {3: [('send_text', ('s', [104]), True)]}, prate=3, ptimeout=20),
        # a compressed (RSV1) frame although THIS connection did not negotiate the extension: must be a ProtocolError
        fx(3, ([server_frame(2, bytes.fromhex('f248cdc9c90700'), rsv1=1) + server_frame(1, b'after')], [('wait', 0, ('eof',))]), prate=0),
        # a connection that lives longer than any close timeout a previous connection may have armed, and never closes
        fx(4, ([], [('wait', 5, None)] * 9 + [('wait', 0, ('data', server_frame(1, b'still here'))), ('wait', 5, None), ('wait', 0, ('eof',))]), prate=0, ctimeout=30),
        fx(5, ([], [('wait', 5, None)] * 4 + [('wait', 0, ('data', server_frame(10, b'')))] + [('wait', 5, None)] * 4 + [('wait', 0, ('eof',))]), prate=4, ptimeout=12, ctimeout=6),
        # negotiates compression itself (after a previous connection that did or did not) and receives/sends compressed messages
        fxz(6),
        fxz(7, b'permessage-deflate; server_no_context_takeover; client_no_context_takeover'),
    ]
    nexts = fixed_next + nexts
    chains, meta = [], []
    nidx = []
    for name, a in endings(rng):
        for bi, b in enumerate(nexts):
            a.compress, a.url, a.protocols = b.compress, b.url, b.protocols      # constructor arguments belong to the object, not to a connection
            chains.append([coreutil.scenario_to_json(a), coreutil.scenario_to_json(b)]); meta.append(name); nidx.append(bi)
    # longer chains: A1, A2, B
    for bi, b in enumerate(nexts[:3]):
        nidx.append(bi)
        es = endings(rng)
        a1, a2 = rng.choice(es)[1], rng.choice(es)[1]
        for a in (a1, a2):
            a.compress, a.url, a.protocols = b.compress, b.url, b.protocols
        chains.append([coreutil.scenario_to_json(a1), coreutil.scenario_to_json(a2), coreutil.scenario_to_json(b)]); meta.append('chain3')
    chain_traces = runner.parallel_map('coreutil', 'real_chain', chains, chunk=10)
    fresh = coreutil.run_pairs(nexts, model_ok)
    coreutil.check_corr(res, fresh)
    for ch, tr, name, bi in zip(chains, chain_traces, meta, nidx):
        if isinstance(tr, dict):
            res.crashes.append(tr); continue
        js, bline, freal, fmodel = fresh[bi]
        if isinstance(freal, dict):
            continue
        res.case((name, bline))
        res.count('after_' + name)
        res.count('next_reaches_ready' if 'E:ready' in freal else 'next_without_ready')
        got = tr[-1]
        if got != freal:
            res.failures.append(dict(cls='stale-state', what='connection after "%s" differs from the same history on a fresh WebSocket' % name,
                                     input=dict(previous=ch[:-1], next=ch[-1]), observed=got[-700:], expected=freal[-700:]))
        if fmodel is not None and got != fmodel:
            res.diffs.append(dict(input=bline[:2000], real=got[-1000:], model=fmodel[-1000:], scenario=js, previous=ch[:-1]))
        res.traces_validated += 1
        # the new connection carries its own key (fresh draw)
        key = coreutil.scenario_from_json(ch[-1]).key().hex()
        if 'E:connected' in got and key not in got:
            res.failures.append(dict(cls='stale-key', what='request of the new connection does not carry a fresh key', input=dict(previous=ch[:-1], next=ch[-1])))
    explore_reconnect(res, tier, rng, model_ok)
    explore_keys(res, tier, model_ok)
    explore_persist_touch(res, tier, rng)
    explore_reconf(res, tier, rng, seed)
    res.samples += [dict(previous='mid-fragment', next=scenario_line(nexts[0])[-300:])]


# ---------------------------------------------------------------------------------------------
# late finalisation (Model/Reconnect.lean): one WebSocket object, several connections whose generators the
# application keeps, finalised at arbitrary later moments; observed: the flags of the CURRENT state

def real_reconnect(ops):
    """ops: 'c' connect and iterate up to the first Text event (generator kept, suspended inside feed), 'x<i>' finalise the
       generator of connection i, 'oc' ws.close(), 'od' finalise the current connection's own generator.
       Returns the model driver's output format: '<op>:<closed><closing><session closed>' per op."""
    import gc
    import world as W
    import lomond.session as _session, lomond.events as _events, lomond.websocket as _websocket, lomond.frame as _frame
    from lomond.websocket import WebSocket
    saved = (_session.time, _events.time, _frame.make_masking_key, _websocket.os.urandom)
    cur = {}

    class TimeShim:
        @staticmethod
        def time():
            return cur['world'].clock.t
    out, gens = [], []
    try:
        _session.time = TimeShim
        _events.time = TimeShim
        _frame.make_masking_key = lambda: b'\x01\x02\x03\x04'
        _websocket.os.urandom = lambda n: cur['sc'].key_bytes()[:n]
        first = Scenario([])
        cur['sc'] = first
        ws = WebSocket(first.url, proxies={})
        one_cls = W.make_session_class(cur)      # one session class for every connection of the object
        for op in ops:
            if op == 'c':
                sc = Scenario([], {}, prate=0)
                sc.key_seed = len(gens) + 1
                sc.env = reads([sc.good_reply() + server_frame(1, b'one') + server_frame(1, b'two')]) + [('wait', 5, None)] * 3
                w = W.World(sc, cur['world'].clock.t + 3.0 if 'world' in cur else 1000.0)
                w.canon_write = W._canon_write_factory(w)
                cur['sc'], cur['world'] = sc, w
                g = ws.connect(session_class=one_cls, ping_rate=0.0)
                for ev in g:
                    if ev.name == 'text':
                        break
                gens.append(g)
                g = None
            elif op == 'oc':
                try:
                    ws.close()
                except Exception:  # noqa
                    pass
            elif op == 'od':
                if len(gens) % 2:
                    gens[-1].close()
                else:
                    gens[-1] = None
                    gc.collect()
            else:
                i = int(op[1:])
                if i % 2:
                    gens[i].close()
                else:
                    gens[i] = None
                    gc.collect()
            st = ws.state
            out.append('%s:%d%d%d' % (op, 1 if st.closed else 0, 1 if st.closing else 0, 1 if (st.session is None or st.session._sock is None) else 0))
    finally:
        _session.time, _events.time, _frame.make_masking_key, _websocket.os.urandom = saved
        del gens[:]
        gc.collect()
    return ' '.join(out)


def gen_reconnect_ops(rng):
    ops, n, exited = ['c'], 1, set()
    for _ in range(rng.randint(2, 9)):
        r = rng.random()
        old = [i for i in range(n - 1) if i not in exited]
        if r < 0.3:
            ops.append('c'); n += 1
        elif r < 0.65 and old:
            i = rng.choice(old); exited.add(i); ops.append('x%d' % i)
        elif r < 0.85:
            ops.append('oc')
        elif (n - 1) not in exited:
            exited.add(n - 1); ops.append('od')
    return ops


def explore_reconnect(res, tier, rng, model_ok):
    seqs = [['c', 'c', 'x0'], ['c', 'c', 'c', 'x0', 'oc', 'x1'], ['c', 'oc', 'c', 'x0'], ['c', 'c', 'x0', 'od'], ['c', 'od', 'c', 'x0', 'oc']]
    seqs += [gen_reconnect_ops(rng) for _ in range(60 if tier == 'quick' else 1500)]
    reals = runner.parallel_map('props.c17', 'real_reconnect', seqs, chunk=20)
    models = runner.model_run(['reconnect ' + ' '.join(s) for s in seqs]) if model_ok else [None] * len(seqs)
    for ops, real, model in zip(seqs, reals, models):
        if isinstance(real, dict):
            res.crashes.append(real); continue
        res.case(('reconnect', tuple(ops)), nontrivial=any(o.startswith('x') for o in ops))
        res.count('reconnect_history'); res.count('reconnect_late_exits', sum(1 for o in ops if o.startswith('x')))
        res.traces_validated += 1
        if model is not None and real != model:
            res.diffs.append(dict(input='reconnect ' + ' '.join(ops), real=real, model=model))
        # model-free oracle: finalising an OLDER connection's generator never changes the current connection's flags
        toks_ = real.split(' ')
        for k, t in enumerate(toks_):
            if t.startswith('x') and k > 0 and t.split(':')[1] != toks_[k - 1].split(':')[1]:
                res.failures.append(dict(cls='stale-state', what='finalising the kept generator of an earlier connection changed the state of the current connection (%s -> %s)'
                                         % (toks_[k - 1], t), input=dict(reconnect=ops), observed=real))
                break


def replay(rp):
    inp = rp.get('input')
    if isinstance(inp, dict) and 'persist_touch' in inp:
        import props.c16 as c16
        r = c16.run_world(inp['persist_touch'])
        for i, (v, d) in enumerate(zip(r['via'], r['direct'])):
            print('connection %d under persist():' % (i + 1), v[-600:]); print('connection %d on its own    :' % (i + 1), d[-600:])
        return 0
    if isinstance(inp, dict) and 'reconf' in inp:
        import props.c10 as c10
        item, k = inp['reconf'], inp['connect']
        ch = c10.real_reconf(item)
        fr = c10.real_reconf(dict(item, headers=c10.reconf_headers(item, k), rounds=[dict(item['rounds'][k], add=[])], k0=k))
        print('connect #%d on the used object :' % (k + 1), ch['traces'][k][-1500:]); print('same connect on a fresh object:', fr['traces'][0][-1500:])
        return 0
    if isinstance(inp, dict) and 'key_chain' in inp:
        keys = key_chain(tuple(inp['key_chain']))
        rep = [(i + 1, keys.index(k) + 1, k) for i, k in enumerate(keys) if keys.index(k) != i]
        print('connects: %d; repeated keys (connect, first sent at connect, key): %s' % (len(keys), rep[:5]))
        return 0
    if isinstance(inp, dict) and 'reconnect' in inp:
        print(real_reconnect(inp['reconnect']))
        return 0
    if isinstance(inp, str) and inp.startswith('reconnect '):
        print(real_reconnect(inp.split(' ')[1:]))
        return 0
    inp = rp.get('input')
    if isinstance(inp, dict) and 'previous' in inp:
        for t in coreutil.real_chain(inp['previous'] + [inp['next']]):
            print(t)
        return 0
    return coreutil.replay_core(rp)
