"""C17 - each connect() starts from a clean slate."""
from __future__ import annotations
import random
import runner, coreutil, gen_core
from coreutil import Scenario, events, reads
from refcodec import server_frame, close_payload

TRUSTED = ['correspondence: harness/world.py run_chain (two connections on one WebSocket object)', 'harness/translate.py attribute-write facts']
ASSUMPTIONS = ['oracle is real-vs-real: the second connection on a used object against the first connection on a new object, same server behaviour and same key draw']

def endings(rng):
    """previous-connection scenarios with abnormal endings"""
    sc = Scenario([])
    g = sc.good_reply()
    gz = sc.good_reply(b'Sec-WebSocket-Extensions: permessage-deflate\r\n')
    E = []
    E.append(('mid-header', Scenario(reads([g[:40]]) + [('wait', 0, ('eof',))], {}, prate=0)))
    E.append(('mid-header-abandon', Scenario(reads([g[:40]]), {1: [('abandon', 'close')]}, prate=0)))
    E.append(('mid-frame', Scenario(reads([g + server_frame(1, b'hello world')[:5]]) + [('wait', 0, ('sockerr',))], {}, prate=0)))
    E.append(('mid-fragment', Scenario(reads([g + server_frame(1, b'he', fin=0)]) + [('wait', 0, ('eof',))], {}, prate=0)))
    E.append(('mid-fragment-abandon', Scenario(reads([g + server_frame(1, b'he', fin=0) + server_frame(9, b'')]), {4: [('abandon', 'drop')]}, prate=0)))
    E.append(('mid-utf8', Scenario(reads([g + server_frame(1, b'\xe2\x82', fin=0)]) + [('wait', 0, ('eof',))], {}, prate=0)))
    E.append(('utf8-error', Scenario(reads([g + server_frame(1, b'ab\xff')]) + [('wait', 0, ('eof',))], {}, prate=0)))
    E.append(('deflate-negotiated', Scenario(reads([gz + server_frame(1, b'plain')]) + [('wait', 0, ('eof',))], {}, prate=0)))
    E.append(('while-closing', Scenario(reads([g + server_frame(1, b'x')]) + [('wait', 0, ('eof',))], {2: [('close', 1000, ('b', b'bye'))]}, prate=0)))
    E.append(('closing-timeout', Scenario(reads([g]) + [('wait', 5, None)] * 8, {2: [('close', 1000, ('b', b'bye'))]}, prate=0, ctimeout=10)))
    E.append(('server-closed', Scenario(reads([g + server_frame(8, close_payload(1000, b''))]) + [('wait', 0, ('eof',))], {}, prate=0)))
    E.append(('rejected', Scenario(reads([b'HTTP/1.1 401 No\r\n\r\n']) + [('wait', 0, ('eof',))], {}, prate=0)))
    E.append(('connect-failed', Scenario([], {}, conn='sockfail')))
    E.append(('request-failed', Scenario([], {}, wfail={0})))
    E.append(('protocol-error', Scenario(reads([g + server_frame(3, b'')]) + [('wait', 0, ('eof',))], {}, prate=0)))
    E.append(('abandon-at-ready', Scenario(reads([g]), {2: [('abandon', 'raise')]}, prate=0)))
    E.append(('abandon-with', Scenario(reads([g + server_frame(2, b'zz')]), {4: [('abandon', 'with')]}, prate=0)))
    E.append(('ping-timeout', Scenario(reads([g]) + [('wait', 5, None)] * 4, {}, prate=2, ptimeout=7)))
    E.append(('timers-advanced', Scenario(reads([g]) + [('wait', 5, None)] * 3 + [('wait', 0, ('eof',))], {}, prate=3)))
    for _ in range(4):
        E.append(('random', gen_core.gen_history(rng, n_steps=rng.randint(1, 6), timers=True)))
    return E


def explore(res, tier, seed, model_ok=True):
    rng = random.Random(seed)
    nnext = 6 if tier == 'quick' else 40
    res.rule = ('pairs (previous connection, next connection) on ONE WebSocket object: 18 fixed abnormal endings (mid-header, mid-frame, mid-fragment, mid-UTF-8 sequence, deflate negotiated, while closing, close timeout, server closed, rejected, connect failed, '
                'request failed, protocol error, abandoned by close/drop/raise/with, ping timeout, timers advanced) + random ones x %d next-connection histories (with timers and reactions); '
                'oracle: the second connection\'s trace equals the trace of the same history on a fresh object; non-trivial = every pair; distinct by (ending, next line)') % nnext
    nexts = []
    for i in range(nnext):
        b = gen_core.gen_history(rng, n_steps=rng.randint(2, 7), timers=rng.random() < 0.5, p_good=0.95, key_seed=5 + i)
        nexts.append(b)
    # fixed next-connection histories that look at the state most likely to be stale
    def fx(i, frames_after, rx=None, **kw):
        s = Scenario([], rx or {}, **kw)
        s.key_seed = 40 + i          # the reply must answer THIS connection's key
        s.env = reads([s.good_reply()] + frames_after[0]) + frames_after[1]
        return s
    fixed_next = [
        fx(0, ([server_frame(1, b'hello') + server_frame(0x1, '€'.encode())], [('wait', 0, ('eof',))]), prate=0),
        fx(1, ([server_frame(0, b'cont')], [('wait', 0, ('eof',))]), prate=0),
        fx(2, ([], [('wait', 5, None), ('wait', 5, None), ('wait', 0, ('eof',))]), {3: [('send_text', ('s', [104]), True)]}, prate=3, ptimeout=20),
    ]
    nexts = fixed_next + nexts
    chains, meta = [], []
    for name, a in endings(rng):
        for b in nexts:
            a.compress, a.url, a.protocols = b.compress, b.url, b.protocols      # constructor arguments belong to the object, not to a connection
            chains.append([coreutil.scenario_to_json(a), coreutil.scenario_to_json(b)]); meta.append(name)
    # longer chains: A1, A2, B
    for b in nexts[:3]:
        es = endings(rng)
        a1, a2 = rng.choice(es)[1], rng.choice(es)[1]
        for a in (a1, a2):
            a.compress, a.url, a.protocols = b.compress, b.url, b.protocols
        chains.append([coreutil.scenario_to_json(a1), coreutil.scenario_to_json(a2), coreutil.scenario_to_json(b)]); meta.append('chain3')
    chain_traces = runner.parallel_map('coreutil', 'real_chain', chains, chunk=10)
    fresh = coreutil.run_pairs(nexts, model_ok)
    fresh_by_line = {}
    for b, (js, line, real, model) in zip(nexts, fresh):
        fresh_by_line[line] = (js, real, model)
    coreutil.check_corr(res, fresh)
    from world import scenario_line
    for ch, tr, name in zip(chains, chain_traces, meta):
        if isinstance(tr, dict):
            res.crashes.append(tr); continue
        bline = scenario_line(coreutil.scenario_from_json(ch[-1]))
        js, freal, fmodel = fresh_by_line[bline]
        res.case((name, bline))
        res.count('after_' + name)
        res.count('next_reaches_ready' if 'E:ready' in freal else 'next_without_ready')
        got = tr[-1]
        if got != freal:
            res.failures.append(dict(cls='stale-state', what='connection after "%s" differs from the same history on a fresh WebSocket' % name,
                                     input=dict(previous=ch[:-1], next=ch[-1]), observed=got[-700:], expected=freal[-700:]))
        if fmodel is not None and got != fmodel:
            res.diffs.append(dict(input=bline[:2000], real=got[-1000:], model=fmodel[-1000:], scenario=js, previous=ch[:-1]))
        res.traces_validated += 1
        # the new connection carries its own key (fresh draw)
        key = coreutil.scenario_from_json(ch[-1]).key().hex()
        if 'E:connected' in got and key not in got:
            res.failures.append(dict(cls='stale-key', what='request of the new connection does not carry a fresh key', input=dict(previous=ch[:-1], next=ch[-1])))
    res.samples += [dict(previous='mid-fragment', next=scenario_line(nexts[0])[-300:])]


def replay(rp):
    inp = rp.get('input')
    if isinstance(inp, dict) and 'previous' in inp:
        for t in coreutil.real_chain(inp['previous'] + [inp['next']]):
            print(t)
        return 0
    return coreutil.replay_core(rp)
