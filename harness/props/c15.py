"""C15 - keep-alive, timeouts and polling fire when, and only when, they should."""
from __future__ import annotations
import random
import runner, coreutil, gen_core
from coreutil import Scenario, events, reads, toks
from refcodec import server_frame, close_payload, decode_client_frames

TRUSTED = ['correspondence: harness/world.py virtual clock (integer-valued float seconds, exact float arithmetic)']
ASSUMPTIONS = ['time advances only inside selector.wait, by at most the poll interval per loop cycle (a timed-out wait lasts exactly the poll interval): `EnvBound cfg.poll env`, the decidable well-formedness condition of environment scripts (C15Run.env_bound_iff); asserted for every generated scenario and counted in the distribution',
               'float rounding for non-integer times and a non-monotonic time.time() are outside the model']


def make(rng):
    poll = rng.choice([1, 2, 3, 5])
    prate = rng.choice([0, 0, 1, 2, 3, 4, 7, 10])
    ptimeout = rng.choice([0, 0, 2, 3, 5, 8, 12])
    ctimeout = rng.choice([0, 0, 1, 3, 4, 9, 30])
    # automatic pongs are switched off in a quarter of the cases: the timers must not notice (a received Pong still counts as a sign of life)
    sc = Scenario([], poll=poll, prate=prate, ptimeout=ptimeout, ctimeout=ctimeout, autopong=rng.random() >= 0.25)
    env = [('wait', rng.randint(0, poll), ('data', sc.good_reply()))]
    ncyc = rng.randint(3, 30)
    close_at = rng.choice([None, None, rng.randint(3, 12)])
    for k in range(ncyc):
        r = rng.random()
        if r < 0.45:
            env.append(('wait', poll, None))
        else:
            dt = rng.randint(0, poll)
            kind = rng.random()
            if kind < 0.45:
                data = server_frame(10, b'')
            elif kind < 0.7:
                data = server_frame(1, b'data')
            elif kind < 0.85:
                data = server_frame(9, b'x')
            else:
                data = server_frame(10, b'p') + server_frame(2, b'\x00')
            env.append(('wait', dt, ('data', data)))
    if rng.random() < 0.3:
        step = ('wait', rng.randint(0, poll), ('data', server_frame(8, close_payload(1000, b''))))
        if rng.random() < 0.5:
            env.insert(rng.randint(1, len(env)), step)      # the server's Close (a reply to ours, or its own) arrives anywhere in the history
        else:
            env.append(step)
        env += [('wait', poll, None)] * rng.randint(0, 8)
    env.append(('wait', rng.randint(0, poll), ('eof',)))
    sc.env = env
    if close_at is not None:
        sc.reactions = {close_at: [('close', 1000, ('b', b'bye'))]}
        if rng.random() < 0.3:       # an application that calls close() again at every later event (each call after the first is a no-op)
            sc.reactions = {i: [('close', 1000, ('b', b'bye'))] for i in range(close_at, close_at + 60)}
    sc.zero = rng.random() < 0.3     # disabled timeouts given as 0 rather than None
    sc.tdiv = rng.choice([1, 4, 8])  # the clock runs in whole, quarter or eighth seconds (fractional times; exact in binary floating point)
    return sc


def env_bound(sc):
    """`EnvBound cfg.poll env` of lean/Lomond/Proofs/TimerInv.lean, i.e. `TimerRun.envBoundB`: every `selector.wait` step of
       the script returns after at most `poll` (what the real selector's time-out argument guarantees; the simulated
       selector takes the duration from the script).  The run-level upper bounds of C15 (C15_Run.lean) assume it."""
    return all(st[0] != 'wait' or 0 <= st[1] <= sc.poll for st in sc.env)


def judge(res, js, line, real, sc):
    tk = toks(real)
    p, r, pt, c = sc['poll'], sc['prate'], sc['ptimeout'], sc['ctimeout']
    def fail(msg, cls='timing'):
        res.failures.append(dict(cls=cls, what=msg, input=line[-1500:], scenario=js, observed=[t[:40] for t in tk[-12:]]))
    now = 0
    ready_t = None
    polls, pings, ticks = [], [], []
    last_alive = None          # time (since Ready) of Ready or the most recent Pong
    sent_close = None
    open_ = True               # connection open = not closing/closed (no Close sent or received)
    unresp = None
    disc = None
    seq = []                   # (session time, token)
    for i, t in enumerate(tk):
        if t.startswith('T:'):
            now = int(t[2:])
            if ready_t is not None:
                ticks.append(now - ready_t)
            continue
        st = (now - ready_t) if ready_t is not None else None
        if t.startswith('E:ready'):
            ready_t = now; last_alive = 0
            seq.append((0, 'ready'))
        elif t == 'E:poll':
            polls.append(st)
        elif t.startswith('E:pong'):
            seq.append((st, 'pong'))
        elif t == 'E:unresponsive':
            unresp = st
            seq.append((st, 'unresponsive'))
        elif t.startswith('E:disconnected'):
            disc = (st, t)
        elif t.startswith('W:') and ready_t is not None:
            try:
                f = decode_client_frames(bytes.fromhex(t[2:]))[0]
            except Exception:  # noqa
                continue
            app = i + 1 < len(tk) and tk[i + 1].startswith('R:')
            if f['opcode'] == 9 and not app:
                pings.append(st)
            if f['opcode'] == 8 and sent_close is None:
                sent_close = st
                seq.append((st, 'close-sent'))
        elif t.startswith(('E:closing', 'E:closed')):
            seq.append((st, t.split(':')[1]))
    if ready_t is None:
        return
    # ---- Poll: begins right after Ready; gaps in [p, 2p)
    if not polls or polls[0] != 0:
        return fail('no Poll right after Ready')
    for a, b in zip(polls, polls[1:]):
        if not (p <= b - a <= 2 * p):        # 'never closer together than p nor further apart than 2p'
            return fail('consecutive Polls %d and %d apart, outside [p, 2p] with p=%d' % (a, b, p), 'poll-gap')
    end_t = disc[0] if disc else (ticks[-1] if ticks else 0)
    if polls and end_t - polls[-1] > 2 * p:
        return fail('no Poll for %d > 2p although the connection was up' % (end_t - polls[-1]), 'poll-gap')
    # ---- automatic Ping
    if r == 0 and pings:
        return fail('automatic Ping written although ping_rate is 0', 'ping')
    if r > 0:
        # never twice within one period ((k-1)r, kr]
        periods = [(-(-t // r)) for t in pings]      # ceil(t / r): index of the period the ping lies in
        if len(set(periods)) != len(periods):
            return fail('two automatic Pings within one period: times %s rate %d' % (pings, r), 'ping')
        # required: within p after Ready and after every multiple of r, while the connection is open and running
        closed_from = min([t for t, n in seq if n in ('close-sent', 'closing', 'closed', 'unresponsive')] + [end_t])
        k = 0
        while True:
            lo = k * r
            if lo + p >= closed_from or lo + p > end_t:      # the window must end while the connection is still open
                break
            # some loop cycle ran in (lo, lo+p] ?  (the environment guarantees cycles at most p apart)
            if not any(lo <= t <= lo + p for t in pings):        # 'within p after every multiple of r' (the multiple itself included)
                if any(lo < tt <= lo + p for tt in ticks):
                    return fail('no automatic Ping in (%d, %d] (rate %d, poll %d; pings at %s)' % (lo, lo + p, r, p, pings), 'ping')
            k += 1
    # ---- Unresponsive iff more than pt since Ready / last Pong (checked at every cycle)
    alive = 0
    events_t = sorted(seq, key=lambda x: x[0])
    if unresp is not None:
        if pt == 0:
            return fail('Unresponsive although ping_timeout is disabled', 'ping-timeout')
        lastp = max([t for t, n in seq if n in ('pong', 'ready') and t <= unresp])
        if not unresp - lastp > pt:
            return fail('Unresponsive after only %d (timeout %d)' % (unresp - lastp, pt), 'ping-timeout')
        if unresp - lastp - pt > p:
            return fail('Unresponsive noticed later than p after the deadline', 'ping-timeout')
        if not disc or disc[1] != 'E:disconnected:ping-timeout:0':
            return fail('Unresponsive not followed by a non-graceful Disconnected', 'ping-timeout')
    elif pt:
        # no cycle may have run with more than pt since the last sign of life
        pongs = [t for t, n in seq if n in ('pong', 'ready')]
        for tt in ticks:
            if disc and tt > disc[0]:
                break
            lastp = max([x for x in pongs if x <= tt] or [0])
            # a pong received in the same cycle is processed after the check of that cycle
            lastp_before = max([x for x in pongs if x < tt] or [0])
            if tt - lastp_before > pt and tt - lastp > pt:
                return fail('connection still up at %d, %d after the last Pong/Ready (timeout %d)' % (tt, tt - lastp, pt), 'ping-timeout')
    # ---- close timeout
    forced = disc and disc[1] == 'E:disconnected:close-timeout:0'
    if forced:
        if c == 0 or sent_close is None:
            return fail('close timeout fired although disabled / no Close sent', 'close-timeout')
        if not (sent_close + c <= disc[0] <= sent_close + c + p):
            return fail('forced disconnect at %d, Close sent at %d, timeout %d, poll %d' % (disc[0], sent_close, c, p), 'close-timeout')
    elif c and sent_close is not None and any(n == 'closed' and t > sent_close + c + p for t, n in seq):
        tcl = next(t for t, n in seq if n == 'closed')
        return fail('the closing handshake completed at %d although the Close sent at %d had been unanswered for longer than close_timeout %d + poll %d: no forced disconnect happened in between' % (tcl, sent_close, c, p), 'close-timeout')
    elif c and sent_close is not None and not any(n == 'closed' for _, n in seq):
        if disc and disc[0] > sent_close + c + p:
            return fail('no forced disconnect although the Close sent at %d was unanswered until %d (timeout %d)' % (sent_close, disc[0], c), 'close-timeout')


def explore(res, tier, seed, model_ok=True):
    import gencheck   # differential test of the translated code (Generated/Code.lean) against the original Python
    gencheck.run(res, 'C15', tier, seed, model_ok)
    rng = random.Random(seed)
    n = 500 if tier == 'quick' else 10000
    res.rule = ('%d histories on the virtual clock (unit 1, 1/4 or 1/8 s: fractional poll/rate/timeouts and arrival times): poll in {1,2,3,5}, ping_rate in {0,1,2,3,4,7,10}, ping_timeout in {None,2,3,5,8,12}, close_timeout in {None,1,3,4,9,30}; 3-30 loop cycles with timeouts and arrivals (Pong, data, Ping) at 0..poll, '
                'application close() at a random event (in 30%% of those: again at every later event), disabled timeouts given as None or as 0, server Close reply after a random delay; oracle: the inequalities of the property evaluated on the real timestamps; non-trivial = a timer other than Poll fired; distinct by operation line') % n
    scs = [make(rng) for _ in range(n)]
    for sc in scs:      # well-formedness of the generated environments: the hypothesis `EnvBound` of the upper-bound theorems
        if env_bound(sc):
            res.count('env-bound (every wait <= poll)')
        else:
            res.crashes.append(dict(what='generated scenario violates EnvBound (a wait step longer than poll)',
                                    poll=sc.poll, env=[st[:2] for st in sc.env][:40]))
    pairs = coreutil.run_pairs(scs, model_ok)
    for js, line, real, model in pairs:
        if isinstance(real, dict):
            res.crashes.append(real); continue
        res.case(line, nontrivial=('unresponsive' in real or 'close-timeout' in real or real.count('W:89') > 0))
        for k in ('E:unresponsive', 'close-timeout', 'E:closed'):
            if k in real:
                res.count(k)
        judge(res, js, line, real, js)
    coreutil.check_corr(res, pairs)
    res.samples += [pairs[0][1][pairs[0][1].find(' | '):][:400]]


def replay(rp):
    return coreutil.replay_core(rp)
