"""C18 - available data is always drained without waiting for more traffic.

   (T) Lomond.Properties.C18 over Model/Transport.lean: no blocking wait while anything is buffered,
       fed chunks = prefix of the arrivals in order (each <= BUFFER_SIZE), every byte fed at its
       arrival tick, everything eventually fed (liveness), and the `..._without_shortcut` witnesses.
   (K) the REAL `lomond.selectors.SelectorBase.wait` (subclassed: only `wait_readable` is ours) and the
       REAL `WebsocketSession.run` / `_recv` on a simulated plain / TLS-like transport with a virtual
       clock; the transport's observation log  P<pending()> W<t0>:<t1>:<readable>:<kernel>:<pending>
       R<t>:<count>:<n>  is compared token by token with the model driver (`xport ...`).
   (S) oracle, written from the property text only: every message is yielded, and every automatic Pong
       written, at the virtual time at which its last byte arrived; no wait consumes virtual time while
       the kernel buffer or the TLS layer holds unread bytes; all bytes are read by EOF.
       Plus real loopback TCP and TLS runs (wall clock): bursts up to ~300 KB and hundreds of small
       frames per TLS record must be delivered, and Pings answered, far below the poll interval.
   (D) draining while ANOTHER application thread is inside a send, blocked in sendall() on back-pressure and holding the
       write lock (deterministic scheduler harness/sched.py, as in C11 family (a2)): the sender is paused before a chunk of
       its sendall, a message is made available to the loop thread and ONLY the loop thread is scheduled; the message
       event must be yielded before the sender makes any progress, and no entry of the loop thread may find it waiting
       for the lock (oracle from the property text; the runs are also compared with the thread model, driver op `threads`).
"""
from __future__ import annotations
import collections, hashlib, json, os, random, shutil, socket, ssl, subprocess, threading, base64
import time as _time
import runner

TRUSTED = ['harness/translate.py (BUFFER_SIZE)',
           'correspondence: harness/props/c18.py (simulated plain / TLS-like socket, virtual clock, selector subclass)',
           'the simulated transport semantics: level-triggered poll(2), recv_into = min(count, available), '
           'one TLS record decrypted per read, pending() = decrypted unread bytes, fd readable iff undecrypted records exist',
           'loopback runs: the OS TCP stack, CPython ssl / OpenSSL (validate the modelled semantics, wall-clock bounds)',
           'family drain-while-sender-blocked: harness/sched.py (deterministic scheduler; a sender paused before a chunk of its sendall '
           '= a sendall blocked on back-pressure) and harness/thrutil.py (comparison with the thread model Model/ThreadsN.lean)']
ASSUMPTIONS = ['poll(2) level-triggering and OpenSSL record / pending() behaviour are MODELLED (Model/Transport.lean, and '
               'independently in this file); they are validated only by the real loopback TCP/TLS runs',
               'KQueueSelector / SelectSelector are not reachable on this platform (PollSelector is what the loopback runs use)',
               'the websocket neither closes nor fails before the peer\'s EOF (valid frames only; no Close frame); '
               'processing takes zero virtual time',
               'TLS records of real OpenSSL never exceed 16384 bytes, so with a 64 KiB read pending() is 0 after every read; '
               'the pending() short-cut is exercised with TLS-like records larger than the buffer (any socket exposing pending())',
               'family drain-while-sender-blocked: the received messages are compressed Text messages (the scheduler harness scripts '
               'only those: `rm` / `rm2`), so permessage-deflate is negotiated in these runs; frames that need a REPLY (Ping, Close) are '
               'placed after the data messages only - their reply needs the wire the blocked sender occupies, so its delay is not a finding',
               'loopback latency bound %.1fs is wall clock on a shared machine; the poll interval there is %ds']

LEANCHECK_MODULES = ['Lomond.Model.Transport', 'Lomond.Proofs.Transport', 'Lomond.Proofs.TransportLive']
LOOP_POLL = 30          # poll interval of the loopback runs (seconds): what one missed drain would cost
LOOP_BOUND = 3.0        # wall-clock bound on delivery / pong latency in the loopback runs
ASSUMPTIONS[-1] = ASSUMPTIONS[-1] % (LOOP_BOUND, LOOP_POLL)

BUF = 65536             # replaced by the real WebsocketSession.BUFFER_SIZE at run time
TLS_REC = 16384
URL = 'ws://example.com/chat'


# ---------------------------------------------------------------------------------------------
# the stream a case describes (deterministic from the small JSON description)

def _payload(kind, i, n):
    if kind == 'binary':
        pat = bytes((j + 17 * i) & 0xff for j in range(256))
    else:
        base = b'abcdefghijklmnopqrstuvwxyz 0123456789-ABCDEFGHIJKLMNOPQRSTUVWXYZ'
        pat = base[i % len(base):] + base[:i % len(base)]
    return (pat * (n // len(pat) + 1))[:n]


def _key_bytes():
    return bytes((i * 11 + 3) % 256 for i in range(16))


def _handshake_reply(deflate=False):
    from lomond import constants
    key = base64.b64encode(_key_bytes())
    accept = base64.b64encode(hashlib.sha1(key + constants.WS_KEY).digest())
    return (b'HTTP/1.1 101 Switching Protocols\r\nUpgrade: websocket\r\nConnection: Upgrade\r\n'
            b'Sec-WebSocket-Accept: ' + accept + b'\r\n' + (b'Sec-WebSocket-Extensions: permessage-deflate\r\n' if deflate else b'') + b'\r\n')


def build_stream(msgs):
    """msgs: [[kind, n, nfrag], ...] -> (stream bytes, [(end_offset_exclusive, kind, payload)]) ; item 0 is the handshake"""
    from refcodec import server_frame
    z = any(m[0].startswith('z') for m in msgs)
    parts = [_handshake_reply(z)]
    marks = [(len(parts[0]), 'ready', b'')]
    pos = len(parts[0])
    peer = None
    if z:
        from refcodec import DeflatePeer
        peer = DeflatePeer()
    for i, (kind, n, nfrag) in enumerate(msgs):
        p = _payload(kind[1:] if kind.startswith('z') else kind, i, n)
        if kind == 'ping':
            fr = server_frame(9, p)
        elif kind.startswith('z'):
            # compressed message: the wire payload split into |nfrag| fragments; nfrag < 0: plus an EMPTY final fragment
            wire = peer.compress(p)
            k = max(1, min(abs(nfrag), max(1, len(wire))))
            step = -(-len(wire) // k) if wire else 0
            pieces = [wire[j:j + step] for j in range(0, len(wire), step)] if wire else [b'']
            if nfrag < 0:
                pieces.append(b'')
            op = 1 if kind == 'ztext' else 2
            fr = b''.join(server_frame(op if j == 0 else 0, piece, fin=1 if j == len(pieces) - 1 else 0, rsv1=1 if j == 0 else 0)
                          for j, piece in enumerate(pieces))
            kind = kind[1:]
        else:
            op = 1 if kind == 'text' else 2
            nfrag = max(1, min(nfrag, max(1, n)))
            step = -(-n // nfrag) if n else 0
            pieces = [p[j:j + step] for j in range(0, n, step)] if n else [b'']
            fr = b''.join(server_frame(op if j == 0 else 0, piece, fin=1 if j == len(pieces) - 1 else 0)
                          for j, piece in enumerate(pieces))
        parts.append(fr)
        pos += len(fr)
        marks.append((pos, kind, p))
    return b''.join(parts), marks


def digest(b):
    return '%d:%s' % (len(b), hashlib.sha1(bytes(b)).hexdigest()[:10])


# ---------------------------------------------------------------------------------------------
# simulated transport (the OS / TLS side: NOT lomond's code, and written independently of the Lean model)

class Runaway(BaseException):
    """the loop would block forever / spins: not an Exception, lomond must not catch it"""


class Net:
    def __init__(self, tls, arrivals, eof):
        self.tls = tls
        self.t = 0.0
        self.future = arrivals          # [(t, bytes)]
        self.i = 0
        self.eof = eof
        self.hup = False
        self.kernel = bytearray()
        self.records = collections.deque()
        self.pending = b''
        self.toks = []
        self.flags = []
        self.fed = 0
        self.stopped = 0
        self.calls = 0
        self.writes = []

    def deliver_due(self):
        while self.i < len(self.future) and self.future[self.i][0] <= self.t:
            p = self.future[self.i][1]
            self.i += 1
            if p:
                if self.tls:
                    self.records.append(p)
                else:
                    self.kernel.extend(p)
        if self.i == len(self.future) and self.eof is not None and self.eof <= self.t:
            self.hup = True

    def kernel_len(self):
        return sum(len(r) for r in self.records) if self.tls else len(self.kernel)

    def fd_readable(self):
        return bool(self.records if self.tls else self.kernel) or self.hup

    def next_time(self):
        if self.i < len(self.future):
            return self.future[self.i][0]
        return None if self.hup else self.eof

    def poll(self, timeout):
        """blocking poll(2) on the fd, level triggered"""
        self.calls += 1
        if self.calls > 200000:
            raise Runaway('spinning')
        self.deliver_due()
        if self.fd_readable():
            return True
        nt = self.next_time()
        if nt is not None and nt <= self.t + timeout:
            self.t = max(self.t, float(nt))
            self.deliver_due()
            return self.fd_readable()
        if timeout <= 0 and nt is None:
            raise Runaway('poll(0) forever')
        self.t += timeout
        return False

    def block_in_recv(self):
        """a blocking recv with nothing to return: sleeps until the next arrival"""
        self.flags.append('recv-blocked@%d' % self.t)
        nt = self.next_time()
        if nt is None:
            raise Runaway('recv blocks forever')
        self.t = max(self.t, float(nt))
        self.deliver_due()


class PlainSock(object):
    def __init__(self, net):
        self.net = net
        self.closed = False

    def fileno(self):
        return 0

    def settimeout(self, t):
        pass

    def setsockopt(self, *a):
        pass

    def shutdown(self, how):
        pass

    def close(self):
        self.closed = True

    def sendall(self, data):
        self.net.writes.append((self.net.t, bytes(data)))

    def recv_into(self, buf, count=0):
        net = self.net
        net.deliver_due()
        asked = count
        if count <= 0:
            count = len(buf)
        if count > len(buf):
            raise ValueError('buffer too small for requested bytes')
        while not net.kernel and not net.hup:
            net.block_in_recv()
        n = min(count, len(net.kernel))
        buf[:n] = net.kernel[:n]
        del net.kernel[:n]
        net.toks.append('R%d:%d:%d' % (net.t, asked, n))
        net.fed += n
        if n == 0:
            net.stopped = 1
        return n


class TlsSock(PlainSock):
    """TLS-like: `pending()`, one record decrypted per read, count clamped to len(buffer) like _ssl.c"""

    def pending(self):
        n = len(self.net.pending)
        self.net.toks.append('P%d' % n)
        return n

    def recv_into(self, buf, count=0):
        net = self.net
        net.deliver_due()
        asked = count
        if count <= 0 or count > len(buf):
            count = len(buf)
        if not net.pending:
            while not net.records and not net.hup:
                net.block_in_recv()
            if net.records:
                net.pending = net.records.popleft()
        n = min(count, len(net.pending))
        buf[:n] = net.pending[:n]
        net.pending = net.pending[n:]
        net.toks.append('R%d:%d:%d' % (net.t, asked, n))
        net.fed += n
        if n == 0:
            net.stopped = 1
        return n


def _selector_class():
    from lomond.selectors import SelectorBase

    class SimSelector(SelectorBase):
        """the real SelectorBase: `wait` (with its pending() short-cut), `__init__`, `close` are inherited"""

        def wait_readable(self, timeout=0.0):
            net = self._socket.net
            net.deliver_due()
            t0, k, p = net.t, net.kernel_len(), len(net.pending)
            r = net.poll(timeout)
            net.toks.append('W%d:%d:%d:%d:%d' % (t0, net.t, 1 if r else 0, k, p))
            return r
    return SimSelector


def arrivals_of(case, stream):
    out, pos = [], 0
    for t, n in case['arr']:
        out.append((t, stream[pos:pos + n]))
        pos += n
    assert pos == len(stream), (pos, len(stream))
    return out


def run_case(case):
    """run ONE case on the real code; returns dict(tokens, events, writes, flags)"""
    import lomond.session as _session
    import lomond.events as _events
    import lomond.frame as _frame
    import lomond.websocket as _websocket
    from lomond.websocket import WebSocket
    from lomond.session import WebsocketSession
    stream, _marks = build_stream(case['msgs'])
    net = Net(bool(case['tls']), arrivals_of(case, stream), case['eof'])
    Sel = _selector_class()

    class Sess(WebsocketSession):
        _selector_cls = Sel

        def _connect(self):
            return (TlsSock if net.tls else PlainSock)(net), None

    class TimeShim:
        @staticmethod
        def time():
            return net.t

    saved = (_session.time, _events.time, _frame.make_masking_key, _websocket.os.urandom)
    events = []
    nmsg = 0
    try:
        _session.time = TimeShim
        _events.time = TimeShim
        _frame.make_masking_key = lambda: b'\x01\x02\x03\x04'
        _websocket.os.urandom = lambda n: _key_bytes()[:n]
        ws = WebSocket(URL, proxies={})
        try:
            for ev in ws.connect(session_class=Sess, poll=float(case['poll']), ping_rate=float(case.get('prate', 0)),
                                 ping_timeout=None, close_timeout=(float(case['ctimeout']) if case.get('ctimeout') else None)):
                n = ev.name
                if n in ('text', 'binary', 'ping', 'pong'):
                    nmsg += 1
                    if case.get('close_at') == nmsg:
                        ws.close(1000, b'bye')      # the application starts the closing handshake; the peer keeps sending
                if n == 'text':
                    events.append([int(net.t), 'text', digest(ev.text.encode('utf-8'))])
                elif n == 'binary':
                    events.append([int(net.t), 'binary', digest(ev.data)])
                elif n in ('ping', 'pong'):
                    events.append([int(net.t), n, digest(ev.data)])
                elif n == 'disconnected':
                    events.append([int(net.t), 'disconnected', ev.reason])
                elif n != 'poll':
                    events.append([int(net.t), n, ''])
        except Runaway as e:
            net.flags.append('runaway:%s' % e)
    finally:
        _session.time, _events.time, _frame.make_masking_key, _websocket.os.urandom = saved
    writes = []
    for k, (t, data) in enumerate(net.writes):
        if k == 0:
            writes.append([int(t), 'request', digest(data)])
            continue
        try:
            from refcodec import decode_client_frames
            for fr in decode_client_frames(data):
                writes.append([int(t), 'op%d' % fr['opcode'], digest(fr['payload'])])
        except Exception as e:  # noqa
            writes.append([int(t), 'undecodable', str(e)])
    toks = net.toks + ['END:stopped=%d:fed=%d:now=%d' % (net.stopped, net.fed, net.t)]
    return dict(tokens=' '.join(toks), events=events, writes=writes, flags=net.flags, streamlen=len(stream))


def model_line(case, sc=1):
    return 'xport tls=%d poll=%d sc=%d eof=%d | %s' % (1 if case['tls'] else 0, case['poll'], sc, case['eof'],
                                                       ' '.join('%d:%d' % (t, n) for t, n in case['arr']))


# ---------------------------------------------------------------------------------------------
# oracle (from the property text; does not use the model)

def arrival_time_of_offset(arr, off):
    """virtual time at which stream byte `off` (0-based) arrives"""
    pos = 0
    for t, n in arr:
        pos += n
        if off < pos:
            return t
    raise AssertionError('offset beyond stream')


def judge(case, out):
    fails = []

    def fail(cls, what, **kw):
        fails.append(dict(cls=cls, what=what, input=case, observed=kw.get('observed'), expected=kw.get('expected')))
    _stream, marks = build_stream(case['msgs'])
    expected = []
    for end, kind, payload in marks:
        t = arrival_time_of_offset(case['arr'], end - 1)
        expected.append([t, kind, '' if kind == 'ready' else digest(payload)])
    got = [e for e in out['events'] if e[1] in ('ready', 'text', 'binary', 'ping', 'pong')]
    if [e[1:] for e in got] != [e[1:] for e in expected]:
        k = next((i for i, (a, b) in enumerate(zip(got, expected)) if a[1:] != b[1:]), min(len(got), len(expected)))
        fail('not-delivered', 'message sequence differs from what the server sent at index %d (%d delivered, %d sent)' % (k, len(got), len(expected)),
             observed=got[max(0, k - 1):k + 2], expected=expected[max(0, k - 1):k + 2])
    else:
        late = [(g, e) for g, e in zip(got, expected) if g[0] != e[0]]
        if late:
            g, e = late[0]
            fail('late-delivery', '%d message(s) not delivered in the loop cycle in which their last byte arrived; first: %s %s available at t=%d, delivered at t=%d'
                 % (len(late), e[1], e[2], e[0], g[0]), observed=g, expected=e)
    # automatic replies
    pings = [e for e in expected if e[1] == 'ping']
    if case.get('close_at'):
        # after the application's close() a Pong can not be written any more (C14: dropped silently); the Ping AT which close() is
        # called has been answered before the event was yielded
        nth = [i for i, e in enumerate(expected) if e[1] != 'ready']
        cut = nth[case['close_at'] - 1] if case['close_at'] - 1 < len(nth) else len(expected)
        pings = [e for i, e in enumerate(expected) if e[1] == 'ping' and i <= cut]
    pongs = [w for w in out['writes'] if w[1] == 'op10']
    if [w[2] for w in pongs] != [e[2] for e in pings]:
        fail('reply-missing', 'automatic Pong replies do not match the Pings sent (%d pongs for %d pings)' % (len(pongs), len(pings)),
             observed=pongs[:3], expected=pings[:3])
    else:
        late = [(w, e) for w, e in zip(pongs, pings) if w[0] != e[0]]
        if late:
            w, e = late[0]
            fail('late-reply', '%d Pong(s) not written in the loop cycle in which the Ping became available; first: available t=%d, written t=%d'
                 % (len(late), e[0], w[0]), observed=w, expected=e)
    # the transport's own observation: a wait that consumed time while something was buffered
    for tok in out['tokens'].split(' '):
        if tok.startswith('W'):
            t0, t1, r, k, p = [int(x) for x in tok[1:].split(':')]
            if t1 > t0 and (k or p):
                fail('blocked-with-buffered-data', 'wait_readable slept from t=%d to t=%d with %d byte(s) in the kernel buffer and %d decrypted byte(s) pending' % (t0, t1, k, p),
                     observed=tok)
                break
        elif tok.startswith('R'):
            t, c, n = [int(x) for x in tok[1:].split(':')]
            if n > BUF:
                fail('chunk-too-large', 'recv_into returned %d > BUFFER_SIZE' % n, observed=tok)
    if out['flags']:
        fail('blocked-in-recv' if out['flags'][0].startswith('recv-blocked') else 'runaway', 'transport flags: %s' % out['flags'][:3], observed=out['flags'][:5])
    end = out['tokens'].split(' ')[-1]
    if not out['flags'] and end != 'END:stopped=1:fed=%d:now=%d' % (out['streamlen'], max(case['eof'], case['arr'][-1][0])):
        fail('not-drained', 'at EOF not every byte had been read, or the loop did not end at the EOF tick: %s' % end, observed=end)
    ev = out['events']
    if case.get('close_at'):
        # an EOF during the closing handshake ends the loop too (how it is reported is C07 / C08's business)
        if not out['flags'] and (not ev or ev[-1][1] != 'disconnected'):
            fail('no-disconnect', 'loop did not end with Disconnected at EOF', observed=ev[-2:])
    elif not out['flags'] and (not ev or ev[-1][1] != 'disconnected' or not str(ev[-1][2]).startswith('socket fail; connection lost')):
        fail('no-disconnect', 'loop did not end with "connection lost" at EOF', observed=ev[-2:])
    return fails


# ---------------------------------------------------------------------------------------------
# generators

def split_records(sizes, maxrec):
    out = []
    for n in sizes:
        while n > maxrec:
            out.append(maxrec)
            n -= maxrec
        if n:
            out.append(n)
    return out


def segment(rng, total, mode, frame_ends):
    if mode == 'whole':
        return [total]
    if mode == 'rand':
        k = rng.choice([1, 2, 3, 5, 9, 20])
        cuts = sorted(set(rng.randrange(1, total) for _ in range(k))) if total > 1 else []
        return [b - a for a, b in zip([0] + cuts, cuts + [total])]
    if mode == 'edges':
        out, left = [], total
        while left:
            n = min(left, rng.choice([1, 2, 1460, 4096, TLS_REC - 1, TLS_REC, TLS_REC + 1, 2 * TLS_REC, BUF - 1, BUF, BUF + 1, 2 * BUF, 2 * BUF + 1]))
            out.append(n)
            left -= n
        return out
    if mode == 'frames':      # whole frames, many per segment
        ends = sorted(set(frame_ends))
        per = rng.choice([1, 2, 7, 50, 400])
        cuts = ends[per - 1::per]
        cuts = [c for c in cuts if 0 < c < total]
        return [b - a for a, b in zip([0] + cuts, cuts + [total])]
    raise ValueError(mode)


def assign_times(rng, sizes, poll, burst):
    gaps = [0] * burst + [1, max(1, poll - 1), poll, poll + 1, 2 * poll + 1, 3 * poll]
    t, out = rng.choice([0, 0, 1, poll + 1]), []
    for k, n in enumerate(sizes):
        if k:
            t += rng.choice(gaps)
        out.append([t, n])
    return out


def gen_msgs(rng, family):
    msgs = []
    if family == 'small-frames':
        for _ in range(rng.choice([20, 60, 200, 400])):
            r = rng.random()
            if r < 0.15:
                msgs.append(['ping', rng.randint(0, 125), 1])
            elif r < 0.6:
                msgs.append(['text', rng.randint(0, 200), rng.choice([1, 1, 1, 2])])
            else:
                msgs.append(['binary', rng.randint(0, 200), rng.choice([1, 1, 1, 3])])
    elif family == 'record-edge':
        for _ in range(rng.randint(2, 6)):
            msgs.append([rng.choice(['text', 'binary']), TLS_REC + rng.randint(-40, 40), rng.choice([1, 1, 2])])
            if rng.random() < 0.5:
                msgs.append(['ping', rng.randint(0, 125), 1])
    elif family == 'buffer-edge':
        for _ in range(rng.randint(1, 3)):
            msgs.append(['binary', rng.choice([BUF - 200, BUF - 10, BUF - 4, BUF, BUF + 1, 2 * BUF - 7, 2 * BUF + 3]), rng.choice([1, 1, 4])])
            msgs.append([rng.choice(['text', 'ping']), rng.randint(0, 100), 1])
    elif family == 'compressed':
        for _ in range(rng.choice([5, 20, 60])):
            r = rng.random()
            if r < 0.15:
                msgs.append(['ping', rng.randint(0, 125), 1])
            elif r < 0.75:
                msgs.append([rng.choice(['ztext', 'zbinary']), rng.randint(0, 300), rng.choice([1, 2, 3, -1, -2])])
            else:
                msgs.append([rng.choice(['text', 'binary']), rng.randint(0, 100), rng.choice([1, 2])])
    elif family == 'big':
        msgs.append(['binary', rng.choice([200000, 262144, 300000]), rng.choice([1, 1, 5])])
        for _ in range(rng.randint(0, 5)):
            msgs.append([rng.choice(['text', 'ping', 'binary']), rng.randint(0, 120), 1])
    else:
        raise ValueError(family)
    return msgs


def frame_ends_of(msgs):
    _s, marks = build_stream(msgs)
    return [m[0] for m in marks]


def make_case(rng, family, transport, poll=None):
    """transport in plain | tls | jumbo (TLS-like with records larger than the receive buffer)"""
    poll = poll or rng.choice([1, 2, 5, 5, 10])
    msgs = gen_msgs(rng, family)
    stream, marks = build_stream(msgs)
    mode = rng.choice(['whole', 'rand', 'edges', 'frames'] if family != 'big' else ['whole', 'edges', 'rand'])
    sizes = segment(rng, len(stream), mode, [m[0] for m in marks])
    if transport == 'tls':
        sizes = split_records(sizes, TLS_REC)
    arr = assign_times(rng, sizes, poll, burst=rng.choice([1, 4, 12, 40]))
    eof = arr[-1][0] + rng.choice([0, 1, poll + 2])
    return dict(tag='%s/%s/%s' % (family, transport, mode), tls=transport != 'plain', poll=poll, prate=rng.choice([0, 0, 7]),
                eof=eof, msgs=msgs, arr=arr)


def grid_case(burst, transport, gap, poll=5):
    """handshake in its own segment at t=0; then ONE burst of exactly `burst` stream bytes (one binary message followed
       by a Ping) arriving `gap` ticks later; then silence until EOF three poll intervals later"""
    msgs = None
    for plen in range(5, 40):                  # Ping payload length; Ping frame = 2 + plen bytes
        for hdr, lo, hi in ((2, 0, 126), (4, 126, 65536), (10, 65536, 1 << 40)):
            n = burst - (2 + plen) - hdr
            if lo <= n < hi:
                msgs = [['binary', n, 1], ['ping', plen, 1]]
                break
        if msgs:
            break
    stream, marks = build_stream(msgs)
    hs = marks[0][0]
    assert len(stream) - hs == burst, (len(stream) - hs, burst)
    sizes = [burst]
    if transport == 'tls':
        sizes = split_records(sizes, TLS_REC)
    arr = [[0, hs]] + [[gap, s] for s in sizes]
    return dict(tag='grid/%s/%d/%d' % (transport, burst, gap), tls=transport != 'plain', poll=poll, prate=0,
                eof=gap + 3 * poll, msgs=msgs, arr=arr)


def length_field_cases():
    """two messages with a 64-bit length field (payload >= 65536) in ONE history; the read boundary falls inside the 8-byte length
    field of the first one, after every k = 1..7 of its bytes (and inside both): the second message - all of whose bytes are
    available - must be delivered in the cycle in which its last byte arrives"""
    out = []
    msgs = [['binary', 70000, 1], ['binary', 66000, 1], ['ping', 5, 1]]
    stream, marks = build_stream(msgs)
    hs = marks[0][0]
    f1 = marks[1][0]          # end of the first message's frame
    for k in range(1, 8):
        for second_split in (0, 3):
            sizes = [2 + k, f1 - hs - 2 - k]
            rest = len(stream) - f1
            sizes += ([2 + second_split, rest - 2 - second_split] if second_split else [rest])
            arr = [[0, hs]] + [[1 + i, n] for i, n in enumerate(sizes)]      # one tick apart: every boundary is a read boundary
            out.append(dict(tag='length-field/plain/%d/%d' % (k, second_split), tls=False, poll=5, prate=0, eof=len(sizes) + 15, msgs=msgs, arr=arr))
    return out


def closing_cases(rng, n):
    """the application has called close() (closing handshake under way, close timeout armed) while the peer keeps sending: many small
    frames per TLS record / per burst - everything available must still be drained without waiting"""
    out = []
    # directed: after close() ONE TLS-like record larger than the receive buffer arrives, then silence: the read leaves decrypted
    # bytes inside the TLS layer, which must be drained without waiting
    for extra in (1, 300, BUF - 1, BUF + 7):
        msgs = [['text', 10, 1], ['binary', BUF + extra, 1], ['ping', 5, 1], ['text', 20, 1]]
        stream, marks = build_stream(msgs)
        hs, f1 = marks[0][0], marks[1][0]
        out.append(dict(tag='closing/jumbo-record/%d' % extra, tls=True, poll=5, prate=0, eof=3 + 4 * 5, msgs=msgs,
                        arr=[[0, hs], [1, f1 - hs], [3, len(stream) - f1]], close_at=1, ctimeout=100000))
    for k in range(n):
        transport = ['tls', 'tls', 'jumbo', 'plain'][k % 4]
        c = make_case(rng, rng.choice(['small-frames', 'small-frames', 'record-edge']), transport)
        c['tag'] = 'closing/' + c['tag']
        c['close_at'] = rng.choice([1, 2, 3, 5])
        c['ctimeout'] = 100000       # armed, but never due within the case (what happens when it is due: C15)
        c['prate'] = 0
        out.append(c)
    return out


def corpus():
    """witnesses that run first: the Lean witness of `C18_no_blocking_wait_fails_without_shortcut` (a TLS-like record one
       byte longer than the buffer, then silence) and a burst of many records"""
    return [grid_case(BUF + 1, 'jumbo', 1), grid_case(BUF + 1, 'jumbo', 0), grid_case(3 * BUF + 5, 'jumbo', 7),
            grid_case(5 * TLS_REC, 'tls', 2), grid_case(2 * BUF, 'plain', 6)]


# ---------------------------------------------------------------------------------------------
# (D) available data is drained while another thread is blocked inside a send (deterministic thread scheduler)

DRAIN_LOOP_ENTRIES = 40         # schedule entries given to the loop thread per scripted receive (a receive takes ~10 sync steps)
REPLY_CALLS = ('rp', 'rc', 'tk')


def _dmsg(tag, n):
    base = ('%s drained while a sender is blocked, lomond drain payload ' % tag).encode()
    return (base * (n // len(base) + 1))[:n]


def _loop_tid(progs):
    import sched
    return next(t for t, p in enumerate(progs) if sched.is_loop_prog(p))


def run_drain_case(case):
    """worker entry: one (programs, schedule) case on the real code under harness/sched.py.  The position in the step log at which
    each Text event reaches the application is recorded from outside (the `received` list of the run object notes the number of
    sync steps executed so far on every append): out['received_at']"""
    import sched
    holder = {}

    class _Rec(list):
        def __init__(self, run):
            list.__init__(self)
            self.run, self.at = run, []

        def append(self, x):
            self.at.append(len(self.run.sched.steps))
            list.append(self, x)

    base_run = sched.Run

    class _Run(base_run):
        def __init__(self):
            base_run.__init__(self)
            self.received = _Rec(self)
            holder['run'] = self
    sched.Run = _Run
    try:
        out = sched.run_real({k: v for k, v in case.items() if k in ('z', 'progs', 'schedule', 'mode', 'n', 'fail')})
    except sched.SchedError as e:
        return {'__crash__': 'SchedError: %s' % e, 'tb': '', 'input': case}
    finally:
        sched.Run = base_run
    out['received_at'] = list(holder['run'].received.at)
    return out


def judge_drain(case, r):
    """from the property text: at step `prefix` of the run a sender holds the write lock inside sendall() and does not get the CPU any
    more (it is blocked on back-pressure); the data of the loop thread's scripted receives is available.  Every message that needs no
    reply must be yielded by the loop thread before the sender (or anyone else) makes progress, and the loop thread must never be
    found waiting for the lock before that."""
    fails = []
    progs = case['progs']
    L = _loop_tid(progs)
    p = case['prefix']
    need = 0
    for tok in progs[L]:
        if tok.split('=')[0] in REPLY_CALLS:
            break
        need += 1
    steps = [tuple(s) for s in r['steps']]
    at = r['received_at']
    sent, got = r.get('server_sent', []), r.get('received', [])

    def fail(cls, what, **kw):
        fails.append(dict(cls=cls, what=what, input=case, observed=kw.get('observed'), expected=kw.get('expected')))
    if any(t == L for t, _ in steps[:p]) or [t for t, _ in steps[:p]] != case['schedule'][:p]:
        return [dict(cls='harness', what='the prefix of the schedule was not executed as planned', input=case, observed=steps[:p + 2])]
    holder = [t for t, k in steps[:p] if k == 'acq'][-1:]
    shown = ' '.join('%d:%s' % s for s in steps[max(0, p - 3):p + 12])
    budget = DRAIN_LOOP_ENTRIES * len(progs[L])
    for idx in range(p, len(steps) + 1):
        delivered = sum(1 for a in at if a <= idx)
        if delivered >= need:
            break
        if idx == len(steps):
            fail('not-delivered', 'only %d of the %d available message(s) were delivered by the end of the run' % (delivered, need),
                 observed=shown)
            break
        t, k = steps[idx]
        if idx - p >= budget:
            return [dict(cls='harness', what='schedule too short: the loop thread used all its %d entries' % budget, input=case, observed=shown)]
        if t == L and k == 'blocked':
            fail('drain-waits-for-sender', 'with message %d of %d available and only the loop thread scheduled, the loop thread was found WAITING FOR THE WRITE LOCK '
                 'held by thread %s, which is blocked inside sendall() (paused before a chunk): available data is not drained until the send completes, '
                 'which needs further network traffic' % (delivered + 1, need, holder[0] if holder else '?'),
                 observed=shown, expected='the Text event for every available message before any further step of the sender')
            break
        if t != L:
            fail('drain-waits-for-sender', 'thread %d (step %s) made progress before available message %d of %d was delivered' % (t, k, delivered + 1, need),
                 observed=shown, expected='the Text event for every available message before any further step of the sender')
            break
    if got[:need] != sent[:len(got[:need])]:
        fail('not-delivered', 'the delivered messages are not the ones the server sent', observed=got[:need], expected=sent[:need])
    return fails


def drain_cases(rng, tier):
    """(sender program(s)) x (chunks per sendall) x (EVERY chunk of every sendall as the point at which the sender is blocked) x
    (what is available to the loop thread) x deflate mode 1..4; a second sender waiting for the lock; a sendall that fails in the end"""
    import sched
    quick = tier == 'quick'
    big = bytes((i * 7 + 3) % 251 for i in range(BUF + 4464))

    def snd(kind, data):
        return '%s=%s' % (kind, bytes(data).hex())
    senders = [
        ('binary', [snd('sb0', _dmsg('b', rng.choice([1, 90, 126, 300])))]),
        ('text-deflate', [snd('st1', _dmsg('t', rng.choice([40, 200])))]),
        ('ping', [snd('pi', _dmsg('p', rng.randint(0, 125)))]),
        ('two-sends', [snd('st0', _dmsg('x', 60)), snd('sb1', _dmsg('y', rng.choice([10, 500])))]),
        ('big-frame', [snd('sb0', big)]),
    ]
    if not quick:
        senders += [('pong', [snd('po', _dmsg('q', 5))]), ('text', [snd('st0', _dmsg('u', 65536))]),
                    ('three-sends', [snd('sb1', _dmsg('i', 33)), snd('pi', b''), snd('st1', _dmsg('k', 3000))])]

    def rcv(kind, n):
        return '%s=%s' % (kind, _dmsg('server %s' % kind, n).hex())
    loops = [
        ('one-message', [rcv('rm', rng.choice([0, 5, 130]))]),
        ('fragmented', [rcv('rm2', rng.choice([20, 400]))]),
        ('three-receives', [rcv('rm', 70), rcv('rm2', 200), rcv('rm', 1)]),
        ('message-then-ping', [rcv('rm', 30), 'rp=' + b'ping'.hex()]),
    ]
    if not quick:
        loops += [('big-message', [rcv('rm', 60000)]), ('five-receives', [rcv('rm', rng.randint(0, 300)) for _ in range(5)]),
                  ('message-then-silence', [rcv('rm2', 50), 'tk'])]
    out = []
    cal = {}
    zrot = 0
    for sname, sprog in senders:
        for n in ((1, 2, 3) if quick else (1, 2, 3, 4, 6)):
            if sname == 'big-frame' and quick and n != 2:
                continue
            key = (sname, n)
            c = sched.run_real(dict(z=1, progs=[sprog], schedule=[], mode='sync', n=n))
            cal[key] = c['steps']
            # the sender is blocked inside sendall: its next step is the write of a chunk (before the first: the send buffer was full already)
            pauses = [j for j, (t, k) in enumerate(c['steps']) if k in ('w1', 'w2')]
            for lname, lprog in loops:
                for j in pauses:
                    zrot += 1
                    z = 1 + zrot % 4
                    k = DRAIN_LOOP_ENTRIES * len(lprog)
                    base = dict(z=z, mode='sync', n=n, prefix=j, family='drain-while-sender-blocked')
                    out.append(dict(base, tag='drain-blocked-sender/%s/%s/n%d/at%d' % (sname, lname, n, j), progs=[sprog, lprog],
                                    schedule=[0] * j + [1] * k))
                    if (zrot % 3 == 0 or not quick) and sname != 'big-frame':
                        # a second sender is waiting for the lock as well (two entries: it reaches the lock and waits)
                        other = [snd('st0', _dmsg('w', 20))]
                        pre = [0] * j + [1] * 2
                        out.append(dict(base, tag='drain-blocked-sender+waiting-sender/%s/%s/n%d/at%d' % (sname, lname, n, j),
                                        progs=[sprog, other, lprog], prefix=len(pre), schedule=pre + [2] * k))
                    if (zrot % 5 == 0 or not quick) and n >= 2 and c['steps'][j][1] == 'w1' and len(sprog) == 1:
                        # the blocked sendall fails in the end (the peer never read): draining must not have waited for that either
                        nth = sum(1 for t, kk in c['steps'][:j] if kk == 'w1')
                        out.append(dict(base, tag='drain-blocked-sender+send-fails/%s/%s/n%d/at%d' % (sname, lname, n, j), progs=[sprog, lprog],
                                        schedule=[0] * j + [1] * k, fail=[[0, 0, nth]]))
    return out


def _chunks_out(steps):
    """chunks the lock holder's current sendall has written (w1 steps of thread 0 since its last acq)"""
    n = 0
    for t, k in steps:
        if t == 0 and k == 'acq':
            n = 0
        elif t == 0 and k == 'w1':
            n += 1
    return n


def explore_drain(res, rng, tier, model_ok):
    import thrutil
    cases = drain_cases(rng, tier)
    outs = runner.parallel_map('props.c18', 'run_drain_case', cases, chunk=20)
    v = thrutil.detect_variant()
    good = [(c, r) for c, r in zip(cases, outs) if '__crash__' not in r]
    for c, r in zip(cases, outs):
        if '__crash__' in r:
            res.crashes.append(r)
    lines = [thrutil.model_line(c, r['steps'], v) for c, r in good]
    models = runner.model_run(lines) if (model_ok and lines) else [None] * len(lines)
    models = thrutil.align_models(res, good, models)
    res.notes.append('drain-while-sender-blocked: %d scheduler runs (sender paused before every chunk of every sendall, only the loop thread scheduled); '
                     '%s' % (len(good), 'compared with the thread model (driver op `threads`, variant v=%s)' % v if model_ok else 'ORACLE ONLY (no model driver)'))
    nfail = 0
    for (c, r), line, m in zip(good, lines, models):
        res.case(('drain', c['z'], thrutil.progs_str(c), tuple(c['schedule'][:c['prefix']]), thrutil.env_keys(c)), nontrivial=True)
        res.count(c['tag'].split('/')[0] + ('' if model_ok else ' (oracle only)'))
        res.count('drain-blocked-sender: chunks per sendall %s' % c['n'])
        res.count('drain-blocked-sender: blocked before chunk %d' % (1 + _chunks_out(r['steps'][:c['prefix']])))
        res.traces_validated += 1
        hard = thrutil.hard_problems(list(r['problems']))
        thrutil.note_soft_problems(res, list(r['problems']))
        real_line = thrutil.canon_real(c, r)
        if hard:
            res.diffs.append(dict(input=c, real=real_line[-1500:], model='(harness) ' + '; '.join(hard)[:800]))
        if m is not None and not thrutil.same_observables(thrutil.strip_peer(m)[0], real_line):
            res.diffs.append(dict(input=c, line=line, real=real_line[-2500:], model=thrutil.strip_peer(m)[0][-2500:]))
        for f in judge_drain(c, r):
            if f['cls'] == 'harness':
                res.crashes.append({'__crash__': f['what'], 'tb': '', 'input': c})
                continue
            nfail += 1
            res.count('oracle_' + f['cls'])
            if nfail <= 25:
                res.failures.append(f)
    res.exhaustive['sender_blocked_before_every_chunk_of_every_sendall (x what is available x chunks per sendall)'] = len(good)
    if cases:
        res.samples.append(dict(tag=cases[0]['tag'], z=cases[0]['z'], programs=thrutil.progs_str(cases[0])[:200], schedule=''.join(map(str, cases[0]['schedule']))[:80]))


# ---------------------------------------------------------------------------------------------
# real loopback runs (wall clock)

def _cert():
    d = os.path.join(runner.VERIF, '.scratch', 'c18_cert')
    crt, key = os.path.join(d, 'cert.pem'), os.path.join(d, 'key.pem')
    if os.path.exists(crt) and os.path.exists(key):
        return crt, key
    exe = shutil.which('openssl') or '/root/miniconda/bin/openssl'
    if not os.path.exists(exe):
        return None
    os.makedirs(d, exist_ok=True)
    r = subprocess.run([exe, 'req', '-x509', '-newkey', 'rsa:2048', '-nodes', '-keyout', key, '-out', crt, '-days', '3650',
                        '-subj', '/CN=localhost'], capture_output=True, text=True, timeout=120)
    if r.returncode != 0 or not os.path.exists(crt):
        return None
    return crt, key


def _recv_exact(conn, n):
    out = b''
    while len(out) < n:
        d = conn.recv(n - len(out))
        if not d:
            raise EOFError('peer closed')
        out += d
    return out


def _read_client_frame(conn):
    import struct
    b0, b1 = _recv_exact(conn, 2)
    ln = b1 & 0x7f
    if ln == 126:
        ln = struct.unpack('!H', _recv_exact(conn, 2))[0]
    elif ln == 127:
        ln = struct.unpack('!Q', _recv_exact(conn, 8))[0]
    key = _recv_exact(conn, 4) if b1 & 0x80 else b'\0\0\0\0'
    body = _recv_exact(conn, ln)
    return b0 & 15, bytes(b ^ key[i % 4] for i, b in enumerate(body))


def loopback_rounds(rng, n):
    rounds = []
    kinds = ['small', 'big', 'records', 'pingonly']
    for k in range(n):
        kind = kinds[k % len(kinds)]
        if kind == 'small':      # hundreds of small frames in one write (one TLS record)
            msgs = [['text', rng.randint(0, 40), 1] for _ in range(rng.choice([100, 250]))]
        elif kind == 'big':      # one burst larger than the receive buffer (many TLS records)
            msgs = [['binary', rng.choice([65536, 131073, 300000]), 1], ['text', 5, 1]]
        elif kind == 'records':  # frames straddling 16 KiB record boundaries
            msgs = [['binary', TLS_REC + rng.randint(-30, 30), 1] for _ in range(5)]
        else:
            msgs = [['text', 3, 1]]
        rounds.append(msgs)
    return rounds


def loopback(tls, rounds):
    """real sockets, real PollSelector, real ssl.  Server: handshake, then per round one sendall of all frames of the
       round followed by a Ping; it notes the time after sendall, waits for the Pong and for the client's 'ack'.
       Returns dict(latencies=[...], pong=[...], problems=[...])"""
    from refcodec import server_frame
    from lomond import constants
    from lomond.websocket import WebSocket
    res = dict(latencies=[], pong=[], problems=[], messages=0, bytes=0)
    ctx = None
    if tls:
        c = _cert()
        if c is None:
            res['problems'].append('skip:no self-signed certificate (openssl CLI missing)')
            return res
        ctx = ssl.SSLContext(ssl.PROTOCOL_TLS_SERVER)
        ctx.load_cert_chain(c[0], c[1])
    lsock = socket.socket(socket.AF_INET, socket.SOCK_STREAM)
    lsock.setsockopt(socket.SOL_SOCKET, socket.SO_REUSEADDR, 1)
    lsock.bind(('127.0.0.1', 0))
    lsock.listen(1)
    port = lsock.getsockname()[1]
    sent_at = {}
    srv = dict(error=None)
    go = threading.Event()

    def server():
        conn = None
        try:
            lsock.settimeout(20)
            conn, _ = lsock.accept()
            conn.settimeout(LOOP_POLL + 15)
            if ctx is not None:
                conn = ctx.wrap_socket(conn, server_side=True)
            conn.setsockopt(socket.IPPROTO_TCP, socket.TCP_NODELAY, 1)
            req = b''
            while b'\r\n\r\n' not in req:
                d = conn.recv(4096)
                if not d:
                    raise EOFError('no request')
                req += d
            key = [l.split(b':', 1)[1].strip() for l in req.split(b'\r\n') if l.lower().startswith(b'sec-websocket-key')][0]
            accept = base64.b64encode(hashlib.sha1(key + constants.WS_KEY).digest())
            conn.sendall(b'HTTP/1.1 101 Switching Protocols\r\nUpgrade: websocket\r\nConnection: Upgrade\r\n'
                         b'Sec-WebSocket-Accept: ' + accept + b'\r\n\r\n')
            for k, msgs in enumerate(rounds):
                _time.sleep(0.15)          # the client is now idle inside poll(LOOP_POLL s)
                data = b''
                for i, (kind, n, _f) in enumerate(msgs):
                    data += server_frame(1 if kind == 'text' else 2, _payload(kind, i, n))
                data += server_frame(9, b'r%d' % k)
                conn.sendall(data)
                sent_at[k] = _time.monotonic()
                got_pong = got_ack = False
                while not (got_pong and got_ack):
                    op, body = _read_client_frame(conn)
                    if op == 10 and body == b'r%d' % k:
                        res['pong'].append(_time.monotonic() - sent_at[k])
                        got_pong = True
                    elif op == 1 and body == b'ack%d' % k:
                        got_ack = True
            conn.sendall(server_frame(8, b'\x03\xe8'))
            try:
                while True:
                    op, body = _read_client_frame(conn)
                    if op == 8:
                        break
            except Exception:  # noqa
                pass
        except Exception as e:  # noqa
            srv['error'] = '%s: %s' % (type(e).__name__, e)
        finally:
            try:
                if conn is not None:
                    conn.close()
            except Exception:  # noqa
                pass
            lsock.close()

    th = threading.Thread(target=server, daemon=True)
    th.start()
    ws = WebSocket('%s://127.0.0.1:%d/' % ('wss' if tls else 'ws', port), proxies={})
    k, idx, t_start = 0, 0, _time.monotonic()
    want = [[(kind, digest(_payload(kind, i, n))) for i, (kind, n, _f) in enumerate(msgs)] for msgs in rounds]
    try:
        for ev in ws.connect(poll=LOOP_POLL, ping_rate=0, close_timeout=5):
            now = _time.monotonic()
            if now - t_start > 60 + LOOP_POLL * (len(rounds) + 1):
                res['problems'].append('overall timeout')
                break
            if ev.name in ('text', 'binary') and k < len(rounds):
                got = (ev.name, digest(ev.text.encode('utf-8') if ev.name == 'text' else ev.data))
                if got != want[k][idx]:
                    res['problems'].append('round %d message %d differs from what was sent' % (k, idx))
                    break
                idx += 1
                res['messages'] += 1
                if idx == len(want[k]):
                    # all messages of the burst delivered: how long after the server's sendall returned?
                    for _ in range(200):
                        if k in sent_at:
                            break
                        _time.sleep(0.005)
                    res['latencies'].append(now - sent_at.get(k, now))
                    if res['latencies'][-1] > LOOP_BOUND:
                        break             # stalled: one poll interval is enough evidence
                    ws.send_text('ack%d' % k)
                    k, idx = k + 1, 0
            elif ev.name == 'disconnected':
                if k < len(rounds):
                    res['problems'].append('disconnected in round %d: %s' % (k, ev.reason))
            elif ev.name == 'connect_fail':
                res['problems'].append('connect_fail: %s' % ev.reason)
    except Exception as e:  # noqa
        res['problems'].append('client exception %s: %s' % (type(e).__name__, e))
    th.join(10)
    if srv['error'] and not res['problems']:
        res['problems'].append('server: ' + srv['error'])
    res['bytes'] = sum(n for msgs in rounds for _k, n, _f in msgs)
    return res


# ---------------------------------------------------------------------------------------------

def _set_buf():
    global BUF
    from lomond.session import WebsocketSession
    BUF = WebsocketSession.BUFFER_SIZE


def explore(res, tier, seed, model_ok=True):
    _set_buf()
    rng = random.Random(seed)
    res.rule = ('arrival patterns = (message list) x (segmentation) x (time stamps) x transport in {plain, TLS 16 KiB records, TLS-like jumbo records > BUFFER_SIZE}: '
                'families small-frames (20-400 frames of 0-200 bytes, many per record), record-edge (messages of 16384+-40), buffer-edge (65536+-, 131072+-), big (200-300 KB), compressed (permessage-deflate negotiated: compressed fragmented messages incl. empty final fragments, pings in between); '
                'segmentation whole / random cuts / boundary-size bursts / whole frames; gaps 0 (same-tick bursts) .. 3*poll (timeouts in between); '
                'exhaustive grid: burst size {16383,16384,16385,32768,65535,65536,65537,131071,131072,131073} x transport x gap; '
                'family drain-while-sender-blocked (deterministic thread scheduler): another application thread (Binary / Text / compressed Text / Ping / two sends / a frame > BUFFER_SIZE; '
                'sendall in 1-3 (thorough: 1-6) chunks) is paused before EVERY chunk of every sendall, holding the write lock = blocked on back-pressure; then 1-3 (thorough: -5) compressed messages '
                '(single frame / fragmented; optionally followed by a Ping or by silence) become available and only the loop thread is scheduled; variants with a second sender waiting for the lock and with the blocked sendall failing in the end; '
                'plus real loopback TCP and TLS echo rounds; non-trivial = some arrival carries more than one frame, or exceeds a record / the buffer, or a timeout separates arrivals; '
                'distinct by (transport, poll, messages, arrivals)')
    # every platform selector on a real transport (TCP loopback / AF_UNIX pairs; connections ended by FIN / RST at several points):
    # whatever was written completely before an orderly end is delivered, the run ends with Disconnected (harness/realsock.py, oracle only)
    import realsock
    realsock.explore(res, tier)
    import gencheck   # differential test of the translated code (Generated/Code.lean: selectorWait) against the original Python
    gencheck.run(res, 'C18', tier, seed, model_ok)
    cases = corpus() + length_field_cases() + closing_cases(rng, 12 if tier == 'quick' else 150)
    bursts = [TLS_REC - 1, TLS_REC, TLS_REC + 1, 2 * TLS_REC, BUF - 1, BUF, BUF + 1, 2 * BUF - 1, 2 * BUF, 2 * BUF + 1]
    gaps = [0, 6] if tier == 'quick' else [0, 1, 5, 6]
    ngrid = 0
    for b in bursts:
        for tr in ('plain', 'tls', 'jumbo'):
            for g in gaps:
                cases.append(grid_case(b, tr, g))
                ngrid += 1
    n = 120 if tier == 'quick' else 2500
    fams = ['small-frames'] * 4 + ['record-edge'] * 2 + ['buffer-edge'] * 2 + ['big'] + ['compressed'] * 2
    for _ in range(n):
        cases.append(make_case(rng, rng.choice(fams), rng.choice(['plain', 'tls', 'tls', 'jumbo'])))
    outs = runner.parallel_map('props.c18', 'run_case', cases, chunk=8)
    # variant detection (DESIGN 3.1 step 3): the Lean witness of `..._fails_without_shortcut` is corpus case 0; if the
    # real `SelectorBase.wait` never consults pending() on it, the model is started in its `shortcut = false` variant, so
    # that the correspondence keeps checking the rest of the model while the oracle reports the violation
    sc = 1
    if outs and '__crash__' not in outs[0] and not any(t.startswith('P') for t in outs[0]['tokens'].split(' ')):
        sc = 0
        res.notes.append('variant detected: SelectorBase.wait does not consult pending(); model run with shortcut=false')
    # cases in which the application calls close() are judged by the oracle alone (the transport model has no application calls)
    mlines = [model_line(c, sc) for c in cases if not c.get('close_at')]
    mit = iter(runner.model_run(mlines) if model_ok else [None] * len(mlines))
    models = [None if c.get('close_at') else next(mit) for c in cases]
    for case, out, mod in zip(cases, outs, models):
        if '__crash__' in out:
            res.crashes.append(out)
            continue
        arr = case['arr']
        multi = any(n > TLS_REC for _t, n in arr) or len(case['msgs']) > len(arr) or any(b[0] - a[0] > case['poll'] for a, b in zip(arr, arr[1:]))
        res.case((case['tls'], case['poll'], case['msgs'], arr), nontrivial=multi)
        res.count(case['tag'].split('/')[0] + '/' + ('plain' if not case['tls'] else ('jumbo' if any(n > TLS_REC for _t, n in arr[1:]) else 'tls')))
        if any(t.startswith('P') and t != 'P0' for t in out['tokens'].split(' ')):
            res.count('pending-shortcut-taken')
        if any(t.startswith('W') and t.split(':')[0][1:] != t.split(':')[1] for t in out['tokens'].split(' ')):
            res.count('wait-consumed-time')
        res.traces_validated += 1
        if mod is not None and mod != out['tokens']:
            a, b = out['tokens'].split(' '), mod.split(' ')
            k = next((i for i, (x, y) in enumerate(zip(a, b)) if x != y), min(len(a), len(b)))
            res.diffs.append(dict(input=case, real=' '.join(a[max(0, k - 3):k + 4]), model=' '.join(b[max(0, k - 3):k + 4]), at=k))
        res.failures.extend(judge(case, out))
    res.exhaustive['burst_size_x_transport_x_gap_grid'] = ngrid
    if cases:
        res.samples += [dict(tag=c['tag'], poll=c['poll'], eof=c['eof'], messages=len(c['msgs']), arrivals=c['arr'][:6]) for c in cases[:2] + cases[-2:]]
        res.samples.append(model_line(cases[0])[:300])
    # ---- (D) draining while another thread is blocked inside a send ----------------------------------
    explore_drain(res, rng, tier, model_ok)
    # ---- real loopback runs ------------------------------------------------------------------------
    nround = 4 if tier == 'quick' else 12
    for tls in (False, True):
        name = 'loopback-tls' if tls else 'loopback-tcp'
        try:
            lb = loopback(tls, loopback_rounds(rng, nround))
        except Exception as e:  # noqa
            res.notes.append('%s: could not run (%s: %s)' % (name, type(e).__name__, e))
            continue
        if lb['problems'] and lb['problems'][0].startswith('skip:'):
            res.notes.append('%s skipped: %s' % (name, lb['problems'][0][5:]))
            continue
        res.case((name, nround, seed), nontrivial=True)
        res.count(name + '-rounds', len(lb['latencies']))
        res.traces_validated += 1
        worst = max(lb['latencies'] + lb['pong'] + [0.0])
        res.notes.append('%s: %d rounds, %d messages, %d payload bytes, worst delivery latency %.3fs, worst pong latency %.3fs (poll interval %ds)'
                         % (name, len(lb['latencies']), lb['messages'], lb['bytes'], max(lb['latencies'] + [0.0]), max(lb['pong'] + [0.0]), LOOP_POLL))
        inp = dict(kind=name, rounds=nround, seed=seed)
        if lb['problems']:
            slow = any('timeout' in p or 'timed out' in p for p in lb['problems'])
            res.failures.append(dict(cls='loopback-' + ('stall' if slow else 'broken'), what='%s run failed: %s' % (name, lb['problems'][:2]), input=inp,
                                     observed=lb['problems'][:3]))
        elif len(lb['latencies']) != nround or len(lb['pong']) != nround:
            res.failures.append(dict(cls='loopback-broken', what='%s: only %d of %d rounds completed' % (name, len(lb['latencies']), nround), input=inp))
        elif worst > LOOP_BOUND:
            res.failures.append(dict(cls='loopback-stall', what='%s: a burst / Ping took %.2fs to be delivered / answered (bound %.1fs, poll %ds)' % (name, worst, LOOP_BOUND, LOOP_POLL),
                                     input=inp, observed=dict(latencies=lb['latencies'], pong=lb['pong'])))


def replay(rp):
    _set_buf()
    case = rp.get('input')
    if isinstance(case, dict) and 'progs' in case:
        import thrutil
        r = run_drain_case(case)
        print('case', case.get('tag'))
        print('programs : %s   (deflate mode z=%d, sendall in %s chunk(s)%s)' % (thrutil.progs_str(case), case['z'], case.get('n', 2),
                                                                               ', made to fail: %s' % case['fail'] if case.get('fail') else ''))
        print('schedule : %s   (the first %d entries bring the sender(s) into position; then only the loop thread is scheduled)' % (
            ''.join(str(t) for t in case['schedule']), case['prefix']))
        if '__crash__' in r:
            print('scheduler:', r['__crash__'])
            return 0
        print('sync steps executed: ' + ' '.join('%d:%s' % tuple(s) for s in r['steps']))
        print('Text events reached the application after step(s): %s   results: %r' % (r['received_at'], r['results']))
        for f in judge_drain(case, r):
            print('ORACLE:', f['cls'], '-', f['what'])
        return 0
    if isinstance(case, dict) and 'arr' in case:
        out = run_case(case)
        print('case', case.get('tag'), 'tls=%s poll=%s eof=%s arrivals=%s' % (case['tls'], case['poll'], case['eof'], case['arr'][:12]))
        print('transport log:', out['tokens'][:3000])
        print('events:', out['events'][:40])
        print('pongs:', [w for w in out['writes'] if w[1] == 'op10'][:20])
        for f in judge(case, out):
            print('ORACLE:', f['cls'], '-', f['what'])
        return 0
    if isinstance(case, dict) and str(case.get('kind', '')).startswith('loopback'):
        rng = random.Random(case.get('seed', 0))
        print(loopback(case['kind'].endswith('tls'), loopback_rounds(rng, case.get('rounds', 4))))
        return 0
    print('replay file names a broken obligation, no concrete input: %s' % rp.get('broken'))
    if rp.get('first_disagreement'):
        print('first disagreement:', json.dumps(rp['first_disagreement'])[:2000])
    return 0
