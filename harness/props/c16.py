"""C16 - persist() reconnects forever with bounded, growing, resettable back-off.

   (T) Lomond.Properties.C16 over Model/Persist.lean (delays are exact rationals).
   (G) Gen.persistConnectKw: the keyword arguments persist forwards to connect (theorem C16_args).
   (K) the real `lomond.persist.persist` vs the model driver (`persist ...` op lines) on
         a. a scripted websocket (its connect() yields scripted event objects), thousands of cases, and
            exhaustively all Ready/no-Ready patterns up to a length x exit position x parameter grid;
         b. the REAL `lomond.WebSocket` on the simulated world of harness/world.py: chains of connection
            outcomes (connect failure, request failure, rejection, drop before/after Ready, graceful close
            either way, protocol error, ping timeout, random histories with application reactions).
       `lomond.persist.random` is replaced by scripted dyadic draws, `exit_event` by a scripted fake, so all
       float arithmetic is exact and compared as fractions.
   (S) oracle, written from the property text (never consults the model): per round `connect(poll, ping_rate,
       ping_timeout)` as given, the attempt's events unchanged and in order (by object identity on the
       scripted websocket; against a run of the same chain WITHOUT persist on the real WebSocket), exactly
       one BackOff, min <= delay <= max, delay == min + u*min(max-min, 2^k) with k counted by the oracle,
       wait(delay) with the same delay, end iff wait returned true.  A further oracle-only stream uses
       arbitrary float draws (bounds exact, formula to 1e-12)."""
from __future__ import annotations
import random
from fractions import Fraction
import runner, coreutil, gen_core
import world as W
from coreutil import Scenario, reads
from refcodec import server_frame, close_payload

TRUSTED = ['harness/translate.py (persist -> connect keyword extraction)',
           'composed model: the `persistcore` driver op (Model/PersistLink.lean) is compared with the real persist() over real connections on the world stream',
           'correspondence: harness/props/c16.py (scripted websocket / random / exit_event) + harness/world.py (simulated socket, selector, clock)',
           'oracle arithmetic: Python fractions.Fraction']
ASSUMPTIONS = ['min_wait <= max_wait for the bounds claim (for min_wait > max_wait only the formula is checked)',
               'random() returns a value in [0,1)',
               'delays are exact rationals in the model; the real code is driven with integer / dyadic parameters and dyadic draws for which its float arithmetic is exact; float rounding for other values is outside the model (an oracle-only stream with arbitrary float draws checks bounds exactly and the formula to 1e-12)',
               'a connection attempt that never ends is outside the property ("whenever a connection attempt ends")',
               'exit_event.wait is scripted: the real threading.Event and real sleeping are not exercised']
LEANCHECK_MODULES = ['Lomond.Proofs.Persist']

MAX_TOKENS = 100000


# ---------------------------------------------------------------------------------------------
# canonical values

def frac(x):
    f = Fraction(x)
    return '%d/%d' % (f.numerator, f.denominator)


def ptok(v):
    """canonical token of a pass-through parameter value"""
    if v is None:
        return 'N'
    if isinstance(v, bool):
        return 'b%d' % v
    if isinstance(v, (int, float)):
        return frac(v)
    return 'O(%s)' % type(v).__name__


def pval(spec):
    """parameter value from its JSON spec: None | ['i', n] | ['f', num, den]"""
    if spec is None:
        return None
    if spec[0] == 'i':
        return int(spec[1])
    return spec[1] / spec[2]


def kwtok(args, kw):
    extra = sorted(k for k in kw if k not in ('poll', 'ping_rate', 'ping_timeout'))
    missing = [k for k in ('poll', 'ping_rate', 'ping_timeout') if k not in kw]
    t = 'C:%s,%s,%s' % tuple(ptok(kw.get(k)) if k in kw else 'MISSING' for k in ('poll', 'ping_rate', 'ping_timeout'))
    if args:
        t += '+%dpositional' % len(args)
    if extra:
        t += '+' + '+'.join(extra)
    return t


def draw_value(d):
    return float.fromhex(d) if isinstance(d, str) else d[0] / d[1]


def draw_frac(d):
    return Fraction(float.fromhex(d)) if isinstance(d, str) else Fraction(d[0], d[1])


# ---------------------------------------------------------------------------------------------
# a. scripted websocket

class _FE(object):
    """an event-like object: persist may only look at .name"""
    __slots__ = ['name', 'tok']

    def __init__(self, name, tok):
        self.name = name
        self.tok = tok


def ev_tokens(case):
    """canonical tokens of the scripted events, per round"""
    out, n = [], 0
    for rnd in case['rounds']:
        toks = []
        for name in rnd['events']:
            toks.append('E:%s:%d' % (name, n))
            n += 1
        out.append(toks)
    return out


def run_fake(case):
    """run the real persist() over a scripted websocket; returns the canonical token list"""
    import lomond.persist as P
    import lomond.events as EV
    log = []
    toks = ev_tokens(case)
    state = {'i': -1, 'rnd': None}
    alive = []
    by_id = {}

    class FakeWS(object):
        def connect(self, *a, **kw):
            if state['i'] + 1 >= len(case['rounds']):
                raise W.ScriptEnd()
            state['i'] += 1
            state['rnd'] = case['rounds'][state['i']]
            log.append(kwtok(a, kw))
            evs = [_FE(n, t) for n, t in zip(state['rnd']['events'], toks[state['i']])]
            alive.extend(evs)
            for e in evs:
                by_id[id(e)] = e.tok

            def gen():
                for e in evs:
                    yield e
            return gen()

    class FakeExit(object):
        def wait(self, t=None):
            log.append('X:' + ('N' if t is None else frac(t)))
            return bool(state['rnd']['exit']) if state['rnd'] else False

        def is_set(self):
            return False

        isSet = is_set

    def fake_random():
        log.append('R')
        return draw_value(state['rnd']['draw']) if state['rnd'] else 0.0

    ex = FakeExit()
    saved_random, saved_threading = P.random, P.threading
    kwargs = dict(poll=pval(case['poll']), min_wait=pval(case['min']), max_wait=pval(case['max']),
                  ping_rate=pval(case['prate']), ping_timeout=pval(case['ptimeout']))
    try:
        P.random = fake_random
        if case.get('default_event'):
            class Shim(object):
                @staticmethod
                def Event():
                    return ex
            P.threading = Shim
        else:
            kwargs['exit_event'] = ex
        g = P.persist(FakeWS(), **kwargs)
        try:
            for ev in g:
                t = by_id.get(id(ev))
                if t is not None:
                    log.append(t)
                elif isinstance(ev, EV.BackOff):
                    log.append('B:' + frac(ev.delay))
                else:
                    log.append('U:' + type(ev).__name__)
                if len(log) > MAX_TOKENS:
                    log.append('RUNAWAY')
                    break
            else:
                log.append('END:exited')
        except W.ScriptEnd:
            log.append('END:running')
        except Exception as e:  # noqa - an exception escaping persist is an observation
            log.append('ESCAPED:' + type(e).__name__)
    finally:
        P.random, P.threading = saved_random, saved_threading
    return log


# ---------------------------------------------------------------------------------------------
# b. the real WebSocket on the simulated world

def _end_token(wld, ws):
    return 'END:sock=%d:sel=%d:closing=%d:closed=%d' % (
        1 if wld.sock_open else 0, 1 if wld.sel_open else 0,
        1 if ws.state.closing else 0, 1 if ws.state.closed else 0)


def run_world(case):
    """returns dict(direct=[trace per connection, without persist], via=[trace per connection, under persist],
                    ptrace=[persist-level tokens])"""
    import lomond.persist as P
    import lomond.events as EV
    import lomond.session as _session
    import lomond.events as _events
    import lomond.frame as _frame
    import lomond.websocket as _websocket
    from lomond.websocket import WebSocket
    scs = [coreutil.scenario_from_json(j) for j in case['scs']]
    direct = W.run_chain([coreutil.scenario_from_json(j) for j in case['scs']])
    rounds = case['rounds']          # [{draw, exit}] aligned with scs
    saved = (_session.time, _events.time, _frame.make_masking_key, _websocket.os.urandom, P.random)
    cur = {'i': -1, 'world': W.World(scs[0]), 'sc': scs[0], 'evidx': 0}
    plog, via = [], []

    class TimeShim:
        @staticmethod
        def time():
            return cur['world'].clock.t

    def next_key():
        w = cur['world']
        k = w.key_ctr
        w.key_ctr += 1
        return W.test_key(k)

    one_cls = W.make_session_class(cur)        # persist() reconnects with one and the same session class

    class PWS(WebSocket):
        def connect(self, *a, **kw):
            if cur['i'] + 1 >= len(scs):
                raise W.ScriptEnd()
            cur['i'] += 1
            sc = scs[cur['i']]
            wld = W.World(sc, cur['world'].clock.t + 3.0 if cur['i'] > 0 else 1000.0)       # the clock goes on across reconnects
            wld.canon_write = W._canon_write_factory(wld)
            cur['sc'], cur['world'], cur['evidx'] = sc, wld, 0
            plog.append(kwtok(a, kw))
            return WebSocket.connect(self, *a, session_class=one_cls, **kw)

    class FakeExit(object):
        def wait(self, t=None):
            plog.append('X:' + ('N' if t is None else frac(t)))
            return bool(rounds[cur['i']]['exit']) if cur['i'] >= 0 else False

    def fake_random():
        plog.append('R')
        return draw_value(rounds[cur['i']]['draw']) if cur['i'] >= 0 else 0.0

    def finish_connection(ws):
        wld = cur['world']
        for i, (tok, ev) in enumerate(wld.kept):
            if W.show_event(ev) != tok:
                wld.trace.append('MUTATED:%d' % i)
        via.append(' '.join(wld.trace + [_end_token(wld, ws)]))

    try:
        _session.time = TimeShim
        _events.time = TimeShim
        _frame.make_masking_key = next_key
        _websocket.os.urandom = lambda n: cur['sc'].key_bytes()[:n]
        P.random = fake_random
        sc0 = scs[0]
        ws = PWS(sc0.url, proxies={}, protocols=sc0.protocols or None, compress=sc0.compress)
        pt = case['ptimeout']
        g = P.persist(ws, poll=float(case['poll']), min_wait=pval(case['min']), max_wait=pval(case['max']),
                      ping_rate=float(case['prate']), ping_timeout=(float(pt) if pt else None), exit_event=FakeExit())
        try:
            for ev in g:
                if type(ev) is EV.BackOff:
                    plog.append('B:' + frac(ev.delay))
                    finish_connection(ws)
                    # (C17) the application touches the websocket BETWEEN two connections - while it handles BackOff
                    for t in (case.get('touch') or {}).get(str(cur['i']), []):
                        try:
                            if t == 'close':
                                ws.close()
                            elif t == 'send':
                                ws.send_text(u'between connections')
                            elif t == 'look':
                                (ws.is_closed, ws.is_closing, ws.is_active)
                        except Exception:  # noqa - refused calls are fine; the next connection must not notice
                            pass
                    continue
                wld, sc = cur['world'], cur['sc']
                tok = W.show_event(ev)
                wld.log(tok)
                wld.kept.append((tok, ev))
                plog.append(tok)
                if ev.name == 'ready':
                    wld.deflate_cfg = ws.state.compression
                acts = sc.reactions.get(cur['evidx'], [])
                cur['evidx'] += 1
                for a in acts:
                    W.do_act(wld, ws, a)
                if len(plog) > MAX_TOKENS:
                    plog.append('RUNAWAY')
                    break
            else:
                plog.append('END:exited')
        except W.ScriptEnd:
            if len(via) == cur['i'] + 1:
                plog.append('END:running')          # persist asked for a connection the script does not have
            else:
                plog.append('INCOMPLETE')           # a connection's environment script ran dry
        except Exception as e:  # noqa
            plog.append('ESCAPED:' + type(e).__name__)
    finally:
        _session.time, _events.time, _frame.make_masking_key, _websocket.os.urandom, P.random = saved
    return dict(direct=direct, via=via, ptrace=plog)


# ---------------------------------------------------------------------------------------------
# model line

def cfg_part(case):
    if case['kind'] == 'world':
        pt = case['ptimeout']
        p = (frac(float(case['poll'])), frac(float(case['prate'])), frac(float(pt)) if pt else 'N')
    else:
        p = (ptok(pval(case['poll'])), ptok(pval(case['prate'])), ptok(pval(case['ptimeout'])))
    return 'persist min=%s max=%s poll=%s prate=%s ptimeout=%s' % ((ptok(pval(case['min'])), ptok(pval(case['max']))) + p)


def composed_line(case):
    """`persistcore` op: persist's configuration, then per attempt the draw, the exit flag and the `core` line of its connection"""
    secs = ['persistcore' + cfg_part(case)[len('persist'):]]
    for rnd, j in zip(case['rounds'], case['scs']):
        core = W.scenario_line(coreutil.scenario_from_json(j))
        secs.append('%s %s ## %s' % (frac(draw_frac(rnd['draw'])), '1' if rnd['exit'] else '0', core[5:]))
    return ' || '.join(secs)


def model_line(case, attempt_tokens):
    secs = [cfg_part(case)]
    for rnd, toks in zip(case['rounds'], attempt_tokens):
        secs.append(' '.join([frac(draw_frac(rnd['draw'])), '1' if rnd['exit'] else '0'] + toks))
    return ' | '.join(secs)


# ---------------------------------------------------------------------------------------------
# the oracle (property text; no model)

def judge(case, attempts, toks, exact=True):
    """attempts: [(event tokens, reached_ready)] per round; toks: what the real code did.
       returns None or (class, what, expected-next, position)"""
    mn, mx = Fraction(pval(case['min'])), Fraction(pval(case['max']))
    if case['kind'] == 'world':
        pt = case['ptimeout']
        want_c = 'C:%s,%s,%s' % (frac(float(case['poll'])), frac(float(case['prate'])), frac(float(pt)) if pt else 'N')
    else:
        want_c = 'C:%s,%s,%s' % (ptok(pval(case['poll'])), ptok(pval(case['prate'])), ptok(pval(case['ptimeout'])))
    toks = [t for t in toks if t != 'R']     # the call of random() itself is not part of the property
    pos, streak = 0, 0

    def at(i):
        return toks[i] if i < len(toks) else '<nothing>'
    for i, (rnd, (evs, ready)) in enumerate(zip(case['rounds'], attempts)):
        t = at(pos)
        if t != want_c:
            if t.startswith('C:'):
                return ('connect-args', 'attempt %d: connect called with %s, persist was given %s' % (i, t, want_c), want_c, pos)
            if t.startswith('B:'):
                return ('backoff-count', 'more than one BackOff after attempt %d' % (i - 1), want_c, pos)
            if t == 'END:exited':
                return ('ended-by-itself', 'persist finished after attempt %d although no wait() had returned true' % (i - 1), want_c, pos)
            return ('no-reconnect', 'expected a new connect after attempt %d, saw %s' % (i - 1, t), want_c, pos)
        pos += 1
        got = toks[pos:pos + len(evs)]
        if got != evs:
            return ('passthrough', 'attempt %d: events not passed through unchanged and in order' % i, evs, pos)
        pos += len(evs)
        t = at(pos)
        if not t.startswith('B:'):
            return ('passthrough' if t.startswith(('E:', 'U:')) else 'backoff-missing',
                    'attempt %d: expected exactly one BackOff after its events, saw %s' % (i, t), 'B:...', pos)
        d = Fraction(t[2:])
        pos += 1
        streak = 0 if ready else streak + 1
        u = draw_frac(rnd['draw'])
        want_d = mn + u * min(mx - mn, Fraction(2) ** streak)
        if mn <= mx and not (mn <= d <= mx):
            return ('delay-bounds', 'attempt %d: delay %s outside [%s, %s]' % (i, d, mn, mx), 'within bounds', pos - 1)
        if (d != want_d) if exact else (abs(d - want_d) > Fraction(1, 10 ** 12) * max(1, abs(want_d))):
            return ('delay-formula', 'attempt %d: delay %s, expected min + u*min(max-min, 2^%d) = %s (u=%s)' % (i, d, streak, want_d, u),
                    'B:' + frac(want_d), pos - 1)
        t = at(pos)
        if t != 'X:' + frac(d):
            return ('wait-arg', 'attempt %d: exit_event.wait not called once with the BackOff delay: %s' % (i, t), 'X:' + frac(d), pos)
        pos += 1
        if rnd['exit']:
            if toks[pos:] != ['END:exited']:
                return ('exit-not-honoured', 'wait() returned true after attempt %d but persist went on: %s' % (i, toks[pos:pos + 3]), 'END:exited', pos)
            return None
    if toks[pos:] != ['END:running']:
        t = at(pos)
        if t == 'END:exited':
            return ('ended-by-itself', 'persist finished although no wait() had returned true', 'END:running', pos)
        if t.startswith('B:'):
            return ('backoff-count', 'more than one BackOff after the last attempt', 'END:running', pos)
        return ('no-reconnect', 'after the last scripted attempt persist did not ask for a new connection: %s' % toks[pos:pos + 3], 'END:running', pos)
    return None


# ---------------------------------------------------------------------------------------------
# generators

READY_NAMES_NOT = ['READY', 'ready_', 'rready', 'read', 'Ready', 'back_off']
MID = ['poll', 'text', 'binary', 'ping', 'pong', 'poll', 'text']


def gen_attempt(rng):
    """(outcome kind, event names)"""
    k = rng.choice(['connect_fail', 'connect_fail', 'rejected', 'drop_before_ready', 'drop_after_ready', 'drop_after_ready',
                    'graceful', 'protocol_error_after', 'protocol_error_before', 'unresponsive', 'empty', 'odd'])
    mid = [rng.choice(MID) for _ in range(rng.choice([0, 0, 1, 2, 5]))]
    if k == 'connect_fail':
        return k, ['connecting', 'connect_fail']
    if k == 'rejected':
        return k, ['connecting', 'connected', 'rejected', 'disconnected']
    if k == 'drop_before_ready':
        return k, ['connecting', 'connected', 'disconnected'] if rng.random() < 0.7 else ['connecting', 'connected', 'poll', 'disconnected']
    if k == 'drop_after_ready':
        return k, ['connecting', 'connected', 'ready'] + mid + ['disconnected']
    if k == 'graceful':
        return k, ['connecting', 'connected', 'ready'] + mid + rng.choice([['closing', 'closed'], ['closed']]) + ['disconnected']
    if k == 'protocol_error_after':
        return k, ['connecting', 'connected', 'ready'] + mid + ['protocol_error', 'disconnected']
    if k == 'protocol_error_before':
        return k, ['connecting', 'connected', 'protocol_error', 'disconnected']
    if k == 'unresponsive':
        return k, ['connecting', 'connected', 'ready', 'poll', 'unresponsive', 'disconnected']
    if k == 'empty':
        return k, []
    r = rng.random()
    if r < 0.3:
        return k, ['connecting', rng.choice(READY_NAMES_NOT), 'disconnected']          # looks like ready, is not
    if r < 0.5:
        return k, ['ready']
    if r < 0.7:
        return k, ['connecting', 'connected', 'disconnected', 'ready']                  # ready as the very last event
    if r < 0.85:
        return k, ['ready', 'text', 'ready', 'disconnected']
    return k, [rng.choice(READY_NAMES_NOT)]


PARAMS = [(('i', 5), ('i', 30)), (('i', 5), ('i', 30)), (('i', 0), ('i', 1)), (('i', 0), ('i', 0)), (('i', 3), ('i', 3)),
          (('i', 1), ('i', 2)), (('i', 1), ('i', 3)), (('i', 0), ('i', 1000000)), (('i', 10), ('i', 12)), (('i', 2), ('i', 1 << 20)),
          (('i', 0), ('i', 1 << 40)), (('f', 1, 2), ('f', 7, 4)), (('f', 5, 4), ('f', 133, 4)), (('f', 5, 1), ('f', 30, 1)),
          (('i', 7), ('i', 8)), (('i', 0), ('i', 2)), (('i', 0), ('i', 4)), (('i', 100), ('i', 164)),
          (('i', 30), ('i', 5)), (('i', 2), ('i', 1)), (('f', 7, 4), ('f', 1, 2))]     # the last three: min > max (formula only)
PASS = [None, ('i', 5), ('i', 30), ('i', 0), ('i', 1), ('f', 5, 2), ('f', 30, 1), ('i', 7), ('f', 1, 4)]


def gen_draw(rng):
    r = rng.random()
    if r < 0.15:
        return [0, 64]
    if r < 0.3:
        return [63, 64]
    if r < 0.8:
        return [rng.randrange(64), 64]
    if r < 0.9:
        return [(1 << 20) - 1, 1 << 20]
    return [rng.randrange(1 << 20), 1 << 20]


def gen_fake_case(rng, float_draws=False):
    mn, mx = rng.choice(PARAMS)
    if float_draws:
        mn, mx = rng.choice([p for p in PARAMS if p[0][0] == 'i' and p[0][1] <= p[1][1]])
    big = mx[0] == 'i' and mx[1] >= 1 << 20
    n = rng.choice([1, 2, 3, 4, 5, 6, 8, 12]) if not (big and rng.random() < 0.5) else rng.choice([22, 30, 45])
    fail_bias = rng.choice([0.0, 0.5, 0.9, 1.0]) if n < 20 else rng.choice([0.95, 1.0])
    rounds, kinds = [], []
    exit_at = rng.choice([None, None, n - 1, rng.randrange(n)])
    for i in range(n):
        k, evs = gen_attempt(rng)
        if 'ready' in evs and rng.random() < fail_bias:
            k, evs = rng.choice([('connect_fail', ['connecting', 'connect_fail']), ('rejected', ['connecting', 'connected', 'rejected', 'disconnected'])])
        kinds.append(k)
        if float_draws:
            d = rng.choice([rng.random(), rng.random(), 0.0, 1.0 - 2.0 ** -53, 2.0 ** -60, rng.random() * 2.0 ** -30]).hex()
        else:
            d = gen_draw(rng)
        rounds.append(dict(events=evs, draw=d, exit=1 if exit_at == i else 0))
    case = dict(kind='fake', min=list(mn), max=list(mx), poll=_l(rng.choice(PASS)), prate=_l(rng.choice(PASS)),
                ptimeout=_l(rng.choice(PASS)), rounds=rounds, default_event=rng.random() < 0.1)
    return case, kinds


def _l(x):
    return None if x is None else list(x)


def exhaustive_cases(maxlen):
    """all Ready/no-Ready patterns up to maxlen x exit position (or never) x draw in {0, 63/64} x a parameter grid"""
    grid = [(('i', 5), ('i', 30)), (('i', 0), ('i', 1)), (('i', 3), ('i', 3)), (('i', 0), ('i', 1000))]
    fail, ok = ['connecting', 'connect_fail'], ['connecting', 'connected', 'ready', 'disconnected']
    out = []
    for n in range(1, maxlen + 1):
        for bits in range(1 << n):
            for exit_at in list(range(n)) + [None]:
                if exit_at is not None and exit_at != n - 1:
                    continue        # rounds after the exit are never reached; cover them once, below
                for dj in (0, 63):
                    for mn, mx in grid:
                        rounds = [dict(events=(ok if (bits >> i) & 1 else fail), draw=[dj, 64], exit=1 if exit_at == i else 0) for i in range(n)]
                        out.append(dict(kind='fake', min=list(mn), max=list(mx), poll=['i', 5], prate=['i', 30], ptimeout=None,
                                        rounds=rounds, default_event=False))
    # a very long outage: more consecutive attempts without Ready than any floating-point exponent survives (2.0**1024 overflows),
    # then a Ready, then failures again; and zero delays (min_wait = max_wait = 0, or a draw of exactly 0) with the exit event set
    long_rounds = [dict(events=fail, draw=[(7 * i) % 64, 64], exit=0) for i in range(1100)] + [dict(events=ok, draw=[1, 64], exit=0)] + \
                  [dict(events=fail, draw=[63, 64], exit=1 if i == 2 else 0) for i in range(3)]
    out.append(dict(kind='fake', min=['i', 5], max=['i', 3600], poll=['i', 5], prate=['i', 30], ptimeout=None, rounds=long_rounds, default_event=False))
    for mn, mx, dj in ((0, 0, 32), (0, 0, 0), (0, 8, 0), (0, 1, 0)):
        for n in (1, 3):
            rounds = [dict(events=fail, draw=[dj, 64], exit=1 if i == n - 1 else 0) for i in range(n)]
            out.append(dict(kind='fake', min=['i', mn], max=['i', mx], poll=['i', 5], prate=['i', 30], ptimeout=None, rounds=rounds, default_event=False))
    # exit before the end of the script: what follows must not be touched
    for n in range(2, min(maxlen, 5) + 1):
        for exit_at in range(n - 1):
            for bits in range(1 << n):
                rounds = [dict(events=(ok if (bits >> i) & 1 else fail), draw=[32, 64], exit=1 if exit_at == i else 0) for i in range(n)]
                out.append(dict(kind='fake', min=['i', 5], max=['i', 30], poll=['i', 5], prate=['i', 30], ptimeout=None,
                                rounds=rounds, default_event=False))
    return out


def outcome_scenarios(rng, poll, prate, ptimeout, key_seed=0):
    """(name, Scenario) templates: one connection outcome each, produced by the real WebSocket"""
    def S(env, rx=None, **kw):
        return Scenario(env, rx or {}, poll=poll, prate=prate, ptimeout=ptimeout, key_seed=key_seed, **kw)
    g = S([]).good_reply()
    gz = S([]).good_reply(b'Sec-WebSocket-Extensions: permessage-deflate\r\n')
    eof = [('wait', 0, ('eof',))]
    E = [
        ('connect-failure', S([], conn='sockfail')),
        ('connect-failure-other', S([], conn='otherfail')),
        ('selector-unavailable', S([], conn='selfail')),
        ('request-failure', S([], wfail={0})),
        ('rejected-401', S(reads([b'HTTP/1.1 401 No\r\n\r\n']) + eof)),
        ('rejected-bad-accept', S(reads([b'HTTP/1.1 101 Switching Protocols\r\nUpgrade: websocket\r\nConnection: Upgrade\r\nSec-WebSocket-Accept: AAAA\r\n\r\n']) + eof)),
        ('drop-before-ready-immediate', S(eof)),
        ('drop-before-ready-mid-header', S(reads([g[:40]]) + eof)),
        ('drop-before-ready-reset', S(reads([g[:10]]) + [('wait', 1, ('sockerr',))])),
        ('drop-after-ready', S(reads([g]) + eof)),
        ('drop-after-ready-mid-frame', S(reads([g + server_frame(1, b'hello world')[:5]]) + [('wait', 0, ('sockerr',))])),
        ('drop-after-messages', S(reads([g + server_frame(1, b'hi') + server_frame(2, b'\x00\x01') + server_frame(9, b'p')]) + [('wait', poll, None)] + eof)),
        ('graceful-server-close', S(reads([g + server_frame(8, close_payload(1000, b'bye'))]) + eof)),
        ('graceful-client-close', S(reads([g]) + [('wait', 1, ('data', server_frame(8, close_payload(1000, b'bye'))))] + eof,
                                    {2: [('close', 1000, ('b', b'bye'))]})),
        ('client-close-no-reply', S(reads([g]) + [('wait', poll, None)] * 8 + eof, {2: [('close', 1000, ('b', b'bye'))]})),
        ('protocol-error-reserved-opcode', S(reads([g + server_frame(3, b'')]) + eof)),
        ('protocol-error-bad-utf8', S(reads([g + server_frame(1, b'\xff')]) + eof)),
        ('protocol-error-in-handshake', S(reads([b'garbage without terminator ' * 3]) + eof)),
        ('deflate-negotiated', S(reads([gz + server_frame(1, b'plain')]) + eof, compress=True)),
        ('selector-error', S(reads([g]) + [('selerr',)])),
        ('idle-polls', S(reads([g]) + [('wait', poll, None)] * 3 + eof)),
    ]
    if prate and ptimeout:
        E.append(('ping-timeout', S(reads([g]) + [('wait', poll, None)] * (2 + (prate + ptimeout) // max(poll, 1)) + eof)))
    return E


def gen_world_case(rng):
    poll = rng.choice([1, 2, 5])
    prate = rng.choice([0, 0, 2, 3, 30])
    ptimeout = rng.choice([0, 0, 3, 6])
    mn, mx = rng.choice([p for p in PARAMS if p[1][1] < (1 << 30) or p[1][0] == 'f'])
    n = rng.choice([1, 2, 3, 3, 4, 5, 7])
    scs, names = [], []
    for i in range(n):
        templ = outcome_scenarios(rng, poll, prate, ptimeout, key_seed=i + 1)      # every connection draws its own key
        if rng.random() < 0.7:
            name, sc = rng.choice(templ)
        else:
            name = 'random-history'
            for _ in range(30):
                sc = gen_core.gen_history(rng, n_steps=rng.randint(0, 5), timers=True, p_good=rng.choice([0.5, 0.9]))
                if sc.poll == poll:
                    break
            else:
                name, sc = rng.choice(templ)
            sc.poll, sc.prate, sc.ptimeout, sc.autopong, sc.ctimeout = poll, prate, ptimeout, True, 30
            sc.tdiv, sc.zero = 1, False       # persist() is called with whole-second arguments here
        scs.append(sc)
        names.append(name)
    # constructor arguments belong to the object, not to a connection
    for sc in scs:
        sc.compress, sc.url, sc.protocols = scs[0].compress, scs[0].url, scs[0].protocols
    exit_at = rng.choice([None, n - 1, n - 1, rng.randrange(n)])
    rounds = [dict(draw=gen_draw(rng), exit=1 if exit_at == i else 0) for i in range(n)]
    case = dict(kind='world', min=list(mn), max=list(mx), poll=poll, prate=prate, ptimeout=ptimeout,
                scs=[coreutil.scenario_to_json(s) for s in scs], rounds=rounds)
    return case, names


# ---------------------------------------------------------------------------------------------

def _fail(res, case, verdict, toks, extra=None):
    cls, what, want, pos = verdict
    res.failures.append(dict(cls=cls, what=what, input=case, observed=toks[max(0, pos - 3):pos + 4], expected=want, **(extra or {})))


def explore(res, tier, seed, model_ok=True):
    import gencheck   # differential test of the translated code (Generated/Code.lean) against the original Python
    gencheck.run(res, 'C16', tier, seed, model_ok)
    rng = random.Random(seed)
    quick = tier == 'quick'
    n_fake, n_float, n_world, maxlen = (1500, 300, 160, 6) if quick else (20000, 4000, 1800, 9)
    res.rule = ('(a) scripted websocket: %d generated cases = sequences of 1..45 connection outcomes (connect failure, rejection, drop before/after Ready, graceful close, '
                'protocol error before/after Ready, unresponsive, empty, names that merely resemble "ready", Ready in odd positions) x 21 (min_wait, max_wait) settings '
                '(ints, dyadic floats, min=max, caps up to 2^40 with runs of up to 45 failures, three with min>max) x 9^3 pass-through (poll, ping_rate, ping_timeout) values '
                'x dyadic draws (k/64, k/2^20, biased to 0 and the largest) x exit at every back-off or never x exit_event given / default; '
                'exhaustive: all Ready/no-Ready patterns of length <= %d x exit at the end or never x draw in {0, 63/64} x 4 parameter pairs, plus exit before the end of the script; '
                '%d oracle-only cases with arbitrary float draws (incl. 0 and 1-2^-53). '
                '(b) real lomond.WebSocket on the simulated world under persist: %d chains of 1..7 connections from 21 outcome templates + random histories with reactions, '
                'compared with the same chain run without persist. non-trivial = at least two attempts happen; distinct by the whole case') % (n_fake, maxlen, n_float, n_world)

    # ---- (a) scripted websocket --------------------------------------------------------------
    cases, meta = [], []
    for c in exhaustive_cases(maxlen):
        cases.append(c); meta.append(('exhaustive', None))
    n_exh = len(cases)
    for _ in range(n_fake):
        c, kinds = gen_fake_case(rng)
        cases.append(c); meta.append(('generated', kinds))
    n_exact = len(cases)
    for _ in range(n_float):
        c, kinds = gen_fake_case(rng, float_draws=True)
        cases.append(c); meta.append(('float', kinds))
    reals = runner.parallel_map('props.c16', 'run_fake', cases, chunk=200)
    lines = [model_line(c, ev_tokens(c)) for c in cases[:n_exact]]
    models = runner.model_run(lines) if model_ok else [None] * n_exact
    for i, (case, (stream, kinds), toks) in enumerate(zip(cases, meta, reals)):
        if isinstance(toks, dict):
            res.crashes.append(toks); continue
        happen = next((j + 1 for j, r in enumerate(case['rounds']) if r['exit']), len(case['rounds']))
        res.case(('fake', repr(case)), nontrivial=happen >= 2)
        res.count('stream:' + stream)
        res.count('rounds:%s' % ('1' if happen == 1 else '2-4' if happen <= 4 else '5-12' if happen <= 12 else '13+'))
        res.count('exit:' + ('never' if not any(r['exit'] for r in case['rounds']) else 'at-some-backoff'))
        if kinds:
            for k in kinds[:happen]:
                res.count('outcome:' + k)
        if pval(case['min']) > pval(case['max']):
            res.count('min>max')
        if case.get('default_event'):
            res.count('exit_event=None')
        attempts = [(t, 'ready' in r['events']) for t, r in zip(ev_tokens(case), case['rounds'])]
        v = judge(case, attempts, toks, exact=(stream != 'float'))
        if v:
            _fail(res, case, v, toks)
        res.traces_validated += 1
        if i < n_exact and models[i] is not None and ' '.join(toks) != models[i]:
            res.diffs.append(dict(input=lines[i][:3000], real=' '.join(toks)[-1500:], model=models[i][-1500:], case=case))
    res.exhaustive['ready_patterns_len_le_%d_x_exit_x_draw_x_params' % maxlen] = n_exh

    # ---- (b) the real WebSocket --------------------------------------------------------------
    wcases, wmeta = [], []
    for _ in range(n_world):
        c, names = gen_world_case(rng)
        wcases.append(c); wmeta.append(names)
    wreals = runner.parallel_map('props.c16', 'run_world', wcases, chunk=10)
    wl, wi = [], []
    for i, (case, names, r) in enumerate(zip(wcases, wmeta, wreals)):
        if isinstance(r, dict) and '__crash__' in r:
            res.crashes.append(r); continue
        happen = next((j + 1 for j, x in enumerate(case['rounds']) if x['exit']), len(case['rounds']))
        if any('INCOMPLETE' in t for t in r['direct'][:happen]) or 'INCOMPLETE' in r['ptrace']:
            res.count('world:incomplete-script')
            continue
        res.case(('world', repr(case)), nontrivial=happen >= 2)
        res.count('stream:world')
        for nme in names[:happen]:
            res.count('world-outcome:' + nme)
        attempts = []
        for t in r['direct']:
            evs = coreutil.events(t)
            attempts.append((evs, any(e.split(':')[1] == 'ready' for e in evs)))
        res.count('world:reached-ready', sum(1 for a in attempts[:happen] if a[1]))
        v = judge(case, attempts, r['ptrace'])
        if v:
            _fail(res, case, v, r['ptrace'], dict(names=names))
        # the connection itself (writes, socket handling, timers) is what it is without persist
        for j in range(min(happen, len(r['via']))):
            if r['via'][j] != r['direct'][j]:
                res.failures.append(dict(cls='passthrough-world', what='connection %d (%s) behaves differently under persist than when run directly' % (j, names[j]),
                                         input=case, observed=r['via'][j][-600:], expected=r['direct'][j][-600:]))
                break
        if len(r['via']) != happen and not v:
            res.failures.append(dict(cls='backoff-count', what='%d BackOff events for %d attempts' % (len(r['via']), happen), input=case))
        res.traces_validated += 1
        wl.append(model_line(case, [a[0] for a in attempts])); wi.append(i)
    if model_ok and wl:
        for line, i, m in zip(wl, wi, runner.model_run(wl)):
            real = ' '.join(wreals[i]['ptrace'])
            if real != m:
                res.diffs.append(dict(input=line[:3000], real=real[-1500:], model=m[-1500:], case=wcases[i]))
    # ---- the COMPOSED model (Model/PersistLink.lean, Properties/C16_Core.lean): persist() over the core model -- every
    # attempt is a `core` line, its events are those of `Core.runAll`, not the real run's -- against the real persist trace
    if model_ok and wi:
        cl = [composed_line(wcases[i]) for i in wi]
        for line, i, m in zip(cl, wi, runner.model_run(cl)):
            real = ' '.join(wreals[i]['ptrace'])
            res.count('stream:world-composed')
            res.traces_validated += 1
            if real != m:
                res.diffs.append(dict(input=line[:3000], real=real[-1500:], model=m[-1500:], case=wcases[i], what='persistcore'))
        res.samples.append(cl[0][:500])
    res.samples += [lines[n_exh][:400] if len(lines) > n_exh else '', lines[0][:300]] + [l[:500] for l in wl[:2]]


def replay(rp):
    case = rp.get('input') or (rp.get('first_disagreement') or {}).get('case')
    if not isinstance(case, dict) or 'kind' not in case:
        print('replay file names a broken obligation, no concrete input: %s' % rp.get('broken'))
        return 0
    if case['kind'] == 'fake':
        print(' '.join(run_fake(case)))
    else:
        r = run_world(case)
        print('persist: ' + ' '.join(r['ptrace']))
        for d, v in zip(r['direct'], r['via']):
            print('direct : ' + d[-400:])
            print('via    : ' + v[-400:])
    return 0
