"""C01 - every server message delivered once, in order, byte-exact."""
from __future__ import annotations
import random
import runner, coreutil, gen_core
from coreutil import Scenario, events, reads, cut, random_cuts, limit_chunks

TRUSTED = ['correspondence: harness/world.py simulated socket/selector/clock', 'harness/refcodec.py server-side encoder (expected events come from it, not from the model)']
ASSUMPTIONS = ['the aliasing clause (payload never changes after its event was yielded) is checked by the harness (receive buffer poisoned between reads), not by a theorem']


def make(rng, tier, big):
    sc = Scenario([], prate=0)
    sizes = gen_core.BOUNDARY_SIZES if big else gen_core.SMALL_SIZES
    # a third of the streams negotiate permessage-deflate; the peer compresses some messages (any fragmentation)
    deflate = rng.random() < 0.33
    peer = None
    extra = b''
    if deflate:
        from refcodec import DeflatePeer
        sw = rng.choice([15, 15, 12, 9, 8])
        snt = rng.random() < 0.3
        peer = DeflatePeer(server_bits=sw, server_no_takeover=snt)
        extra = b'Sec-WebSocket-Extensions: permessage-deflate; server_max_window_bits=%d%s\r\n' % (sw, b'; server_no_context_takeover' if snt else b'')
    items = [gen_core.gen_item(rng, sizes, peer) for _ in range(rng.randint(1, 3 if big else 6))]
    closing = rng.random() < 0.4
    if closing:
        items.append(gen_core.gen_close(rng))
    frames = []
    for it in items:
        frames += gen_core.serialise_item(rng, it)
    data = sc.good_reply(extra) + b''.join(frames)
    seg = rng.choice(['whole', 'rand', 'rand', 'bytes'] if not big else ['whole', 'rand'])
    if seg == 'whole':
        chunks = [data]
    elif seg == 'bytes':
        chunks = [data[i:i + 1] for i in range(len(data))]
    else:
        chunks = cut(data, random_cuts(rng, len(data), rng.choice([1, 3, 7])))
    sc.env = reads(limit_chunks(chunks)) + [('wait', 1, ('eof',))]
    expected = []
    for it in items:
        expected += it.expected()
    sc.deflate_negotiated = deflate
    return sc, expected, items

RECV_BUF = 65536    # size of one recv (limit_chunks' default; lomond's session reads at most 64 KiB at a time)


def _frag_size(rng, stratum=None):
    """fragment payload size anywhere from 0 up to a whole receive buffer"""
    if stratum is not None:
        return stratum
    r = rng.random()
    if r < 0.4:
        return max(0, min(RECV_BUF, (1 << rng.randint(7, 16)) + rng.choice([-1, 0, 1])))
    if r < 0.7:
        return int(2 ** rng.uniform(0, 16))
    if r < 0.85:
        return RECV_BUF - rng.randint(0, 16)
    return rng.choice([0, 1, 125, 126, 127])


def make_recvbuf(rng, stratum=None):
    """a fragmented data message whose frames are never cut by the transport: every frame (or its header and its payload separately)
    arrives whole inside one recv, fragments of every size up to the receive buffer size, the later frames (controls between the
    fragments, the final fragment, a following message) arrive in LATER recvs that reuse the same receive buffer"""
    sc = Scenario([], prate=0)
    kind = rng.choice(['text', 'binary'])
    nfr = rng.choice([2, 2, 3, 4])
    szs = [_frag_size(rng, stratum if i == 0 else None) for i in range(nfr)]
    if stratum is not None and rng.random() < 0.5:
        szs[-1] = stratum        # final fragment as large as the first: the later recv overwrites the same region
    total = sum(szs)
    payload = gen_core.rand_text(rng, total) if kind == 'text' else gen_core.rand_bytes(rng, total)
    frags, o = [], 0
    for n in szs:
        frags.append(payload[o:o + n]); o += n
    between = [[gen_core.gen_control(rng) for _ in range(rng.choice([0, 1, 1, 2]))] for _ in frags[:-1]]
    items = []
    if rng.random() < 0.3:
        items.append(gen_core.gen_item(rng))
    items.append(gen_core.Item(kind, payload, frags, between))
    k2 = rng.choice(['text', 'binary'])
    n2 = _frag_size(rng)
    p2 = gen_core.rand_text(rng, n2) if k2 == 'text' else gen_core.rand_bytes(rng, n2)
    items.append(gen_core.Item(k2, p2, [p2], []))
    if rng.random() < 0.5:
        items.append(gen_core.gen_control(rng))
    if rng.random() < 0.4:
        items.append(gen_core.gen_close(rng))
    # atoms: byte strings the transport does not cut
    atoms = [sc.good_reply()]
    hp = rng.choice(['never', 'never', 'some', 'always'])      # frame header and payload in separate recvs?
    for it in items:
        for fr in gen_core.serialise_item(rng, it):
            n = fr[1] & 0x7f
            hl = 2 if n < 126 else (4 if n == 126 else 10)
            sep = len(fr) > RECV_BUF or (len(fr) > hl and (hp == 'always' or (hp == 'some' and rng.random() < 0.5)))
            atoms += [fr[:hl], fr[hl:]] if sep else [fr]
    join = rng.choice(['each', 'each', 'pack', 'coin'])
    chunks = []
    for a in atoms:
        if chunks and len(chunks[-1]) + len(a) <= RECV_BUF and (join == 'pack' or (join == 'coin' and rng.random() < 0.5)):
            chunks[-1] += a
        else:
            chunks.append(a)
    assert all(0 < len(c) <= RECV_BUF for c in chunks)
    sc.env = reads(chunks) + [('wait', 1, ('eof',))]
    expected = []
    for it in items:
        expected += it.expected()
    return sc, expected, szs, join, hp


def _recv_sizes(js):
    return [len(st[2][1]) // 2 for st in js['env'] if st[0] == 'wait' and st[2] and st[2][0] == 'data'][:40]


def explore(res, tier, seed, model_ok=True):
    import gencheck   # differential test of the translated code (Generated/Code.lean) against the original Python
    gencheck.run(res, 'C01', tier, seed, model_ok)
    rng = random.Random(seed)
    n = 250 if tier == 'quick' else 4000
    nbig = 30 if tier == 'quick' else 300
    res.rule = ('conforming server streams: 1-6 items (text/binary fragmented incl. empty fragments, ping/pong between fragments, final close), '
                'per-frame length form (minimal or non-minimal 16/64-bit), payload sizes from boundary sets, random segmentation; '
                'plus a family whole_frames_per_recv: a message of 2-4 fragments (sizes 0 .. 65536: powers of two and neighbours, log-uniform, near the receive buffer size) with controls between them and a following message, the transport never cutting a frame (each frame, or header and payload apart, whole in one recv; recvs each/packed/random joins), compared with the model too; '
                'expected events computed by the independent encoder; non-trivial = stream with a fragmented message or a non-minimal length or a boundary size; distinct by stream+segmentation')
    scs, exps, nts = [], [], []
    for i in range(n + nbig):
        sc, exp, items = make(rng, tier, big=(i >= n))
        scs.append(sc); exps.append(exp)
        nts.append(any((it.frags and len(it.frags) > 1) for it in items) or i >= n)
        res.count('deflate_negotiated' if getattr(sc, 'deflate_negotiated', False) else 'no_extension')
        for it in items:
            res.count(it.kind)
            if it.compressed:
                res.count('compressed_message')
            if it.frags and len(it.frags) > 1:
                res.count('fragmented')
                if any(len(f) == 0 for f in it.frags):
                    res.count('empty_fragment')
                if any(it.between):
                    res.count('control_between_fragments')
    # texts whose exact content is easily lost on the way (a codec that eats a leading U+FEFF, NUL, noncharacters, format directives)
    for t in ('\ufeff', '\ufeffhello', 'a\ufeffb', '\ufeff\ufeff', '\x00', 'a\x00b', '\uffff\ufffe', '{}', '{0} %s %d {x}', '\u2028\x85'):
        payload = t.encode('utf-8')
        for frags in ([payload], [payload[:1], payload[1:]], [payload[:3], b'', payload[3:]]):
            it = gen_core.Item('text', payload, frags, [[] for _ in frags[:-1]])
            sc = Scenario([], prate=0)
            data = sc.good_reply() + b''.join(gen_core.serialise_item(rng, it)) + gen_core.server_frame(2, payload)
            sc.env = reads([data]) + [('wait', 1, ('eof',))]
            scs.append(sc); exps.append(it.expected() + gen_core.Item('binary', payload, [payload], []).expected()); nts.append(True)
            res.count('special_text')
    # a message of more than 1 MiB followed by a 70000-byte one, read in 64 KiB pieces: the read that completes the first also
    # carries the beginning of the second (buffer management across very large messages)
    for extra in ((0, 17) if tier == 'quick' else (0, 1, 17, 4096)):
        big1 = gen_core.rand_bytes(rng, (1 << 20) + extra)
        t2 = gen_core.rand_text(rng, 70000)
        sc = Scenario([], prate=0)
        data = sc.good_reply() + gen_core.server_frame(2, big1) + gen_core.server_frame(1, t2) + gen_core.server_frame(9, b'end')
        sc.env = reads(limit_chunks([data])) + [('wait', 1, ('eof',))]
        scs.append(sc); exps.append(['E:binary:' + big1.hex(), 'E:text:' + t2.hex(), 'E:ping:' + b'end'.hex()]); nts.append(True)
        res.count('message_over_1MiB')
    # frames that the transport never cuts: fragments of every size up to a whole receive buffer, each arriving in one recv, the
    # rest of the message in later recvs (the session hands the parser views of ONE reused receive buffer; the harness poisons it
    # before every recv, so a fragment kept by reference instead of by value shows up as a wrong payload)
    strata = [1 << k for k in range(9, 16)] + [RECV_BUF - 10, RECV_BUF]
    if tier != 'quick':
        strata = sorted(set(strata + [(1 << k) + d for k in range(7, 16) for d in (-1, 1)] + [3 << k for k in range(7, 15)]))
    for i in range(len(strata) + (16 if tier == 'quick' else 500)):
        sc, exp, szs, join, hp = make_recvbuf(rng, strata[i] if i < len(strata) else None)
        scs.append(sc); exps.append(exp); nts.append(True)
        res.count('whole_frames_per_recv')
        res.count('whole_frames_per_recv:largest_fragment_2^%d' % max(szs).bit_length())
        res.count('whole_frames_per_recv:join=%s:header_apart=%s' % (join, hp))
    pairs = coreutil.run_pairs(scs, model_ok)
    for (js, line, real, model), exp, nt in zip(pairs, exps, nts):
        if isinstance(real, dict):
            res.crashes.append(real); continue
        res.case(line, nontrivial=nt)
    good = coreutil.check_corr(res, pairs)
    for (js, line, real, model), exp in zip(pairs, exps):
        if isinstance(real, dict):
            continue
        evs = [e for e in events(real) if e.split(':')[1] in ('text', 'binary', 'ping', 'pong', 'closing', 'closed', 'protocol_error')]
        if evs != exp:
            k = next((i for i, (a, b) in enumerate(zip(evs, exp)) if a != b), min(len(evs), len(exp)))
            # input = the whole scenario (replayable with ./check C01 --replay); the recv sizes are repeated in the text
            res.failures.append(dict(cls='delivery', what='delivered events differ from what was sent at index %d (server bytes arrive in recvs of %s bytes)' % (k, _recv_sizes(js)), input=js, scenario=js,
                                     observed=[e[:120] for e in evs[k:k + 3]], expected=[e[:120] for e in exp[k:k + 3]]))
        if 'MUTATED' in real:
            res.failures.append(dict(cls='aliasing', what='an event payload changed after it was yielded', input=js, scenario=js))
    # two connections alive at the same time in one process (two WebSocket objects, event loops advanced alternately): each must
    # deliver exactly what it delivers alone - nothing (receive buffers, validators, parsers) may be shared between sessions
    duos, dmeta = [], []
    cand = [i for i, (js, line, real, model) in enumerate(pairs) if not isinstance(real, dict) and len(line) < 20000]
    for k in range(12 if tier == 'quick' else 150):
        i, j = rng.sample(cand, 2)
        pattern = rng.choice([(0, 1), (0, 0, 1), (0, 1, 1), (0, 0, 0, 1, 1)])
        duos.append((pairs[i][0], pairs[j][0], list(pattern))); dmeta.append((i, j))
    for item, out, (i, j) in zip(duos, runner.parallel_map('coreutil', 'real_duo', duos, chunk=4), dmeta):
        if isinstance(out, dict):
            res.crashes.append(out); continue
        res.case(('duo', pairs[i][1][-200:], pairs[j][1][-200:], tuple(item[2])), nontrivial=True); res.count('two_connections_at_once')
        for which, idx in ((0, i), (1, j)):
            if out[which] != pairs[idx][2]:
                res.failures.append(dict(cls='delivery', what='with another connection alive in the same process (event loops advanced alternately %s) this connection\'s trace differs from what it delivers alone' % (item[2],),
                                         input=dict(duo=[item[0], item[1]], pattern=item[2], which=which), observed=out[which][-400:], expected=pairs[idx][2][-400:]))
    res.samples += [p[1][:400] for p in pairs[:3]]


def replay(rp):
    inp = rp.get('input')
    if isinstance(inp, dict) and 'duo' in inp:
        for t in coreutil.real_duo((inp['duo'][0], inp['duo'][1], inp['pattern'])):
            print(t[-2000:])
        return 0
    return coreutil.replay_core(rp)
