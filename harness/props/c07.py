"""C07 - every connection attempt yields a well-formed, finite event sequence."""
from __future__ import annotations
import json
import itertools, random
import runner, coreutil, gen_core
from coreutil import Scenario, events, reads
from refcodec import server_frame, close_payload

TRUSTED = ['correspondence: harness/world.py', 'monitor automaton in harness/props/c07.py written from the property text (independent of Lomond.Core.Mon.step, which the theorems use; the Lean automaton is slightly stricter: Rejected only before Ready, Unresponsive only after Ready and followed by nothing but Disconnected, Connected exactly once)']
ASSUMPTIONS = ['time advances only inside selector.wait (virtual clock)', 'every generated environment ends with a transport-ending step, so INCOMPLETE means the iterator did not terminate',
               'theorems quantify over every cfg, every application (any reaction to any event history, including abandoning the iterator) and every environment script; completeness (exactly one terminal event, last) is proved whenever run() returns, which it does unless the application abandons it or the script is exhausted (C07.run_outcomes, C07.terminates_after_transport_end)']

AFTER_READY = ('text', 'binary', 'ping', 'pong', 'poll', 'closing', 'closed')
TERMINAL = ('connect_fail', 'disconnected')


def monitor(trace):
    """returns None if the event sequence is well-formed, else a description"""
    tk = trace.split(' ')
    names = [t.split(':')[1] for t in tk if t.startswith('E:')]
    if any(t.startswith('ESCAPED') for t in tk):
        return 'exception escaped the iterator'
    if 'HANG' in tk:
        return 'the real code blocked (no progress in wall-clock time although all waiting is simulated): iteration never terminates'
    if 'INCOMPLETE' in tk:
        return 'iteration did not terminate although the transport ended'
    if not names or names[0] != 'connecting':
        return 'first event is not Connecting'
    if names.count('connecting') != 1:
        return 'Connecting more than once'
    if len(names) < 2:
        return 'nothing after Connecting'
    if names[1] == 'connect_fail':
        return None if len(names) == 2 else 'events after ConnectFail'
    if names[1] != 'connected':
        return 'second event is %s' % names[1]
    if names.count('ready') > 1:
        return 'Ready more than once'
    ready_at = names.index('ready') if 'ready' in names else None
    for i, n in enumerate(names):
        if n in AFTER_READY and (ready_at is None or i < ready_at):
            return '%s before Ready' % n
    terms = [i for i, n in enumerate(names) if n in TERMINAL]
    if len(terms) != 1:
        return '%d terminal events' % len(terms)
    if terms[0] != len(names) - 1:
        return 'terminal event is not last'
    if names[-1] == 'connect_fail':
        return 'ConnectFail after Connected'
    return None


def alphabet(sc):
    return {
        'good': ('wait', 0, ('data', sc.good_reply())),
        'reject': ('wait', 0, ('data', b'HTTP/1.1 500 X\r\n\r\n')),
        'garbage': ('wait', 0, ('data', b'\x00\x01garbage')),
        'text': ('wait', 0, ('data', server_frame(1, b'hi'))),
        'frag': ('wait', 0, ('data', server_frame(2, b'a', fin=0))),
        'cont': ('wait', 0, ('data', server_frame(0, b'b', fin=1))),
        'ping': ('wait', 0, ('data', server_frame(9, b'p'))),
        'close': ('wait', 0, ('data', server_frame(8, close_payload(1000, b'bye')))),
        'bad': ('wait', 0, ('data', server_frame(5, b''))),
        'silence': ('wait', 5, None),
        'eof': ('wait', 0, ('eof',)),
        'err': ('wait', 0, ('sockerr',)),
        'other': ('wait', 0, ('othererr',)),          # recv raises something that is not a socket error
        'selerr': ('selerr',),                        # the selector itself fails
        'oversize': ('wait', 0, ('data', b'X' * 16400)),     # more than the header limit without a terminator
    }


REACTION_PLANS = {
    'nothing': lambda k: {},
    'send-everywhere': lambda k: {i: [('send_text', ('s', [104, 105]), True)] for i in range(12)},
    'close-early': lambda k: {1: [('close', 1000, ('b', b'bye'))]},
    'close-at-ready': lambda k: {2: [('close', 1000, ('b', b'bye')), ('send_text', ('s', [120]), True)]},
    'close-late': lambda k: {4: [('close', 1001, ('b', b''))], 5: [('send_binary', ('b', b'z'), True)]},
    'session-close-at-ready': lambda k: {2: [('session_close',)], 3: [('send_text', ('s', [104]), True)]},
}


def explore(res, tier, seed, model_ok=True):
    rng = random.Random(seed)
    depth = 3 if tier == 'quick' else 4
    nrand = 400 if tier == 'quick' else 6000
    res.rule = ('exhaustive: every sequence of <= %d server steps over a 15-symbol alphabet (good/rejecting/garbage/oversize reply, text, fragment, continuation, ping, close, invalid frame, silence, EOF, recv socket error, recv other exception, selector error) '
                'x %d application reaction plans, always followed by EOF; random: %d histories of up to 10 steps with timers, write failures, connect failures, selector errors and random reactions; '
                'timeouts must end the iteration also when the Close/ping write fails and when the server trickles a frame that never completes; the ping timeout also when no automatic ping can be sent (closing with the close timeout disabled, every write failing); a write fault at each write index x each kind of call at Ready x with/without negotiated compression (a blocked call is detected by a wall-clock deadline: HANG); '
                'a read that fills the receive buffer exactly, then silence; a slow application (time passes inside a handler: longer than poll and than the timeouts) followed by silence - oracle only; judged by a monitor automaton written from the property; non-trivial = history reaching Ready or containing a fault; distinct by operation line') % (depth, len(REACTION_PLANS), nrand)
    scs = []
    base = Scenario([])
    alpha = alphabet(base)
    syms = sorted(alpha)
    for d in range(1, depth + 1):
        for seq in itertools.product(syms, repeat=d):
            if seq[0] not in ('good', 'reject', 'garbage', 'eof', 'err', 'silence', 'other', 'selerr', 'oversize'):
                continue        # frames before any reply are covered by 'garbage'
            for plan in REACTION_PLANS:
                env = [alpha[s] for s in seq] + [('wait', 1, ('eof',))]
                scs.append(Scenario(env, REACTION_PLANS[plan](0), prate=0))
    nexh = len(scs)
    res.exhaustive['histories_depth_le_%d' % depth] = nexh
    for i in range(nrand):
        scs.append(gen_core.gen_history(rng, n_steps=rng.randint(1, 10), timers=rng.random() < 0.5))
    # a timeout that has fired must end the iteration: silent server, no EOF in the script
    ntimeout = 0
    for close_at in (0, 1, 2, 3, 4):
        for ct in (2, 5, 9):
            for poll in (1, 5):
                b = Scenario([], poll=poll, prate=0, ctimeout=ct)
                env = [('wait', 0, ('data', b.good_reply()))] + [('wait', poll, None)] * ((ct // poll) + 4)
                scs.append(Scenario(env, {close_at: [('close', 1000, ('b', b'bye'))]}, poll=poll, prate=0, ctimeout=ct)); ntimeout += 1
                # the application keeps calling close() at every later event (no-ops): the timeout armed by the first call must still fire
                scs.append(Scenario(env, {i: [('close', 1000, ('b', b'bye'))] for i in range(close_at, close_at + 40)}, poll=poll, prate=0, ctimeout=ct)); ntimeout += 1
    for pt in (2, 4, 7):
        for poll in (1, 3):
            b = Scenario([], poll=poll, prate=2, ptimeout=pt)
            env = [('wait', 0, ('data', b.good_reply()))] + [('wait', poll, None)] * ((pt // poll) + 4)
            scs.append(Scenario(env, {}, poll=poll, prate=2, ptimeout=pt)); ntimeout += 1
    # ... also when the Close / the ping could not be written, and when the server keeps the socket readable with
    # bytes that never complete a frame (a 60000-byte frame arriving one byte per second)
    big = server_frame(2, b'z' * 60000)
    for ct in (2, 5):
        for poll in (1, 5):
            for wf in ((), (1,)):
                for trickle in (False, True):
                    if not wf and not trickle:
                        continue
                    b = Scenario([], poll=poll, prate=0, ctimeout=ct)
                    n = ct + 4 * poll + 4
                    tail = [('wait', 1, ('data', big[i:i + 1])) for i in range(n)] if trickle else [('wait', poll, None)] * n
                    scs.append(Scenario([('wait', 0, ('data', b.good_reply()))] + tail, {2: [('close', 1000, ('b', b'bye'))]}, poll=poll, prate=0, ctimeout=ct, wfail=wf)); ntimeout += 1
    for pt in (2, 4):
        for poll in (1, 3):
            for wf in ((), (1,), (2,)):
                for trickle in (False, True):
                    if not wf and not trickle:
                        continue
                    b = Scenario([], poll=poll, prate=2, ptimeout=pt)
                    n = pt + 4 * poll + 6
                    tail = [('wait', 1, ('data', big[i:i + 1])) for i in range(n)] if trickle else [('wait', poll, None)] * n
                    scs.append(Scenario([('wait', 0, ('data', b.good_reply()))] + tail, {}, poll=poll, prate=2, ptimeout=pt, wfail=wf)); ntimeout += 1
    # the ping timeout must fire also when the automatic pings themselves can not be sent: the application has called close() and
    # the server never answers (close timeout disabled: None and 0), or every write fails on a half-dead connection while the
    # receive side stays silent (ping_rate < ping_timeout, the documented recommendation)
    for pt in (4, 7):
        for poll in (1, 3):
            for zero in (False, True):
                b = Scenario([], poll=poll, prate=2, ptimeout=pt, ctimeout=0, zero=zero)
                env = [('wait', 0, ('data', b.good_reply()))] + [('wait', poll, None)] * ((pt // poll) + 8)
                scs.append(Scenario(env, {2: [('close', 1000, ('b', b'bye'))]}, poll=poll, prate=2, ptimeout=pt, ctimeout=0, zero=zero)); ntimeout += 1
            b = Scenario([], poll=poll, prate=2, ptimeout=pt, ctimeout=0)
            env = [('wait', 0, ('data', b.good_reply()))] + [('wait', poll, None)] * ((pt // poll) + 8)
            scs.append(Scenario(env, {}, poll=poll, prate=2, ptimeout=pt, ctimeout=0, wfail=set(range(1, 40)))); ntimeout += 1
    # a read that fills the receive buffer EXACTLY (65536 bytes: the end of one frame), then silence: the loop must go back to the
    # selector (a recv on the blocking socket would never return) and the timeouts must still end the iteration
    for ct, rx in ((5, {4: [('close', 1000, ('b', b'bye'))]}), (0, {})):
        for pt in (0, 6):
            b = Scenario([], poll=2, prate=(2 if pt else 0), ptimeout=pt, ctimeout=ct)
            full = server_frame(2, b'q' * (65536 - 4))
            assert len(full) == 65536
            env = [('wait', 0, ('data', b.good_reply())), ('wait', 1, ('data', full))] + [('wait', 2, None)] * 8 + [('wait', 1, ('eof',))]
            scs.append(Scenario(env, dict(rx), poll=2, prate=(2 if pt else 0), ptimeout=pt, ctimeout=ct)); ntimeout += 1
    res.count('timeout_must_terminate', ntimeout)
    # a failing write at every write index, for every kind of call the application makes at Ready, with and
    # without negotiated compression (the failing call must come back, the iteration must end)
    nwf = 0
    for ext in (b'', b'Sec-WebSocket-Extensions: permessage-deflate\r\n'):
        for acts in ([('send_text', ('s', [104, 105]), True)], [('send_binary', ('b', b'ab' * 40), True), ('send_text', ('s', [120]), False)],
                     [('send_ping', ('b', b'p'))], [('close', 1000, ('b', b'bye'))], [('send_text', ('s', [104]), True), ('close', 1001, ('b', b''))]):
            for wf in ((1,), (2,), (1, 2)):
                for after in ('silence', 'ping', 'close'):
                    b = Scenario([], prate=0, ctimeout=5, compress=bool(ext))
                    nxt = {'silence': [('wait', 5, None)] * 3, 'ping': [('wait', 0, ('data', server_frame(9, b'q')))] + [('wait', 5, None)] * 3,
                           'close': [('wait', 0, ('data', server_frame(8, close_payload(1000, b''))))]}[after]
                    scs.append(Scenario([('wait', 0, ('data', b.good_reply(ext)))] + nxt + [('wait', 1, ('eof',))], {2: acts}, prate=0, ctimeout=5, compress=bool(ext), wfail=wf)); nwf += 1
    res.count('write_fault_at_each_call', nwf)
    # a SLOW application: it spends longer than the poll interval (and than the timeouts) inside a handler, then the server is silent.
    # Whatever the loop computes from the clock afterwards (a wait shorter than poll, zero, but never negative - a negative timeout
    # makes poll(2) wait for ever), the timeouts must still end the iteration.  Oracle only (the model's applications take no time).
    slow = []
    for poll in (1, 5):
        for at in (2, 3, 4):
            for dt in (poll + 1, 3 * poll, 40):
                for ct, pt in ((5, 0), (0, 6), (5, 6), (0, 0)):
                    b = Scenario([], poll=poll, prate=(2 if pt else 0), ptimeout=pt, ctimeout=ct)
                    env = [('wait', 0, ('data', b.good_reply()))] + [('wait', poll, None)] * 14 + [('wait', 1, ('eof',))]
                    rx = {at: [('sleep', dt)]}
                    if ct:
                        rx[at] = [('sleep', dt), ('close', 1000, ('b', b'bye'))]
                    slow.append(Scenario(env, rx, poll=poll, prate=(2 if pt else 0), ptimeout=pt, ctimeout=ct))
    sjs = [coreutil.scenario_to_json(s_) for s_ in slow]
    for js_, real_ in zip(sjs, runner.parallel_map('coreutil', 'real_one', sjs)):
        if isinstance(real_, dict):
            res.crashes.append(real_); continue
        res.case(('slow', json.dumps(js_, sort_keys=True)[-160:]), nontrivial=True); res.count('slow_application_oracle_only')
        why = monitor(real_)
        if why:
            res.failures.append(dict(cls='monitor', what='slow application (time passes inside a handler): ' + why, input=dict(slow=js_), scenario=js_, observed=[e[:60] for e in events(real_)][-8:]))
    pairs = coreutil.run_pairs(scs, model_ok)
    for k, (js, line, real, model) in enumerate(pairs):
        if isinstance(real, dict):
            res.crashes.append(real); continue
        res.case(line, nontrivial=('E:ready' in real or 'WF:' in real or 'connect_fail' in real))
        res.count('reaches_ready' if 'E:ready' in real else 'no_ready')
        for n in ('rejected', 'protocol_error', 'closing', 'closed', 'unresponsive'):
            if 'E:' + n in real:
                res.count(n)
        why = monitor(real)
        if why:
            res.failures.append(dict(cls='monitor', what=why, input=line[:3000], scenario=js, observed=[e[:60] for e in events(real)][-8:]))
    coreutil.check_corr(res, pairs)
    res.samples += [pairs[5][1][:300], pairs[nexh][1][:400]]


def replay(rp):
    if isinstance(rp.get('input'), dict) and 'slow' in rp['input']:
        print(coreutil.real_one(rp['input']['slow'])[-2000:])
        return 0
    return coreutil.replay_core(rp)
