"""Differential test of the translator harness/py2lean.py.

Every definition of lean/Lomond/Generated/Code.lean is evaluated through the driver
(`gen <name> <args…>`, lean/Lomond/Model/Driver.lean) and compared with what the *original Python*
does on the same inputs -- not with a re-execution of the translated slice: each `py_<name>` below
reaches the site through the real lomond entry point (Frame.build, FrameParser.feed,
WebsocketSession._check_*, persist(), WebSocket.close, Deflate.get_wbits, …) with fakes only for
what lies outside (socket, session, random(), zlib.compressobj).

Inputs: every boundary the companion proofs case-split on, small exhaustive ranges, and seeded
random values.  A disagreement goes to `res.diffs` with input 'gen <name> …' (correspondence broken:
the check then reports a VIOLATION ... no-failing-input-found unless the property's own oracle
finds a failing input).

Line protocol: Nat/Int decimal, Bool 0/1, Option `N`, Rat n/d, Bytes x<hex>, str u<code points,
dotted>, dict d<key>=<value>;.., an external function (int(), a codec) as the table of the values
it takes where the real code applies it f<argument>:<value>;..; results: tuples comma-separated,
Bool True/False, Unit None, `ok:<v>` / `raise:<Class>:<text>` for definitions that can raise (a
`{..}` of a `.format` template matches anything).
"""
from __future__ import annotations
import random, re, types
from fractions import Fraction
import runner

GROUPS = {
    'C01': ['messageBuildInflate', 'messageBuildKind', 'streamOnFrame', 'textFromPayload'],
    'C05': ['frameIsText', 'frameIsContinuation', 'parseReadText', 'parseReader', 'parserOnFrame', 'clientOnFrameGuard'],
    'C06': ['deflateWbitsCheck', 'deflateCompressorWbits', 'deflateGetWbits', 'deflateFromOptions', 'wsSendBinary', 'wsSendText'],
    'C08': ['sessionCheckWritable', 'sessionWrite', 'sessionSendClosing', 'wsOnDisconnect', 'wsOnClose', 'closeFromPayload',
            'wsFeedGuard', 'wsIsActive'],
    'C12': ['sessionCheckWritable', 'sessionWrite', 'wsOnDisconnect', 'wsOnClose'],
    'C03': ['frameBuildMaskBit', 'frameBuildByte0', 'frameBuildHeader', 'frameBuildClosePayload',
            'wsSendPingGuard', 'wsSendPongGuard', 'wsClose',
            'sessionSendCompressedFrame', 'frameToBytes', 'frameMakeMaskingKey', 'frameBuildKey', 'wsSendJson'],
    'C04': ['frameIsControl', 'opcodeIsReserved', 'frameValidateReservedBits', 'compressedFrameValidateReservedBits',
            'frameValidate', 'compressedFrameValidate', 'parseFields', 'parseLenExt', 'parseTooLarge',
            'parseChecksFrame', 'parseChecksCompressed', 'clientOnFrameGuard'],
    'C15': ['sessionCheckPoll', 'sessionCheckAutoPing', 'sessionCheckPingTimeout', 'sessionCheckCloseTimeout',
            'sessionOnEvent', 'sessionOnPong', 'sessionOnReady', 'sessionSessionTime'],
    'C16': ['persistRetriesInit', 'persistRetriesNext', 'persistAfterEvent', 'persistWaitFor'],
    'C10': ['wsDefaultPort', 'deflateWbitsCheck', 'deflateCompressorWbits', 'deflateGetWbits', 'deflateFromOptions',
            'responseGetStr', 'responseGetOpt', 'wsOnResponse', 'readUntilCheckLength', 'feedReadUntil'],
    'C18': ['selectorWait'],
    'C19': ['proxyDefaultPort', 'wsDefaultPort', 'sessionConnectProxy'],
}

LEN_EDGES = [0, 1, 2, 123, 124, 125, 126, 127, 128, 129, 130, 255, 256, 65534, 65535, 65536, 65537, 70000,
             (1 << 31) - 1, 1 << 31, (1 << 32) + 5, (1 << 62), (1 << 63) - 2, (1 << 63) - 1]


# ---------------------------------------------------------------------------------------------
# canonical printing (must agree with Py.Render in lean/Lomond/Model/PyOps.lean)

class Opt(object):
    """a value of an Option type (None prints as N, not as the Unit value None)"""
    def __init__(self, v):
        self.v = v


def show(v):
    if v is None:
        return 'None'
    if isinstance(v, bool):
        return 'True' if v else 'False'
    if isinstance(v, (bytes, bytearray)):
        return 'x' + bytes(v).hex()
    if isinstance(v, str):
        return ('x' + ''.join('%02x' % ord(c) for c in v)) if all(ord(c) < 256 for c in v) else 'u' + dotted(v)
    if isinstance(v, Opt):
        return 'N' if v.v is None else show(v.v)
    if isinstance(v, tuple):
        return ','.join(show(x) for x in v)
    if isinstance(v, Fraction):
        return '%d/%d' % (v.numerator, v.denominator)
    if isinstance(v, float):
        return show(Fraction(v))
    return str(v)


class Fn(dict):
    """an external function as the finite table of its values (argument -> value)"""


def dotted(x):
    return '.'.join(str(c) for c in (x if isinstance(x, (bytes, bytearray)) else [ord(c) for c in x]))


def arg(v):
    if v is None:
        return 'N'
    if isinstance(v, Fn):
        return 'f' + ';'.join('%s:%s' % (dotted(k), arg(x)) for k, x in v.items())
    if isinstance(v, dict):
        return 'd' + ';'.join('%s=%s' % (dotted(k), dotted(x)) for k, x in v.items())
    if isinstance(v, str):
        return 'u' + dotted(v)
    if isinstance(v, bool):
        return '1' if v else '0'
    if isinstance(v, (bytes, bytearray)):
        return 'x' + bytes(v).hex()
    if isinstance(v, Fraction):
        return '%d/%d' % (v.numerator, v.denominator)
    return str(v)


def attempt(fn):
    """'ok:<value>' or 'raise:<Class>:<text>'"""
    try:
        return 'ok:' + show(fn())
    except Exception as e:  # noqa - the class and text are the observation
        return 'raise:%s:%s' % (type(e).__name__, e)


def _first_reads(v):
    """a log of flag READS only (`ok:x0201..`, codes 01 = closed, 02 = closing) reduced to the order in which each flag is first
    read: reading a flag again with no store in between (a debug line, a repeated check) returns the same value in the
    sequential runs compared here; what the racing threads make of a second read is the business of the C11/C12 schedules"""
    m = re.fullmatch(r'ok:x((?:01|02)+)', v)
    if not m:
        return None
    codes = re.findall('..', m.group(1))
    return [c for i, c in enumerate(codes) if c not in codes[:i]]


def same(py, lean):
    if py == lean:
        return True
    if _first_reads(py) is not None and _first_reads(py) == _first_reads(lean):
        return True
    if lean.startswith('raise:') and re.search(r'\{[^{}]*\}', lean):
        pat = '.*'.join(re.escape(p) for p in re.split(r'\{[^{}]*\}', lean))
        return re.fullmatch(pat, py, re.S) is not None
    return False


# ---------------------------------------------------------------------------------------------
# the original Python, reached through real entry points

class FakeLen(object):
    """a payload of a given length that costs nothing (Frame.build only takes len() and bytes())"""
    def __init__(self, n):
        self.n = n

    def __len__(self):
        return self.n

    def __bytes__(self):
        return b''


def py_frameBuildMaskBit(mask):
    from lomond.frame import Frame
    return Frame.build(2, b'', mask=mask, masking_key=b'\0\0\0\0')[1]


def py_frameBuildByte0(fin, rsv1, rsv2, rsv3, opcode):
    from lomond.frame import Frame
    return Frame.build(opcode, b'', fin=fin, rsv1=rsv1, rsv2=rsv2, rsv3=rsv3, mask=False)[0]


def py_frameBuildHeader(byte0, mask_bit, length):
    from lomond.frame import Frame
    kw = dict(fin=byte0 >> 7, rsv1=(byte0 >> 6) & 1, rsv2=(byte0 >> 5) & 1, rsv3=(byte0 >> 4) & 1)
    def go():
        if mask_bit:
            data = Frame.build(byte0 & 15, b'\0' * length, mask=True, masking_key=b'\0\0\0\0', **kw)
            return data[:len(data) - length - 4]
        return Frame.build(byte0 & 15, FakeLen(length), mask=False, **kw)
    return attempt(go)


def py_frameBuildClosePayload(status, reason):
    from lomond.frame import Frame
    return Frame.build_close_payload(status, bytes(reason))


class FakeSession(object):
    session_time = 7.0

    def __init__(self):
        self.sent = []

    def send(self, opcode, data):
        self.sent.append((opcode, bytes(data)))


def fake_ws(closed=False, closing=False):
    from lomond.websocket import WebSocket
    ws = WebSocket('ws://example.org/')
    ws.state.session = FakeSession()
    ws.state.closed, ws.state.closing = closed, closing
    return ws


def py_guard(method, is_bytes, data):
    ws = fake_ws()
    return attempt(lambda: getattr(ws, method)(bytes(data) if is_bytes else bytearray(data)))


def py_wsSendPingGuard(is_bytes, data):
    return py_guard('send_ping', is_bytes, data)


def py_wsSendPongGuard(is_bytes, data):
    return py_guard('send_pong', is_bytes, data)


def py_wsClose(is_closed, is_closing, code, reason):
    ws = fake_ws(is_closed, is_closing)
    def go():
        ws.close(code, bytes(reason))
        return bool(ws.state.session.sent)
    return attempt(go)


def py_frameIsControl(opcode):
    from lomond.frame import Frame
    return Frame(opcode).is_control


def py_opcodeIsReserved(opcode):
    from lomond.opcode import is_reserved
    return is_reserved(opcode)


def py_frameValidateReservedBits(rsv1, rsv2, rsv3):
    from lomond.frame import Frame
    return attempt(Frame(1, rsv1=rsv1, rsv2=rsv2, rsv3=rsv3).validate_reserved_bits)


def py_compressedFrameValidateReservedBits(rsv1, rsv2, rsv3):
    from lomond.frame import CompressedFrame
    return attempt(CompressedFrame(1, rsv1=rsv1, rsv2=rsv2, rsv3=rsv3).validate_reserved_bits)


def py_frameValidate(fin, rsv1, rsv2, rsv3, opcode, payload):
    from lomond.frame import Frame
    return attempt(Frame(opcode, bytes(payload), fin=fin, rsv1=rsv1, rsv2=rsv2, rsv3=rsv3).validate)


def py_compressedFrameValidate(fin, rsv1, rsv2, rsv3, opcode, payload):
    from lomond.frame import CompressedFrame
    return attempt(CompressedFrame(opcode, bytes(payload), fin=fin, rsv1=rsv1, rsv2=rsv2, rsv3=rsv3).validate)


def parse_one(b1, b2):
    """feed the real parser (no validation) byte by byte until it yields a frame;
    extended length bytes and mask key are zero, so a 126/127 frame has an empty payload"""
    from lomond.frame_parser import FrameParser
    p = FrameParser(parse_headers=False, validate=False)
    data = bytes([b1, b2]) + b'\0' * 160
    for i in range(len(data)):
        for f in p.feed(data[i:i + 1]):
            return f, i + 1
    raise AssertionError('no frame')


def py_parseFields(b1, b2):
    """(fin, rsv1, rsv2, rsv3, opcode, mask_bit, payload_length) as the real parser sees them:
    flags from the frame, mask bit and 7-bit length from the number of bytes the frame consumed"""
    f, used = parse_one(b1, b2)
    rest = used - 2 - (4 if f.mask else 0)
    if len(f.payload) == 0 and rest in (2, 8):
        len7 = 126 if rest == 2 else 127
    else:
        len7 = rest
    return (f.fin, f.rsv1, f.rsv2, f.rsv3, f.opcode, 1 if f.mask else 0, len7)


def py_parseLenExt(len7):
    f, used = parse_one(0x82, len7)
    return used - 2 - len(f.payload)


def header_bytes(fin, rsv1, rsv2, rsv3, opcode, mask_bit, length):
    import struct
    b0 = fin << 7 | rsv1 << 6 | rsv2 << 5 | rsv3 << 4 | opcode
    m = 0x80 if mask_bit else 0
    if length < 126:
        h = struct.pack('!BB', b0, m | length)
    elif length < 65536:
        h = struct.pack('!BBH', b0, m | 126, length)
    else:
        h = struct.pack('!BBQ', b0, m | 127, length)
    return h + (b'\1\2\3\4' if mask_bit else b'')


def py_checks(compressed, validate, fin, rsv1, rsv2, rsv3, opcode, mask_bit, length):
    from lomond.frame_parser import FrameParser
    p = FrameParser(parse_headers=False, validate=validate)
    if compressed:
        p.enable_compression()
    def go():
        for _ in p.feed(header_bytes(fin, rsv1, rsv2, rsv3, opcode, mask_bit, length)):
            pass
        return None
    return attempt(go)


def py_parseChecksFrame(*a):
    return py_checks(False, *a)


def py_parseChecksCompressed(*a):
    return py_checks(True, *a)


def py_parseTooLarge(length):
    return py_checks(False, False, 1, 0, 0, 0, 2, 0, length)


def fake_session(**attrs):
    # a REAL session object (created without __init__), so that helper methods a refactoring introduces resolve on it
    from lomond.session import WebsocketSession
    pings = []
    ws = types.SimpleNamespace(send_ping=lambda: pings.append(1), sent_close_time=attrs.pop('sent_close_time', None))
    s = object.__new__(WebsocketSession)
    s.websocket, s.pings = ws, pings
    for k, v in attrs.items():
        setattr(s, k, v)
    return s


def fl(x):
    return None if x is None else float(x)


def py_sessionCheckPoll(poll, t, poll_start):
    from lomond.session import WebsocketSession
    s = fake_session(_poll_start=fl(poll_start))
    r = WebsocketSession._check_poll(s, float(poll), float(t))
    return (r, None if s._poll_start is None else int(s._poll_start))


def py_sessionCheckAutoPing(rate, t, nxt, none_for_zero=False):
    from lomond.session import WebsocketSession
    s = fake_session(_next_ping=float(nxt))
    WebsocketSession._check_auto_ping(s, None if (none_for_zero and rate == 0) else float(rate), float(t))
    return (bool(s.pings), int(s._next_ping))


def py_sessionCheckPingTimeout(timeout, t, last, none_for_zero=False):
    from lomond.session import WebsocketSession
    s = fake_session(_last_pong=float(last))
    return WebsocketSession._check_ping_timeout(s, None if (none_for_zero and timeout == 0) else float(timeout), float(t))


def py_sessionCheckCloseTimeout(timeout, t, sent, none_for_zero=False):
    from lomond.session import WebsocketSession
    s = fake_session(sent_close_time=fl(sent))
    return attempt(lambda: WebsocketSession._check_close_timeout(
        s, None if (none_for_zero and timeout == 0) else float(timeout), float(t)))


class CapturedConnect(Exception):
    pass


def py_proxyDefaultPort(port, https):
    from lomond.session import WebsocketSession
    def connect_sock(host, port_, ssl=False):
        raise CapturedConnect(port_)
    s = object.__new__(WebsocketSession)
    s._connect_sock = connect_sock
    url = '%s://proxy.example%s' % ('https' if https else 'http', '' if port is None else ':%d' % port)
    try:
        WebsocketSession._connect_proxy(s, url)
    except CapturedConnect as e:
        return e.args[0]
    raise AssertionError('no connect')


def py_wsDefaultPort(port, secure):
    from lomond.websocket import WebSocket
    return WebSocket('%s://example.org%s/x' % ('wss' if secure else 'ws', '' if port is None else ':%d' % port)).port


def py_deflateWbitsCheck(wbits):
    from lomond.compression import Deflate
    return attempt(lambda: Deflate.get_wbits({'k': str(wbits)}, 'k'))


def py_deflateCompressorWbits(w):
    import lomond.compression as c
    seen = []
    real = c.zlib
    c.zlib = types.SimpleNamespace(compressobj=lambda *a: seen.append(a), Z_DEFAULT_COMPRESSION=real.Z_DEFAULT_COMPRESSION, DEFLATED=real.DEFLATED)
    try:
        d_ = object.__new__(c.Deflate)
        d_.compress_wbits = w
        c.Deflate.reset_compressor(d_)
    finally:
        c.zlib = real
    return seen[0][2]


# ---- frame_parser.py: text state, payload reader, on_frame ---------------------------------------

def py_frameIsText(opcode):
    from lomond.frame import Frame
    return Frame(opcode).is_text


def py_frameIsContinuation(opcode):
    from lomond.frame import Frame
    return Frame(opcode).is_continuation


def reader_code(awaitable):
    from lomond.parser import _ReadUtf8, _ReadBytes
    return 2 if isinstance(awaitable, _ReadUtf8) else 1 if isinstance(awaitable, _ReadBytes) else 99


def py_parseReadText(compression, is_compressed):
    from lomond.frame_parser import FrameParser
    p = FrameParser(parse_headers=False)
    p._compression, p._is_compressed = compression, is_compressed
    return reader_code(p.read_text(5))


def py_parseReader(opcode, rsv1, length, is_text, is_compressed, compression):
    """the real parser fed a header (no validation): which awaitable it asks for the payload with,
    and its text state at that point (for an empty payload: when on_frame is entered)"""
    from lomond.frame_parser import FrameParser
    class Probe(FrameParser):
        def on_frame(self, frame):
            self.seen = (self._is_text, self._is_compressed)
    p = Probe(parse_headers=False, validate=False)
    if compression:
        p.enable_compression()
    p._is_text, p._is_compressed = is_text, is_compressed
    frames = list(p.feed(header_bytes(1, rsv1, 0, 0, opcode, 0, length)))
    if frames:
        return (0,) + p.seen
    if p._awaiting.remaining != length:
        raise AssertionError('parser does not wait for the payload')
    return (reader_code(p._awaiting), p._is_text, p._is_compressed)


def py_parserOnFrame(compression, is_compressed, is_text, fin, opcode):
    from lomond.frame_parser import FrameParser
    from lomond.frame import Frame
    p = FrameParser(parse_headers=False)
    p._compression, p._is_compressed, p._is_text = compression, is_compressed, is_text
    resets = []
    p._utf8_validator = types.SimpleNamespace(reset=lambda: resets.append(1))
    FrameParser.on_frame(p, Frame(opcode, fin=fin, mask=False))
    return (bool(resets), p._is_text)


def py_clientOnFrameGuard(mask):
    from lomond.frame_parser import ClientFrameParser
    from lomond.frame import Frame
    import logging
    p = ClientFrameParser(parse_headers=False)
    logging.disable(logging.CRITICAL)            # the site logs a warning before it raises
    try:
        return attempt(lambda: p.on_frame(Frame(2, fin=1, mask=mask, masking_key=b'\1\2\3\4' if mask else None)))
    finally:
        logging.disable(logging.NOTSET)


# ---- session.py / websocket.py: the state flags -----------------------------------------------------

class RecState(object):
    """a WebSocket.State whose `closed` / `closing` accesses are recorded: read 1 / 2, write 11 / 12"""
    def __init__(self, log, **values):
        object.__setattr__(self, '_log', log)
        object.__setattr__(self, '_v', dict(dict(session=None, sent_close_time=None, compression=None), **values))

    def __getattr__(self, k):
        if k in ('closed', 'closing'):
            self._log.append(1 if k == 'closed' else 2)
        return self._v[k]

    def __setattr__(self, k, v):
        if k in ('closed', 'closing'):
            self._log.append(11 if k == 'closed' else 12)
        self._v[k] = v


def real_ws():
    from lomond.websocket import WebSocket
    return WebSocket('ws://example.org/')


def real_session(ws, no_sock, sent):
    from lomond.session import WebsocketSession
    s = WebsocketSession(ws)
    s._sock = None if no_sock else types.SimpleNamespace(sendall=lambda data: sent.append(bytes(data)))
    return s


def py_sessionCheckWritable(no_sock, closed, closing):
    ws, log = real_ws(), []
    ws.state = RecState(log, closed=closed, closing=closing)
    s = real_session(ws, no_sock, [])
    def go():
        s._check_writable()
        return bytes(log)
    return attempt(go)


def py_sessionWrite(no_sock, closed, is_closing, closing):
    ws, sent = real_ws(), []
    ws.state.closed, ws.state.closing = closed, is_closing
    s = real_session(ws, no_sock, sent)
    def go():
        if closing:
            s.write(b'x', closing=True)
        else:
            s.write(b'x')
        return (bool(sent), ws.state.closing)
    return attempt(go)


def py_sessionSendClosing(opcode):
    ws, seen = real_ws(), []
    s = real_session(ws, False, [])
    s.write = lambda data, closing=False: seen.append(closing)
    s.send(opcode, b'')
    return seen[0]


def py_sessionSendCompressedFrame(opcode, z):
    """the Frame object `send_compressed` constructs, seen where it is turned into bytes"""
    import lomond.session as S
    ws, seen = real_ws(), []
    s = real_session(ws, False, [])

    class Spy(S.Frame):
        __slots__ = []

        def to_bytes(self):
            seen.append(self)
            return b''
    saved = S.Frame
    S.Frame = Spy
    try:
        s.send_compressed(opcode, b'plain text', lambda data: z)
    finally:
        S.Frame = saved
    f, = seen
    return (f.opcode, bytes(f.payload), f.fin, f.rsv1, f.rsv2, f.rsv3, f.mask, Opt(f.masking_key))


def py_frameToBytes(opcode, payload, fin, rsv1, rsv2, rsv3, mask, masking_key):
    """the arguments `Frame.build` is entered with from `to_bytes` (bound by build's own signature)"""
    import inspect
    from lomond.frame import Frame
    orig = Frame.__dict__['build']
    sig = inspect.signature(orig.__func__)
    seen = []

    def spy(cls, *a, **kw):
        b = sig.bind(cls, *a, **kw)
        b.apply_defaults()
        seen.append(b.arguments)
        return b''
    Frame.build = classmethod(spy)
    try:
        Frame(opcode, payload=payload, fin=fin, rsv1=rsv1, rsv2=rsv2, rsv3=rsv3, mask=mask, masking_key=masking_key).to_bytes()
    finally:
        Frame.build = orig
    a, = seen
    return (a['opcode'], bytes(a['payload']), a['fin'], a['rsv1'], a['rsv2'], a['rsv3'], a['mask'], Opt(a['masking_key']))


def py_frameMakeMaskingKey(urandom):
    """`make_masking_key()` as frame.py sees it: a functools.partial over os.urandom, applied to the table"""
    import os
    import lomond.frame as F
    mk = F.make_masking_key
    if mk.func is not os.urandom:
        raise AssertionError('make_masking_key is not a partial of os.urandom')
    return urandom[bytes(mk.args)] if not mk.keywords and all(0 <= x < 256 for x in mk.args) else None


def py_frameBuildKey(masking_key, fresh):
    """the key `Frame.build` uses, read back from the frame it returns (4-byte keys)"""
    import lomond.frame as F
    saved = F.make_masking_key
    F.make_masking_key = lambda: fresh
    try:
        data = F.Frame.build(2, b'', masking_key=masking_key)
    finally:
        F.make_masking_key = saved
    return bytes(data[2:])


def py_wsSendJson(has_obj, has_kwargs):
    import lomond.websocket as W
    ws, dumped, sent = real_ws(), [], []
    obj, kw = ['positional'], ({'k': 1} if has_kwargs else {})
    ws.send_text = lambda text, *a, **k: sent.append((text, a, k))
    saved = W.json
    W.json = types.SimpleNamespace(dumps=lambda o: dumped.append(o) or 'TEXT')
    def go():
        if has_obj:
            ws.send_json(obj, **kw)
        else:
            ws.send_json(**kw)
        which = 0 if not dumped else 1 if dumped[0] is obj else 2 if dumped[0] == kw else 3
        # send_text(<what json.dumps returned>) with no `compress` argument (its default applies)
        return (which, sent == [('TEXT', (), {})])
    try:
        return attempt(go)
    finally:
        W.json = saved


def py_wsOnDisconnect(has_session, closed, closing, explicit=False):
    ws, log, closes = real_ws(), [], []
    st = RecState(log, closed=closed, closing=closing,
                  session=types.SimpleNamespace(close=lambda: closes.append(1)) if has_session else None)
    if explicit:
        ws.on_disconnect(st)
    else:
        ws.state = st
        ws.on_disconnect()
    return (bool(closes), st._v['closed'], st._v['closing'], bytes(log))


def py_wsOnClose(code, closed, closing):
    ws, log, echo = real_ws(), [], []
    st = RecState(log, closed=closed, closing=closing)
    ws.state = st
    ws.close = lambda code=None, reason=None: echo.append((code, reason))
    def go():
        names = [type(e).__name__ for e in ws._on_close(types.SimpleNamespace(code=code, reason='why'))]
        event = {(): 0, ('Closed',): 1, ('Closing',): 2}[tuple(names)]
        if echo and echo != [(code, 'why')]:
            raise AssertionError('close() called with other arguments')
        return (event, bool(echo), st._v['closed'], st._v['closing'], bytes(log))
    return attempt(go)


# ---- the upgrade reply ---------------------------------------------------------------------------------

def fake_response(status_code, headers):
    from lomond.response import Response
    r = Response(b'HTTP/1.1 101 Switching Protocols\r\n\r\n')
    r.status_code, r.headers = status_code, dict(headers)
    return r


def py_responseGetStr(headers, name, default):
    return show(fake_response(101, headers).get(name, default))


def py_responseGetOpt(headers, name, default, omit=False):
    r = fake_response(101, headers)
    return Opt(r.get(name) if omit else r.get(name, default))


def py_wsOnResponse(status_code, headers, challenge):
    import lomond.websocket as W
    ws = real_ws()
    ws.process_extensions = lambda extensions: set()
    real = W.b64encode
    W.b64encode = lambda data: challenge.encode('ascii')
    try:
        return attempt(lambda: Opt(ws.on_response(fake_response(status_code, headers))[0]))
    finally:
        W.b64encode = real


def py_int(s):
    try:
        return int(s)
    except ValueError:
        return None


def py_deflateGetWbits(options, key, int_):
    from lomond.compression import Deflate
    return attempt(lambda: Deflate.get_wbits(dict(options), key))


def py_deflateFromOptions(options, int_):
    from lomond.compression import Deflate
    def go():
        d = Deflate.from_options(dict(options))
        return (d.decompress_wbits, d.compress_wbits, d.reset_decompress, d.reset_compress)
    return attempt(go)


# ---- message.py ----------------------------------------------------------------------------------------

def py_messageBuildInflate(rsv1, decompress):
    from lomond.message import Message
    from lomond.frame import Frame
    calls = []
    def inflater(frames):
        calls.append(1)
        return b'zz'
    Message.build([Frame(2, payload=b'ab', rsv1=rsv1)], decompress=inflater if decompress else None)
    return bool(calls)


def py_messageBuildKind(opcode):
    from lomond.message import Message
    from lomond.frame import Frame
    m = Message.build([Frame(opcode, payload=b'')])
    return {'Message': 0, 'Binary': 1, 'Text': 2, 'Close': 3, 'Ping': 4, 'Pong': 5}[type(m).__name__]


def py_closeFromPayload(payload, utf8_valid, decode):
    from lomond.message import Close
    def go():
        m = Close.from_payload(bytes(payload))
        return (Opt(m.code), m.reason)
    return attempt(go)


def utf8_tables(payload):
    """the two external functions of Close.from_payload at the argument they are applied to"""
    from lomond.utf8validator import Utf8Validator
    rest = bytes(payload[2:])
    try:
        dec = rest.decode('utf-8')
    except UnicodeDecodeError:
        dec = None
    return Fn({rest: bool(Utf8Validator().validate(rest)[0])}), Fn({rest: dec})


# ---- parser.py -----------------------------------------------------------------------------------------

def py_readUntilCheckLength(max_bytes, pos):
    from lomond.parser import _ReadUntil
    return attempt(lambda: _ReadUntil(b'\r\n\r\n', max_bytes=max_bytes).check_length(pos))


SEPS = {1: b'\n', 2: b'\r\n', 4: b'\r\n\r\n'}


def py_feedReadUntil(max_bytes, sep_index, sep_len, buffer_len, first=0):
    """the real Parser.feed awaiting read_until(sep, max_bytes) with a buffer of buffer_len bytes
    (the first `first` of them fed by an earlier call) in which sep starts at sep_index (-1: absent);
    observed: the length of what the parser is sent"""
    from lomond.parser import Parser
    sep = SEPS[sep_len]
    class P(Parser):
        def parse(self):
            data = yield self.read_until(sep, max_bytes=max_bytes)
            yield data
            while True:
                yield self.read(1)
    if sep_index < 0:
        data = b'a' * buffer_len
    else:
        data = b'a' * sep_index + sep + b'b' * (buffer_len - sep_index - sep_len)
    if len(data) != buffer_len or first >= len(data):
        raise AssertionError('inconsistent case')
    p = P()
    def go():
        out = list(p.feed(data[:first])) if first else []
        if out:
            raise AssertionError('separator in the first part')
        out = list(p.feed(data[first:]))
        return len(out[0]) if out else -1
    return attempt(go)


# ---- sites added by helper SITES: event bookkeeping, feed guard, send decisions, stream fragments, Text, selector, proxy choice ----

# the lomond event class a model event name stands for (Proofs/GenTie2.lean `evName`): the generated definition is
# handed the model's name, the original Python a real object of the class, so a renamed `name` attribute shows
MODEL_EVENT_CLASS = {'connecting': 'Connecting', 'connect_fail': 'ConnectFail', 'connected': 'Connected', 'ready': 'Ready',
                     'rejected': 'Rejected', 'text': 'Text', 'binary': 'Binary', 'ping': 'Ping', 'pong': 'Pong', 'closing': 'Closing',
                     'closed': 'Closed', 'protocol_error': 'ProtocolError', 'poll': 'Poll', 'unresponsive': 'Unresponsive',
                     'disconnected': 'Disconnected'}


def py_sessionOnEvent(name, auto_pong, ready, default_auto_pong=False):
    from lomond.session import WebsocketSession
    from lomond import events
    if name in MODEL_EVENT_CLASS:
        event = object.__new__(getattr(events, MODEL_EVENT_CLASS[name]))
    else:
        event = types.SimpleNamespace(name=name)
    calls = []
    s = fake_session(_ready=ready)
    s._on_ready = lambda: calls.append(1)
    s._send_pong = lambda e: calls.append(2 if e is event else 99)
    s._on_pong = lambda e: calls.append(3 if e is event else 99)
    if default_auto_pong:
        WebsocketSession._on_event(s, event)
    else:
        WebsocketSession._on_event(s, event, auto_pong)
    if len(calls) > 1:
        raise AssertionError('more than one handler')
    return (calls[0] if calls else 0, s._ready)


class patched_time(object):
    """`time.time()` as session.py sees it returns `now`"""
    def __init__(self, now):
        self.now = now

    def __enter__(self):
        import lomond.session as S
        self.saved = S.time
        S.time = types.SimpleNamespace(time=lambda: float(self.now))

    def __exit__(self, *a):
        import lomond.session as S
        S.time = self.saved


def py_sessionOnPong(session_time, last_pong):
    from lomond.session import WebsocketSession
    s = fake_session(_last_pong=float(last_pong), _start_time=0.0)
    with patched_time(session_time):            # the real property: session_time = time.time() - 0.0
        WebsocketSession._on_pong(s, types.SimpleNamespace(name='pong', data=b''))
    return int(s._last_pong)


def py_sessionOnReady(last_pong, next_ping, start_time, now):
    from lomond.session import WebsocketSession
    s = fake_session(_last_pong=float(last_pong), _next_ping=float(next_ping), _start_time=fl(start_time))
    with patched_time(now):
        WebsocketSession._on_ready(s)
    return (int(s._last_pong), int(s._next_ping), Opt(None if s._start_time is None else int(s._start_time)))


def py_sessionSessionTime(start_time, now):
    s = fake_session(_start_time=fl(start_time))
    with patched_time(now):
        t = s.session_time
    if t != int(t):
        raise AssertionError('not an integer time')
    return int(t)


def py_wsFeedGuard(closed, closing):
    ws, fed = real_ws(), []
    ws.state.closed, ws.state.closing = closed, closing
    ws.state.stream = types.SimpleNamespace(feed=lambda data: fed.append(bytes(data)) or [])
    if list(ws.feed(b'x')):
        raise AssertionError('events from an empty stream')
    return bool(fed)


def py_wsIsActive(closed, closing):
    ws = real_ws()
    ws.state.closed, ws.state.closing = closed, closing
    return ws.is_active


class SendSpy(object):
    session_time = 7.0

    def __init__(self):
        self.calls = []

    def send(self, opcode, data):
        self.calls.append((1, opcode, bytes(data), None))

    def send_compressed(self, opcode, data, compress):
        self.calls.append((2, opcode, bytes(data), compress))


def py_send_data(method, good, bad, want, typed_ok, compress, compression, default_compress):
    ws = real_ws()
    spy = ws.state.session = SendSpy()
    compressor = types.SimpleNamespace(compress=object())
    ws.state.compression = compressor if compression else None
    def go():
        data = good if typed_ok else bad
        if default_compress:
            getattr(ws, method)(data)
        else:
            getattr(ws, method)(data, compress)
        (kind, opcode, payload, comp), = spy.calls
        if payload != want or (kind == 2 and comp is not compressor.compress):
            raise AssertionError('payload / compressor')
        return (kind, opcode)
    return attempt(go)


def py_wsSendBinary(is_bytes, compress, compression, default_compress=False):
    return py_send_data('send_binary', b'ab\xff', 'ab', b'ab\xff', is_bytes, compress, compression, default_compress)


def py_wsSendText(is_text, compress, compression, default_compress=False):
    return py_send_data('send_text', 'abé', b'ab', 'abé'.encode('utf-8'), is_text, compress, compression, default_compress)


def py_streamOnFrame(opcode, fin, frames):
    """the real WebsocketStream.feed handed one frame by its parser, with `frames` fragments stored"""
    from lomond.stream import WebsocketStream
    from lomond.frame import Frame
    st = WebsocketStream()
    frame = Frame(opcode, payload=b'p', fin=fin)
    stored = [Frame(2 if i == 0 else 0, payload=b'q', fin=0) for i in range(frames)]
    st._frames = list(stored)
    st._parsed_response = True
    st.frame_parser = types.SimpleNamespace(feed=lambda data: [frame])
    built = []
    st.build_message = lambda fr: built.append((fr is st._frames, list(fr))) or 'MSG'
    def go():
        out = list(st.feed(b'x'))
        if out != ['MSG'] * len(built) or len(built) > 1:
            raise AssertionError('messages')
        kind = 0
        if built:
            whole, lst = built[0]
            kind = 2 if whole else 1
            if lst != ([frame] if kind == 1 else stored + [frame]):
                raise AssertionError('frames of the message')
        return (kind, len(st._frames))
    return attempt(go)


def py_textFromPayload(payload, decode):
    from lomond.message import Text
    return attempt(lambda: Text.from_payload(bytes(payload)).text)


def decode_table(payload):
    try:
        dec = bytes(payload).decode('utf-8')
    except UnicodeDecodeError:
        dec = None
    return Fn({bytes(payload): dec})


def py_selectorWait(has_pending, pending, readable, max_bytes):
    from lomond.selectors import SelectorBase
    waits = []
    class Sel(SelectorBase):
        def wait_readable(self, timeout=0.0):
            waits.append(timeout)
            return readable
    class Plain(object):
        pass
    class Tls(object):
        def pending(self):
            return pending
    r, n = Sel(Tls() if has_pending else Plain()).wait(max_bytes, 5.0)
    if waits not in ([], [5.0]) or (waits and (r, n) != (readable, max_bytes)):
        raise AssertionError('wait_readable')
    return (r, n)


def py_sessionConnectProxy(proxies, secure, none_values=False):
    from lomond.session import WebsocketSession
    from lomond.websocket import WebSocket
    px = dict(proxies)
    if none_values:                                  # a key whose value is None is read as a missing key
        for k in ('http', 'https'):
            px.setdefault(k, None)
    ws = WebSocket('wss://example.org/' if secure else 'ws://example.org/', proxies=px)
    s = object.__new__(WebsocketSession)
    s.websocket = ws
    sock = types.SimpleNamespace(settimeout=lambda t: None)
    via = []
    s._connect_proxy = lambda url: via.append(url) or sock
    s._connect_sock = lambda host, port, ssl=False: via.append(None) or sock
    got, proxy_url = s._connect()
    if got is not sock or via != [proxy_url]:
        raise AssertionError('socket / route')
    return Opt(proxy_url)


def persist_delays(script, min_wait, max_wait, u):
    """run the real persist() over scripted connections; script = list of rounds, each a list of
    booleans (event is named 'ready' or not).  Returns the BackOff delays as Fractions."""
    import lomond.persist as P
    rounds = iter(script)
    class Ev(object):
        def __init__(self, ready):
            self.name = 'ready' if ready else 'poll'
    class Ws(object):
        def connect(self, **kw):
            return iter([Ev(b) for b in next(rounds)])
    class Exit(object):
        n = 0
        def wait(self, t):
            Exit.n += 1
            return Exit.n >= len(script)
    real = P.random
    P.random = lambda: float(u)
    try:
        out = [e.delay for e in P.persist(Ws(), min_wait=fl(min_wait), max_wait=fl(max_wait), exit_event=Exit())
               if e.__class__.__name__ == 'BackOff']
    finally:
        P.random = real
    return [Fraction(d) for d in out]


def exponent(script):
    """value of `retries` when the last round's delay is computed (delay = 1/2 * 2**retries)"""
    d = persist_delays(script, 0, 1 << 60, Fraction(1, 2))[-1] * 2
    e = d.numerator.bit_length() - 1
    if d != 1 << e:
        raise ValueError('delay %s is not u * 2**retries' % d)
    return e


def py_persistRetriesInit():
    return exponent([[]]) - 1                      # the first pass adds one before the first delay


def py_persistRetriesNext(k):
    return exponent([[]] * (k + 1))                # k passes without Ready, then one more


def py_persistAfterEvent(is_ready, k):
    return exponent([[]] * (k - 1) + [[is_ready]])  # retries is k when the event of the k-th pass arrives


def py_persistWaitFor(min_wait, max_wait, retries, u):
    return persist_delays([[]] * retries, min_wait, max_wait, u)[-1]


# ---------------------------------------------------------------------------------------------
# inputs

def bits():
    return [(f, a, b, c) for f in (0, 1) for a in (0, 1) for b in (0, 1) for c in (0, 1)]


def blob(rng, n):
    return bytes(rng.randrange(256) for _ in range(n))


def cases_for(name, rng, quick):
    k = 1 if quick else 8
    if name == 'frameBuildMaskBit':
        return [(True,), (False,)]
    if name == 'frameBuildByte0':
        return [b + (op,) for b in bits() for op in range(16)]
    if name == 'frameBuildHeader':
        out = []
        for m in (0, 128):
            lens = [n for n in LEN_EDGES if m == 0 or n <= 70000] + [rng.randrange(0, 200) for _ in range(40 * k)]
            lens += [rng.randrange(0, 1 << 63) for _ in range(40 * k)] if m == 0 else [rng.randrange(0, 70000) for _ in range(10 * k)]
            out += [(rng.choice([0x81, 0x82, 0x01, 0x80, 0x89, 0x8a, 0x88, 0xc1, 0xf2, 0x00]), m, n) for n in lens]
        return out
    if name == 'frameBuildClosePayload':
        return [(c, blob(rng, n)) for c in (None, 0, 1000, 1001, 4999, 65535) for n in (0, 1, 2, 123, 124, 125)]
    if name in ('wsSendPingGuard', 'wsSendPongGuard'):
        return [(ib, blob(rng, n)) for ib in (True, False) for n in list(range(120, 132)) + [0, 1, 300]]
    if name == 'wsClose':
        out = [(cl, cg, c, blob(rng, n)) for cl in (False, True) for cg in (False, True)
               for c in (None, 0, 1000, 65535, 65536, 70000, 1 << 40) for n in (0, 1, 122, 123, 124, 125, 126, 200)]
        return out
    if name == 'frameIsControl':
        return [(o,) for o in range(0, 20)]
    if name == 'opcodeIsReserved':
        return [(o,) for o in range(0, 40)] + [(255,), (256,)]
    if name in ('frameValidateReservedBits', 'compressedFrameValidateReservedBits'):
        return [(a, b, c) for a in (0, 1, 2) for b in (0, 1, 2) for c in (0, 1, 2)]
    if name in ('frameValidate', 'compressedFrameValidate'):
        return [b + (op, blob(rng, n)) for b in bits() for op in range(16) for n in (0, 125, 126)]
    if name == 'parseFields':
        step = 5 if quick else 1
        return [(b1, b2) for b1 in range(256) for b2 in list(range(0, 256, step)) + [125, 126, 127, 253, 254, 255]]
    if name == 'parseLenExt':
        return [(n,) for n in range(128)]
    if name == 'parseTooLarge':
        return [(n,) for n in LEN_EDGES + [1 << 63, (1 << 63) + 1, (1 << 64) - 1] + [rng.randrange(0, 1 << 64) for _ in range(50 * k)]]
    if name in ('parseChecksFrame', 'parseChecksCompressed'):
        out = []
        lens = [0, 1, 124, 125, 126, 127, 128, 65535, 65536, (1 << 63) - 1, 1 << 63, (1 << 64) - 1]
        for b in bits():
            for op in range(16):
                for n in lens:
                    out.append((True,) + b + (op, rng.randrange(2), n))
                out.append((False,) + b + (op, rng.randrange(2), rng.choice(lens)))
        return out
    T = [0, 1, 2, 3, 4, 5, 7, 9, 10, 29, 30, 31, 59, 60, 61, 89, 90, 91, 1000, (1 << 26) - 1]
    if name == 'sessionCheckPoll':
        return ([(p, t, ps) for p in (0, 1, 2, 5) for t in T[:14] for ps in (None, 0, 1, 5, 25, 30, 31, 60)]
                + [(rng.randrange(0, 10), rng.randrange(0, 500), rng.choice([None, rng.randrange(0, 500)])) for _ in range(400 * k)])
    if name == 'sessionCheckAutoPing':
        return ([(r, t, n) for r in (0, 1, 2, 3, 7, 30) for t in T for n in (0, 1, 29, 30, 31, 60, 90)]
                + [(rng.randrange(0, 40), rng.randrange(0, 1 << 20), rng.randrange(0, 1 << 20)) for _ in range(400 * k)])
    if name == 'sessionCheckPingTimeout':
        return ([(p, t, l) for p in (0, 1, 2, 5, 30) for t in T for l in (0, 1, 5, 29, 30, 31, 100)]
                + [(rng.randrange(0, 40), rng.randrange(0, 2000), rng.randrange(0, 2000)) for _ in range(400 * k)])
    if name == 'sessionCheckCloseTimeout':
        return ([(c, t, s) for c in (0, 1, 3, 30) for t in T for s in (None, 0, 1, 29, 30, 31, 60)]
                + [(rng.randrange(0, 40), rng.randrange(0, 2000), rng.choice([None, rng.randrange(0, 2000)])) for _ in range(400 * k)])
    if name == 'persistRetriesInit':
        return [()]
    if name == 'persistRetriesNext':
        return [(n,) for n in range(0, 40)]
    if name == 'persistAfterEvent':
        return [(b, n) for b in (True, False) for n in range(1, 40)]
    if name == 'persistWaitFor':
        out = []
        for mn, mx in ((5, 30), (0, 1), (1, 1), (0, 1 << 40), (Fraction(1, 2), Fraction(33, 4)), (30, 5), (0, 0), (3, 1000)):
            for r in list(range(1, 14)) + [20, 39, 40, 41, 45]:
                for u in (Fraction(0), Fraction(1, 2), Fraction(63, 64), Fraction(rng.randrange(1 << 20), 1 << 20)):
                    out.append((Fraction(mn), Fraction(mx), r, u))
        return out
    if name in ('wsDefaultPort', 'proxyDefaultPort'):
        return [(p, s) for p in (None, 0, 1, 80, 443, 8080, 65535) for s in (True, False)]
    if name == 'deflateWbitsCheck':
        return [(w,) for w in range(-20, 40)] + [(1 << 40,), (-(1 << 40),)]
    if name == 'deflateCompressorWbits':
        return [(w,) for w in range(0, 20)]
    if name in ('frameIsText', 'frameIsContinuation'):
        return [(o,) for o in range(0, 20)]
    B = (False, True)
    if name == 'parseReadText':
        return [(a, b) for a in B for b in B]
    if name == 'parseReader':
        return [(op, r1, n, t, z, c) for op in range(16) for r1 in (0, 1) for n in (0, 1, 5, 125, 126, 70000)
                for t in B for z in B for c in B]
    if name == 'parserOnFrame':
        return [(c, z, t, fin, op) for c in B for z in B for t in B for fin in (0, 1) for op in range(16)]
    if name == 'clientOnFrameGuard':
        return [(False,), (True,)]
    if name == 'sessionCheckWritable':
        return [(a, b, c) for a in B for b in B for c in B]
    if name == 'sessionWrite':
        return [(a, b, c, d) for a in B for b in B for c in B for d in B]
    if name == 'sessionSendClosing':
        return [(o,) for o in range(16)]
    if name == 'sessionSendCompressedFrame':
        return [(op, blob(rng, n)) for op in (1, 2, 0, 9, 15) for n in (0, 1, 5, 125, 126, 300)]
    if name == 'frameToBytes':
        out = []
        for b in bits():
            for op in (0, 1, 2, 8, 9, 10, 15):
                for mask in (True, False):
                    for key in (None, blob(rng, 4)):
                        out.append((op, blob(rng, rng.choice([0, 3, 130])), b[0], b[1], b[2], b[3], mask, key))
        return out
    if name == 'frameMakeMaskingKey':
        return [(Fn({bytes([n]): blob(rng, n) for n in (0, 1, 2, 3, 4, 5, 8, 16)}),) for _ in range(6 * k)]
    if name == 'frameBuildKey':
        return [(key, blob(rng, 4)) for key in [None] + [blob(rng, 4) for _ in range(6 * k)]]
    if name == 'wsSendJson':
        return [(a, b) for a in B for b in B]
    if name == 'wsOnDisconnect':
        return [(a, b, c) for a in B for b in B for c in B]
    if name == 'wsOnClose':
        codes = [None, 0, 1, 999, 1000, 1001, 1002, 1003, 1004, 1005, 1006, 1007, 1011, 1013, 1014, 1015, 1016, 2999, 3000,
                 4000, 4999, 5000, 65535] + [rng.randrange(0, 65536) for _ in range(40 * k)]
        return [(c, a, b) for c in codes for a in B for b in B]
    if name in ('responseGetStr', 'responseGetOpt'):
        out = []
        for _ in range(60 * k):
            hs = rand_headers(rng)
            nm = rng.choice(list(hs) + [h.upper() for h in hs] + [h.title() for h in hs] + ['missing', 'Upgrade', '']) if hs else 'upgrade'
            dflt = rng.choice(['', '<header missing>', 'x\ufffdy'])
            out.append((hs, nm, dflt) if name == 'responseGetStr' else (hs, nm, rng.choice([None, dflt])))
        return out
    if name == 'wsOnResponse':
        out = []
        good = 's3pPLMBiTxaQ9kYGzzhZRbK+xOo='
        def reply(rng):
            hs = rand_headers(rng)
            up = rng.choice(['websocket', 'WebSocket', 'WEBSOCKET', 'websocket ', 'websockets', 'h2c', '', 'web\ufffdsocket', None])
            if up is not None:
                hs['upgrade'] = up
            acc = rng.choice([good, good.lower(), good.upper(), good[:-1], good + ' ', '', 'x' + good[1:], None,
                              ''.join(c.swapcase() if rng.random() < .3 else c for c in good)])
            if acc is not None:
                hs['sec-websocket-accept'] = acc
            pr = rng.choice([None, None, 'chat', 'Chat, superchat', '', 'pr\ufffdto'])
            if pr is not None:
                hs['sec-websocket-protocol'] = pr
            items = list(hs.items())
            rng.shuffle(items)
            return dict(items)
        for _ in range(150 * k):
            st = rng.choice([101, 101, 101, 101, 100, 102, 200, 404, 0, -101, 1010, None, rng.randrange(-5, 600)])
            ch = rng.choice([good, good, good.lower(), good.swapcase(), 'AAAA'])
            out.append((st, reply(rng), ch))
        out.append((101, {'upgrade': 'websocket', 'sec-websocket-accept': good}, good))
        out.append((101, {'Upgrade': 'websocket', 'sec-websocket-accept': good}, good))
        return out
    if name == 'deflateGetWbits':
        out = []
        for v in WBITS_VALUES:
            for key in ('server_max_window_bits', 'client_max_window_bits'):
                for opts in ({key: v}, {'other': '9', key: v}, {key: v, 'client_no_context_takeover': ''}):
                    out.append((opts, key, Fn({v: py_int(v)})))
        for key in ('server_max_window_bits', 'k', ''):
            for opts in ({}, {'other': '9'}, {key + 'x': '9'}, {key.upper(): '9'}):
                v = opts.get(key, '15')
                out.append((opts, key, Fn({v: py_int(v)})))
        return out
    if name == 'deflateFromOptions':
        out = []
        names = ['server_max_window_bits', 'client_max_window_bits', 'server_no_context_takeover', 'client_no_context_takeover',
                 'server_max_window_bit', 'CLIENT_MAX_WINDOW_BITS', 'x']
        for _ in range(150 * k):
            opts = {}
            for n in rng.sample(names, rng.randrange(0, len(names) + 1)):
                opts[n] = rng.choice(WBITS_VALUES) if 'bits' in n.lower() or rng.random() < .3 else ''
            tbl = Fn({v: py_int(v) for v in set([opts.get('server_max_window_bits', '15'), opts.get('client_max_window_bits', '15')])})
            out.append((opts, tbl))
        for a in ('8', '9', '15'):
            for b in ('8', '10', '15'):
                if a != b:
                    out.append(({'server_max_window_bits': a, 'client_max_window_bits': b}, Fn({a: int(a), b: int(b)})))
        out.append(({'server_no_context_takeover': ''}, Fn({'15': 15})))
        out.append(({'client_no_context_takeover': ''}, Fn({'15': 15})))
        return out
    if name == 'messageBuildInflate':
        return [(r, d) for r in (0, 1) for d in B]
    if name == 'messageBuildKind':
        return [(o,) for o in range(0, 20)]
    if name == 'closeFromPayload':
        out = []
        tails = [b'', b'a', b'bye', '\u00e9t\u00e9'.encode(), '\u20ac'.encode(), '\U0001f600'.encode(), b'\xff', b'\xc3', b'\xe2\x82',
                 b'\xed\xa0\x80', b'\xc0\xaf', b'ok\xf0\x9f', b'\xf4\x90\x80\x80'] + [blob(rng, rng.randrange(1, 6)) for _ in range(30 * k)]
        for p in [b'', b'\x03', b'\xff'] + [bytes([c >> 8, c & 255]) + t for c in (0, 1000, 1005, 4999, 65535) for t in tails]:
            out.append((p,) + utf8_tables(p))
        return out
    if name == 'readUntilCheckLength':
        return [(m, n) for m in (None, 0, 1, 10, 16384) for n in (0, 1, 9, 10, 11, 16383, 16384, 16385, 1 << 20)]
    if name == 'feedReadUntil':
        out = []
        for m in (None, 0, 3, 4, 5, 10, 50, 16384):
            edge = [0, 1, 2, 3, 4, 5, 6, 9, 10, 11, 12, 49, 50, 51] + ([m - 5, m - 4, m - 3, m - 1, m, m + 1, m + 4] if m and m > 60 else [])
            for sl in (1, 2, 4):
                for n in edge:
                    if n >= 1:
                        out.append((m, -1, sl, n))
                    for i in edge:
                        if i + sl <= n:
                            out.append((m, i, sl, n))
                            if i + sl < n:
                                out.append((m, i, sl, i + sl))
        return out
    if name == 'sessionOnEvent':
        names = sorted(MODEL_EVENT_CLASS) + ['', 'Ready', 'PING', 'pongs', 'unknown', 'back_off', 'ping ']
        return [(n, a, r) for n in names for a in B for r in B]
    if name == 'sessionOnPong':
        return [(t, l) for t in (0, 1, 5, 30, 31, 1000, (1 << 26) - 1) for l in (0, 1, 30, 2000)]
    if name == 'sessionOnReady':
        return [(l, n, st, now) for l in (0, 7) for n in (0, 30) for st in (None, 0, 100) for now in (0, 5, 100, 1 << 30)]
    if name == 'sessionSessionTime':
        return [(st, now) for st in (None, 0, 1, 5, 100, 1 << 30) for now in (0, 1, 5, 7, 100, 1000, (1 << 30) + 5)]
    if name in ('wsFeedGuard', 'wsIsActive'):
        return [(a, b) for a in B for b in B]
    if name in ('wsSendBinary', 'wsSendText'):
        return [(a, b, c) for a in B for b in B for c in B]
    if name == 'streamOnFrame':
        return [(op, fin, n) for op in range(16) for fin in (0, 1) for n in (0, 1, 2, 5)]
    if name == 'textFromPayload':
        ps = [b'', b'a', b'hello', 'été'.encode(), '€'.encode(), '\U0001f600'.encode(), b'\xff', b'\xc3', b'\xe2\x82',
              b'\xed\xa0\x80', b'\xc0\xaf', b'ok\xf0\x9f', b'\xf4\x90\x80\x80', b'\x00'] + [blob(rng, rng.randrange(1, 8)) for _ in range(40 * k)]
        return [(p, decode_table(p)) for p in ps]
    if name == 'selectorWait':
        return [(h, p, r, m) for h in B for p in (0, 1, 5, 16384, 70000) for r in B for m in (1, 65536)]
    if name == 'sessionConnectProxy':
        out = []
        urls = ['http://proxy.example:3128', 'https://u:p@proxy.example', '', 'x']
        for sec in B:
            out.append(({}, sec))
            for a in urls:
                out += [({'http': a}, sec), ({'https': a}, sec), ({'HTTP': a}, sec), ({'http': a, 'https': 'http://other:1'}, sec),
                        ({'https': a, 'http': 'http://other:1'}, sec)]
        return out
    raise KeyError(name)


WBITS_VALUES = ['7', '8', '9', '10', '14', '15', '16', '0', '-8', '+9', ' 12 ', '012', '1_0', '1__0', '', ' ', 'abc', '9.0', '0x9', '15\n',
                '\ufffd', '99999999999999999999']


def rand_headers(rng):
    names = ['upgrade', 'connection', 'sec-websocket-accept', 'sec-websocket-protocol', 'server', 'x-a', 'Upgrade', 'UPGRADE', '']
    hs = {}
    for n in rng.sample(names, rng.randrange(0, 6)):
        hs[n] = rng.choice(['websocket', 'WebSocket', 'Upgrade', '', 'a, b', 'v\ufffd', 'x'])
    return hs


def variants(name, a):
    """keyword arguments of the extra observations of one case (the same generated line each time)"""
    out = [{}]
    if name in NONE_FOR_ZERO and a[0] == 0:                  # the parameter read as 0 may also be None
        out.append(dict(none_for_zero=True))
    if name == 'wsOnDisconnect':
        out.append(dict(explicit=True))                      # on_disconnect(state) instead of on_disconnect()
    if name == 'responseGetOpt' and a[2] is None:
        out.append(dict(omit=True))                          # get(name) instead of get(name, None)
    if name == 'sessionOnEvent' and a[1]:
        out.append(dict(default_auto_pong=True))             # _on_event(event) instead of _on_event(event, True)
    if name in ('wsSendBinary', 'wsSendText') and a[1]:
        out.append(dict(default_compress=True))              # send_binary(data) instead of send_binary(data, True)
    if name == 'sessionConnectProxy':
        out.append(dict(none_values=True))                   # {'http': None, ..} as _detect_proxies makes it
    if name == 'feedReadUntil':
        limit = a[3] if a[0] is None else min(a[3], a[0] + 1)
        top = min(limit, a[1] + 1 if a[1] >= 0 else limit)   # the first part must not contain the separator
        for first in sorted({1, top // 2, top - 1}):
            if 0 < first < top:
                out.append(dict(first=first))
    return out


def observe(fn, a, **kw):
    """canonical result of the original Python; a site that can no longer be observed through its
    entry point (the code changed shape) is a disagreement, not a harness crash"""
    try:
        py = fn(*a, **kw)
    except Exception as e:  # noqa
        return 'not-observable:%s:%s' % (type(e).__name__, str(e)[:80])
    return py if isinstance(py, str) else show(py)


NONE_FOR_ZERO = {'sessionCheckAutoPing', 'sessionCheckPingTimeout', 'sessionCheckCloseTimeout'}


def run(res, pid, tier, seed, model_ok=True):
    """compare every generated definition of the group `pid` with the original Python"""
    if not model_ok:
        res.notes.append('gencheck skipped: the model driver did not build')
        return
    rng = random.Random(seed * 7919 + 17)
    names = GROUPS.get(pid, [])
    lines, meta = [], []
    for name in names:
        fn = globals()['py_' + name]
        for a in cases_for(name, rng, tier == 'quick'):
            line = ' '.join(['gen', name] + [arg(x) for x in a])
            for kw in variants(name, a):
                lines.append(line); meta.append((name, observe(fn, a, **kw)))
    outs = runner.model_run(lines)
    bad = 0
    for line, (name, py), lean in zip(lines, meta, outs):
        if not same(py, lean):
            bad += 1
            if bad <= 20:
                res.diffs.append(dict(input=line, real=py, model=lean))
    res.evaluations += len(lines)
    res.traces_validated += len(lines)
    res.count('gen-differential', len(lines))
    res.exhaustive['generated_definitions_checked:' + ','.join(names)] = len(lines)
    res.notes.append('gencheck %s: %d evaluations of %d generated definitions against the original Python, %d disagreements'
                     % (pid, len(lines), len(names), bad))
    return bad


# ---------------------------------------------------------------------------------------------
# self-test of the translator on constructs the current sites use little or not at all
# (run by hand: `/venv/bin/python harness/gencheck.py --constructs`; not part of a check)

CONSTRUCTS = '''
def arith(a, b, c):
    return (a + b * c - (a // (b + 1)) % 7, a ** 2 - b, -a + c, (a << 3) >> 1, (a | b) & c, max(a, b) - min(b, c), 0x10 + 0b11 + 0o7)

def compare(a, b, c):
    return (a < b <= c, a == b != c, not a >= b, a > b or b > c and c > a, (a < b) == (b < c), True if a else False)

def truthy(a, o, bs):
    if a and not o:
        return 1
    elif o or bs:
        return 2
    return 3

def option(o, a):
    if o is None:
        return a - 0
    x = o - a
    if x < 0:
        return -x
    return x

def option2(o, a):
    return (o if o else a + 1, a if o is None else o * 2, 5 if o is not None and o > a else 6, o is None or o >= a, bool(o), int(a))

def option3(o, a):
    r = a - 1
    if o:
        r = o - a
    if o is not None:
        r += o
    else:
        r -= 1
    return r

def ceil(a, b):
    if b:
        return math.ceil(a / b) * b
    return 0

def raising(a):
    """docstring"""
    log.debug('x %r', a)
    if a > 10:
        raise ValueError('big {}'.format(a))
    if a == 3:
        raise errors.Three('three')
    x = a
    x += 2
    x *= 3
    return x

def bytes_(bs, n):
    p = bs + b'ab'
    if len(p) > n:
        return p
    return b''

def strs(s, t):
    u = s.lower()
    if s != t and u == t.lower():
        return (u, s == 'Ab', True)
    return (t, s == 'Ab', False)

def dicts(d, k):
    x = d.get(k)
    if x is None:
        return (k in d, 'a' in d, d.get(k, 'dflt'), '')
    return (k in d, 'a' in d, d.get(k, 'dflt'), x.lower())

def optnum(o, a):
    return (o == a, o != 3, o in small, bool(o))

def slices(bs):
    return (bs[:2], bs[2:], bs[:0], len(bs[1:]))

def trying(s, a):
    try:
        x = parse(s)
    except ValueError:
        raise errors.Three('bad {} {}', s, a)
    if x > a:
        raise errors.Three('big')
    return x + 1

def unpacking(bs):
    code = None
    if len(bs) == 2:
        (code,) = cls._unpack(bs)
    return (code is None, bs)
'''

def constructs_selftest():
    import ast, itertools, math, os, subprocess
    import py2lean as P
    tree = ast.parse(CONSTRUCTS)
    N, O, B, S, D = P.NAT, P.OPT(P.NAT), P.BYTES, P.STR, P.DICT
    F = P.FN([S], P.OPT(P.INT))
    sig = {'arith': [('a', N), ('b', N), ('c', N)], 'compare': [('a', N), ('b', N), ('c', N)],
           'truthy': [('a', N), ('o', O), ('bs', B)], 'option': [('o', O), ('a', N)], 'option2': [('o', O), ('a', N)],
           'option3': [('o', O), ('a', N)], 'ceil': [('a', N), ('b', N)], 'raising': [('a', N)], 'bytes_': [('bs', B), ('n', N)],
           'strs': [('s', S), ('t', S)], 'dicts': [('d', D), ('k', S)], 'optnum': [('o', O), ('a', N)], 'slices': [('bs', B)],
           'trying': [('s', S), ('a', N), ('parse', F)], 'unpacking': [('bs', B)]}
    extra = {'optnum': dict(tables={'small': 'Lomond.Gen.reservedOpcodes'}),
             'trying': dict(externs={'parse(s)': ('parse', ['s'], 'ValueError')}),
             'unpacking': dict(unstructs={'cls._unpack': [2]}, locals={'code': O})}
    dom = {N: [0, 1, 2, 3, 7, 11, 255], O: [None, 0, 1, 5, 300], B: [b'', b'\x00', b'xyz', b'\x01\x02'],
           S: ['', 'Ab', 'ab', 'AB', 'a', '12', '-3', '\ufffdZ'], D: [{}, {'a': 'X'}, {'Ab': 'Q\ufffd', 'a': ''}], F: [py_int]}
    def lean_str_term(v):
        return '[%s]' % ', '.join(str(ord(c)) for c in v)
    def lean_term(v, t):
        if t == F:      # int() on the strings of the domain, as a finite table
            return '(fun s => %s none)' % ''.join('if s = %s then %s else ' % (
                lean_str_term(x), 'none' if py_int(x) is None else '(some (%d : Int))' % py_int(x)) for x in dom[S])
        if t == S:
            return lean_str_term(v)
        if t == D:
            return '[%s]' % ', '.join('(%s, %s)' % (lean_str_term(k), lean_str_term(x)) for k, x in v.items())
        return 'none' if v is None else '(some %d)' % v if t == O else '[%s]' % ', '.join(map(str, v)) if t == B else str(v)
    defs, text, evals, expected = {}, [], [], []
    class Three(Exception):
        def __init__(self, msg, *a):
            Exception.__init__(self, msg.format(*a))
    import struct
    from lomond.opcode import reserved_opcodes
    ns = dict(math=math, log=types.SimpleNamespace(debug=lambda *a: None), errors=types.SimpleNamespace(Three=Three),
              small=reserved_opcodes, cls=types.SimpleNamespace(_unpack=struct.Struct('!H').unpack), parse=int)
    exec(CONSTRUCTS, ns)
    for fn in tree.body:
        s = P.Site(fn.name, 'selftest', sig[fn.name], P.body_of(fn), **extra.get(fn.name, {}))
        lean, d = P.Translator(s, defs).translate()
        defs[fn.name] = d
        text.append(lean)
        for a in itertools.product(*[dom[t] for _, t in sig[fn.name]]):
            terms = [lean_term(v, t) for v, (_, t) in zip(a, sig[fn.name])]
            evals.append('#eval IO.println (Py.render (%s %s))' % (fn.name, ' '.join(terms)))
            pa = [v for v, (_, t) in zip(a, sig[fn.name]) if t != F]     # external functions are globals on the Python side
            r = attempt(lambda: ns[fn.name](*pa)) if d.raises else show(ns[fn.name](*pa))
            expected.append((fn.name, a, r))
    src = 'import Lomond.Model.PyOps\nimport Lomond.Generated.Tables\nopen Lomond\nnamespace SelfTest\n' + '\n'.join(text) + '\n' + '\n'.join(evals) + '\nend SelfTest\n'
    d = os.path.join(runner.VERIF, '.scratch')
    os.makedirs(d, exist_ok=True)
    path = os.path.join(d, 'py2lean_selftest.lean')
    open(path, 'w').write(src)
    r = subprocess.run(['lake', 'env', 'lean', path], cwd=runner.LEAN, capture_output=True, text=True)
    out = [l for l in r.stdout.split('\n') if l != '']
    if r.returncode != 0 or len(out) != len(expected):
        print(r.stdout[-3000:], r.stderr[-2000:])
        print('selftest: lean failed (%d lines for %d evaluations)' % (len(out), len(expected)))
        return 2
    bad = [(e, o) for e, o in zip(expected, out) if not same(e[2], o)]
    for e, o in bad[:10]:
        print('DISAGREE %s%r: python %s, lean %s' % (e[0], e[1], e[2], o))
    print('constructs self-test: %d evaluations of %d synthetic functions, %d disagreements' % (len(expected), len(sig), len(bad)))
    return 1 if bad else 0


if __name__ == '__main__':
    import sys
    if '--constructs' in sys.argv:
        sys.exit(constructs_selftest())
