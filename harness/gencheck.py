"""Differential test of the translator harness/py2lean.py.

Every definition of lean/Lomond/Generated/Code.lean is evaluated through the driver
(`gen <name> <args…>`, lean/Lomond/Model/Driver.lean) and compared with what the *original Python*
does on the same inputs -- not with a re-execution of the translated slice: each `py_<name>` below
reaches the site through the real lomond entry point (Frame.build, FrameParser.feed,
WebsocketSession._check_*, persist(), WebSocket.close, Deflate.get_wbits, …) with fakes only for
what lies outside (socket, session, random(), zlib.compressobj).

Inputs: every boundary the companion proofs case-split on, small exhaustive ranges, and seeded
random values.  A disagreement goes to `res.diffs` with input 'gen <name> …' (correspondence broken:
the check then reports a VIOLATION ... no-failing-input-found unless the property's own oracle
finds a failing input).

Line protocol: Nat/Int decimal, Bool 0/1, Option `N`, Rat n/d, Bytes x<hex>; results: tuples
comma-separated, Bool True/False, Unit None, `ok:<v>` / `raise:<Class>:<text>` for definitions
that can raise (a `{}` of a `.format` template matches anything).
"""
from __future__ import annotations
import random, re, types
from fractions import Fraction
import runner

GROUPS = {
    'C03': ['frameBuildMaskBit', 'frameBuildByte0', 'frameBuildHeader', 'frameBuildClosePayload',
            'wsSendPingGuard', 'wsSendPongGuard', 'wsClose'],
    'C04': ['frameIsControl', 'opcodeIsReserved', 'frameValidateReservedBits', 'compressedFrameValidateReservedBits',
            'frameValidate', 'compressedFrameValidate', 'parseFields', 'parseLenExt', 'parseTooLarge',
            'parseChecksFrame', 'parseChecksCompressed'],
    'C15': ['sessionCheckPoll', 'sessionCheckAutoPing', 'sessionCheckPingTimeout', 'sessionCheckCloseTimeout'],
    'C16': ['persistRetriesInit', 'persistRetriesNext', 'persistAfterEvent', 'persistWaitFor'],
    'C10': ['wsDefaultPort', 'deflateWbitsCheck', 'deflateCompressorWbits'],
    'C19': ['proxyDefaultPort', 'wsDefaultPort'],
}

LEN_EDGES = [0, 1, 2, 123, 124, 125, 126, 127, 128, 129, 130, 255, 256, 65534, 65535, 65536, 65537, 70000,
             (1 << 31) - 1, 1 << 31, (1 << 32) + 5, (1 << 62), (1 << 63) - 2, (1 << 63) - 1]


# ---------------------------------------------------------------------------------------------
# canonical printing (must agree with Py.Render in lean/Lomond/Model/PyOps.lean)

def show(v):
    if v is None:
        return 'None'
    if isinstance(v, bool):
        return 'True' if v else 'False'
    if isinstance(v, (bytes, bytearray)):
        return 'x' + bytes(v).hex()
    if isinstance(v, tuple):
        return ','.join(show(x) for x in v)
    if isinstance(v, Fraction):
        return '%d/%d' % (v.numerator, v.denominator)
    if isinstance(v, float):
        return show(Fraction(v))
    return str(v)


def arg(v):
    if v is None:
        return 'N'
    if isinstance(v, bool):
        return '1' if v else '0'
    if isinstance(v, (bytes, bytearray)):
        return 'x' + bytes(v).hex()
    if isinstance(v, Fraction):
        return '%d/%d' % (v.numerator, v.denominator)
    return str(v)


def attempt(fn):
    """'ok:<value>' or 'raise:<Class>:<text>'"""
    try:
        return 'ok:' + show(fn())
    except Exception as e:  # noqa - the class and text are the observation
        return 'raise:%s:%s' % (type(e).__name__, e)


def same(py, lean):
    if py == lean:
        return True
    if lean.startswith('raise:') and '{}' in lean:
        pat = '.*'.join(re.escape(p) for p in lean.split('{}'))
        return re.fullmatch(pat, py, re.S) is not None
    return False


# ---------------------------------------------------------------------------------------------
# the original Python, reached through real entry points

class FakeLen(object):
    """a payload of a given length that costs nothing (Frame.build only takes len() and bytes())"""
    def __init__(self, n):
        self.n = n

    def __len__(self):
        return self.n

    def __bytes__(self):
        return b''


def py_frameBuildMaskBit(mask):
    from lomond.frame import Frame
    return Frame.build(2, b'', mask=mask, masking_key=b'\0\0\0\0')[1]


def py_frameBuildByte0(fin, rsv1, rsv2, rsv3, opcode):
    from lomond.frame import Frame
    return Frame.build(opcode, b'', fin=fin, rsv1=rsv1, rsv2=rsv2, rsv3=rsv3, mask=False)[0]


def py_frameBuildHeader(byte0, mask_bit, length):
    from lomond.frame import Frame
    kw = dict(fin=byte0 >> 7, rsv1=(byte0 >> 6) & 1, rsv2=(byte0 >> 5) & 1, rsv3=(byte0 >> 4) & 1)
    def go():
        if mask_bit:
            data = Frame.build(byte0 & 15, b'\0' * length, mask=True, masking_key=b'\0\0\0\0', **kw)
            return data[:len(data) - length - 4]
        return Frame.build(byte0 & 15, FakeLen(length), mask=False, **kw)
    return attempt(go)


def py_frameBuildClosePayload(status, reason):
    from lomond.frame import Frame
    return Frame.build_close_payload(status, bytes(reason))


class FakeSession(object):
    session_time = 7.0

    def __init__(self):
        self.sent = []

    def send(self, opcode, data):
        self.sent.append((opcode, bytes(data)))


def fake_ws(closed=False, closing=False):
    from lomond.websocket import WebSocket
    ws = WebSocket('ws://example.org/')
    ws.state.session = FakeSession()
    ws.state.closed, ws.state.closing = closed, closing
    return ws


def py_guard(method, is_bytes, data):
    ws = fake_ws()
    return attempt(lambda: getattr(ws, method)(bytes(data) if is_bytes else bytearray(data)))


def py_wsSendPingGuard(is_bytes, data):
    return py_guard('send_ping', is_bytes, data)


def py_wsSendPongGuard(is_bytes, data):
    return py_guard('send_pong', is_bytes, data)


def py_wsClose(is_closed, is_closing, code, reason):
    ws = fake_ws(is_closed, is_closing)
    def go():
        ws.close(code, bytes(reason))
        return bool(ws.state.session.sent)
    return attempt(go)


def py_frameIsControl(opcode):
    from lomond.frame import Frame
    return Frame(opcode).is_control


def py_opcodeIsReserved(opcode):
    from lomond.opcode import is_reserved
    return is_reserved(opcode)


def py_frameValidateReservedBits(rsv1, rsv2, rsv3):
    from lomond.frame import Frame
    return attempt(Frame(1, rsv1=rsv1, rsv2=rsv2, rsv3=rsv3).validate_reserved_bits)


def py_compressedFrameValidateReservedBits(rsv1, rsv2, rsv3):
    from lomond.frame import CompressedFrame
    return attempt(CompressedFrame(1, rsv1=rsv1, rsv2=rsv2, rsv3=rsv3).validate_reserved_bits)


def py_frameValidate(fin, rsv1, rsv2, rsv3, opcode, payload):
    from lomond.frame import Frame
    return attempt(Frame(opcode, bytes(payload), fin=fin, rsv1=rsv1, rsv2=rsv2, rsv3=rsv3).validate)


def py_compressedFrameValidate(fin, rsv1, rsv2, rsv3, opcode, payload):
    from lomond.frame import CompressedFrame
    return attempt(CompressedFrame(opcode, bytes(payload), fin=fin, rsv1=rsv1, rsv2=rsv2, rsv3=rsv3).validate)


def parse_one(b1, b2):
    """feed the real parser (no validation) byte by byte until it yields a frame;
    extended length bytes and mask key are zero, so a 126/127 frame has an empty payload"""
    from lomond.frame_parser import FrameParser
    p = FrameParser(parse_headers=False, validate=False)
    data = bytes([b1, b2]) + b'\0' * 160
    for i in range(len(data)):
        for f in p.feed(data[i:i + 1]):
            return f, i + 1
    raise AssertionError('no frame')


def py_parseFields(b1, b2):
    """(fin, rsv1, rsv2, rsv3, opcode, mask_bit, payload_length) as the real parser sees them:
    flags from the frame, mask bit and 7-bit length from the number of bytes the frame consumed"""
    f, used = parse_one(b1, b2)
    rest = used - 2 - (4 if f.mask else 0)
    if len(f.payload) == 0 and rest in (2, 8):
        len7 = 126 if rest == 2 else 127
    else:
        len7 = rest
    return (f.fin, f.rsv1, f.rsv2, f.rsv3, f.opcode, 1 if f.mask else 0, len7)


def py_parseLenExt(len7):
    f, used = parse_one(0x82, len7)
    return used - 2 - len(f.payload)


def header_bytes(fin, rsv1, rsv2, rsv3, opcode, mask_bit, length):
    import struct
    b0 = fin << 7 | rsv1 << 6 | rsv2 << 5 | rsv3 << 4 | opcode
    m = 0x80 if mask_bit else 0
    if length < 126:
        h = struct.pack('!BB', b0, m | length)
    elif length < 65536:
        h = struct.pack('!BBH', b0, m | 126, length)
    else:
        h = struct.pack('!BBQ', b0, m | 127, length)
    return h + (b'\1\2\3\4' if mask_bit else b'')


def py_checks(compressed, validate, fin, rsv1, rsv2, rsv3, opcode, mask_bit, length):
    from lomond.frame_parser import FrameParser
    p = FrameParser(parse_headers=False, validate=validate)
    if compressed:
        p.enable_compression()
    def go():
        for _ in p.feed(header_bytes(fin, rsv1, rsv2, rsv3, opcode, mask_bit, length)):
            pass
        return None
    return attempt(go)


def py_parseChecksFrame(*a):
    return py_checks(False, *a)


def py_parseChecksCompressed(*a):
    return py_checks(True, *a)


def py_parseTooLarge(length):
    return py_checks(False, False, 1, 0, 0, 0, 2, 0, length)


def fake_session(**attrs):
    pings = []
    ws = types.SimpleNamespace(send_ping=lambda: pings.append(1), sent_close_time=attrs.pop('sent_close_time', None))
    return types.SimpleNamespace(websocket=ws, pings=pings, **attrs)


def fl(x):
    return None if x is None else float(x)


def py_sessionCheckPoll(poll, t, poll_start):
    from lomond.session import WebsocketSession
    s = fake_session(_poll_start=fl(poll_start))
    r = WebsocketSession._check_poll(s, float(poll), float(t))
    return (r, None if s._poll_start is None else int(s._poll_start))


def py_sessionCheckAutoPing(rate, t, nxt, none_for_zero=False):
    from lomond.session import WebsocketSession
    s = fake_session(_next_ping=float(nxt))
    WebsocketSession._check_auto_ping(s, None if (none_for_zero and rate == 0) else float(rate), float(t))
    return (bool(s.pings), int(s._next_ping))


def py_sessionCheckPingTimeout(timeout, t, last, none_for_zero=False):
    from lomond.session import WebsocketSession
    s = fake_session(_last_pong=float(last))
    return WebsocketSession._check_ping_timeout(s, None if (none_for_zero and timeout == 0) else float(timeout), float(t))


def py_sessionCheckCloseTimeout(timeout, t, sent, none_for_zero=False):
    from lomond.session import WebsocketSession
    s = fake_session(sent_close_time=fl(sent))
    return attempt(lambda: WebsocketSession._check_close_timeout(
        s, None if (none_for_zero and timeout == 0) else float(timeout), float(t)))


class CapturedConnect(Exception):
    pass


def py_proxyDefaultPort(port, https):
    from lomond.session import WebsocketSession
    def connect_sock(host, port_, ssl=False):
        raise CapturedConnect(port_)
    s = types.SimpleNamespace(_connect_sock=connect_sock)
    url = '%s://proxy.example%s' % ('https' if https else 'http', '' if port is None else ':%d' % port)
    try:
        WebsocketSession._connect_proxy(s, url)
    except CapturedConnect as e:
        return e.args[0]
    raise AssertionError('no connect')


def py_wsDefaultPort(port, secure):
    from lomond.websocket import WebSocket
    return WebSocket('%s://example.org%s/x' % ('wss' if secure else 'ws', '' if port is None else ':%d' % port)).port


def py_deflateWbitsCheck(wbits):
    from lomond.compression import Deflate
    return attempt(lambda: Deflate.get_wbits({'k': str(wbits)}, 'k'))


def py_deflateCompressorWbits(w):
    import lomond.compression as c
    seen = []
    real = c.zlib
    c.zlib = types.SimpleNamespace(compressobj=lambda *a: seen.append(a), Z_DEFAULT_COMPRESSION=real.Z_DEFAULT_COMPRESSION, DEFLATED=real.DEFLATED)
    try:
        c.Deflate.reset_compressor(types.SimpleNamespace(compress_wbits=w))
    finally:
        c.zlib = real
    return seen[0][2]


def persist_delays(script, min_wait, max_wait, u):
    """run the real persist() over scripted connections; script = list of rounds, each a list of
    booleans (event is named 'ready' or not).  Returns the BackOff delays as Fractions."""
    import lomond.persist as P
    rounds = iter(script)
    class Ev(object):
        def __init__(self, ready):
            self.name = 'ready' if ready else 'poll'
    class Ws(object):
        def connect(self, **kw):
            return iter([Ev(b) for b in next(rounds)])
    class Exit(object):
        n = 0
        def wait(self, t):
            Exit.n += 1
            return Exit.n >= len(script)
    real = P.random
    P.random = lambda: float(u)
    try:
        out = [e.delay for e in P.persist(Ws(), min_wait=fl(min_wait), max_wait=fl(max_wait), exit_event=Exit())
               if e.__class__.__name__ == 'BackOff']
    finally:
        P.random = real
    return [Fraction(d) for d in out]


def exponent(script):
    """value of `retries` when the last round's delay is computed (delay = 1/2 * 2**retries)"""
    d = persist_delays(script, 0, 1 << 60, Fraction(1, 2))[-1] * 2
    e = d.numerator.bit_length() - 1
    if d != 1 << e:
        raise ValueError('delay %s is not u * 2**retries' % d)
    return e


def py_persistRetriesInit():
    return exponent([[]]) - 1                      # the first pass adds one before the first delay


def py_persistRetriesNext(k):
    return exponent([[]] * (k + 1))                # k passes without Ready, then one more


def py_persistAfterEvent(is_ready, k):
    return exponent([[]] * (k - 1) + [[is_ready]])  # retries is k when the event of the k-th pass arrives


def py_persistWaitFor(min_wait, max_wait, retries, u):
    return persist_delays([[]] * retries, min_wait, max_wait, u)[-1]


# ---------------------------------------------------------------------------------------------
# inputs

def bits():
    return [(f, a, b, c) for f in (0, 1) for a in (0, 1) for b in (0, 1) for c in (0, 1)]


def blob(rng, n):
    return bytes(rng.randrange(256) for _ in range(n))


def cases_for(name, rng, quick):
    k = 1 if quick else 8
    if name == 'frameBuildMaskBit':
        return [(True,), (False,)]
    if name == 'frameBuildByte0':
        return [b + (op,) for b in bits() for op in range(16)]
    if name == 'frameBuildHeader':
        out = []
        for m in (0, 128):
            lens = [n for n in LEN_EDGES if m == 0 or n <= 70000] + [rng.randrange(0, 200) for _ in range(40 * k)]
            lens += [rng.randrange(0, 1 << 63) for _ in range(40 * k)] if m == 0 else [rng.randrange(0, 70000) for _ in range(10 * k)]
            out += [(rng.choice([0x81, 0x82, 0x01, 0x80, 0x89, 0x8a, 0x88, 0xc1, 0xf2, 0x00]), m, n) for n in lens]
        return out
    if name == 'frameBuildClosePayload':
        return [(c, blob(rng, n)) for c in (None, 0, 1000, 1001, 4999, 65535) for n in (0, 1, 2, 123, 124, 125)]
    if name in ('wsSendPingGuard', 'wsSendPongGuard'):
        return [(ib, blob(rng, n)) for ib in (True, False) for n in list(range(120, 132)) + [0, 1, 300]]
    if name == 'wsClose':
        out = [(cl, cg, c, blob(rng, n)) for cl in (False, True) for cg in (False, True)
               for c in (None, 0, 1000, 65535, 65536, 70000, 1 << 40) for n in (0, 1, 122, 123, 124, 125, 126, 200)]
        return out
    if name == 'frameIsControl':
        return [(o,) for o in range(0, 20)]
    if name == 'opcodeIsReserved':
        return [(o,) for o in range(0, 40)] + [(255,), (256,)]
    if name in ('frameValidateReservedBits', 'compressedFrameValidateReservedBits'):
        return [(a, b, c) for a in (0, 1, 2) for b in (0, 1, 2) for c in (0, 1, 2)]
    if name in ('frameValidate', 'compressedFrameValidate'):
        return [b + (op, blob(rng, n)) for b in bits() for op in range(16) for n in (0, 125, 126)]
    if name == 'parseFields':
        step = 5 if quick else 1
        return [(b1, b2) for b1 in range(256) for b2 in list(range(0, 256, step)) + [125, 126, 127, 253, 254, 255]]
    if name == 'parseLenExt':
        return [(n,) for n in range(128)]
    if name == 'parseTooLarge':
        return [(n,) for n in LEN_EDGES + [1 << 63, (1 << 63) + 1, (1 << 64) - 1] + [rng.randrange(0, 1 << 64) for _ in range(50 * k)]]
    if name in ('parseChecksFrame', 'parseChecksCompressed'):
        out = []
        lens = [0, 1, 124, 125, 126, 127, 128, 65535, 65536, (1 << 63) - 1, 1 << 63, (1 << 64) - 1]
        for b in bits():
            for op in range(16):
                for n in lens:
                    out.append((True,) + b + (op, rng.randrange(2), n))
                out.append((False,) + b + (op, rng.randrange(2), rng.choice(lens)))
        return out
    T = [0, 1, 2, 3, 4, 5, 7, 9, 10, 29, 30, 31, 59, 60, 61, 89, 90, 91, 1000, (1 << 26) - 1]
    if name == 'sessionCheckPoll':
        return ([(p, t, ps) for p in (0, 1, 2, 5) for t in T[:14] for ps in (None, 0, 1, 5, 25, 30, 31, 60)]
                + [(rng.randrange(0, 10), rng.randrange(0, 500), rng.choice([None, rng.randrange(0, 500)])) for _ in range(400 * k)])
    if name == 'sessionCheckAutoPing':
        return ([(r, t, n) for r in (0, 1, 2, 3, 7, 30) for t in T for n in (0, 1, 29, 30, 31, 60, 90)]
                + [(rng.randrange(0, 40), rng.randrange(0, 1 << 20), rng.randrange(0, 1 << 20)) for _ in range(400 * k)])
    if name == 'sessionCheckPingTimeout':
        return ([(p, t, l) for p in (0, 1, 2, 5, 30) for t in T for l in (0, 1, 5, 29, 30, 31, 100)]
                + [(rng.randrange(0, 40), rng.randrange(0, 2000), rng.randrange(0, 2000)) for _ in range(400 * k)])
    if name == 'sessionCheckCloseTimeout':
        return ([(c, t, s) for c in (0, 1, 3, 30) for t in T for s in (None, 0, 1, 29, 30, 31, 60)]
                + [(rng.randrange(0, 40), rng.randrange(0, 2000), rng.choice([None, rng.randrange(0, 2000)])) for _ in range(400 * k)])
    if name == 'persistRetriesInit':
        return [()]
    if name == 'persistRetriesNext':
        return [(n,) for n in range(0, 40)]
    if name == 'persistAfterEvent':
        return [(b, n) for b in (True, False) for n in range(1, 40)]
    if name == 'persistWaitFor':
        out = []
        for mn, mx in ((5, 30), (0, 1), (1, 1), (0, 1 << 40), (Fraction(1, 2), Fraction(33, 4)), (30, 5), (0, 0), (3, 1000)):
            for r in list(range(1, 14)) + [20, 39, 40, 41, 45]:
                for u in (Fraction(0), Fraction(1, 2), Fraction(63, 64), Fraction(rng.randrange(1 << 20), 1 << 20)):
                    out.append((Fraction(mn), Fraction(mx), r, u))
        return out
    if name in ('wsDefaultPort', 'proxyDefaultPort'):
        return [(p, s) for p in (None, 0, 1, 80, 443, 8080, 65535) for s in (True, False)]
    if name == 'deflateWbitsCheck':
        return [(w,) for w in range(-20, 40)] + [(1 << 40,), (-(1 << 40),)]
    if name == 'deflateCompressorWbits':
        return [(w,) for w in range(0, 20)]
    raise KeyError(name)


def observe(fn, a, **kw):
    """canonical result of the original Python; a site that can no longer be observed through its
    entry point (the code changed shape) is a disagreement, not a harness crash"""
    try:
        py = fn(*a, **kw)
    except Exception as e:  # noqa
        return 'not-observable:%s:%s' % (type(e).__name__, str(e)[:80])
    return py if isinstance(py, str) else show(py)


NONE_FOR_ZERO = {'sessionCheckAutoPing', 'sessionCheckPingTimeout', 'sessionCheckCloseTimeout'}


def run(res, pid, tier, seed, model_ok=True):
    """compare every generated definition of the group `pid` with the original Python"""
    if not model_ok:
        res.notes.append('gencheck skipped: the model driver did not build')
        return
    rng = random.Random(seed * 7919 + 17)
    names = GROUPS.get(pid, [])
    lines, meta = [], []
    for name in names:
        fn = globals()['py_' + name]
        for a in cases_for(name, rng, tier == 'quick'):
            line = ' '.join(['gen', name] + [arg(x) for x in a])
            lines.append(line); meta.append((name, observe(fn, a)))
            if name in NONE_FOR_ZERO and a[0] == 0:          # the parameter read as 0 may also be None
                lines.append(line); meta.append((name, observe(fn, a, none_for_zero=True)))
    outs = runner.model_run(lines)
    bad = 0
    for line, (name, py), lean in zip(lines, meta, outs):
        if not same(py, lean):
            bad += 1
            if bad <= 20:
                res.diffs.append(dict(input=line, real=py, model=lean))
    res.evaluations += len(lines)
    res.traces_validated += len(lines)
    res.count('gen-differential', len(lines))
    res.exhaustive['generated_definitions_checked:' + ','.join(names)] = len(lines)
    res.notes.append('gencheck %s: %d evaluations of %d generated definitions against the original Python, %d disagreements'
                     % (pid, len(lines), len(names), bad))
    return bad


# ---------------------------------------------------------------------------------------------
# self-test of the translator on constructs the current sites use little or not at all
# (run by hand: `/venv/bin/python harness/gencheck.py --constructs`; not part of a check)

CONSTRUCTS = '''
def arith(a, b, c):
    return (a + b * c - (a // (b + 1)) % 7, a ** 2 - b, -a + c, (a << 3) >> 1, (a | b) & c, max(a, b) - min(b, c), 0x10 + 0b11 + 0o7)

def compare(a, b, c):
    return (a < b <= c, a == b != c, not a >= b, a > b or b > c and c > a, (a < b) == (b < c), True if a else False)

def truthy(a, o, bs):
    if a and not o:
        return 1
    elif o or bs:
        return 2
    return 3

def option(o, a):
    if o is None:
        return a - 0
    x = o - a
    if x < 0:
        return -x
    return x

def option2(o, a):
    return (o if o else a + 1, a if o is None else o * 2, 5 if o is not None and o > a else 6, o is None or o >= a, bool(o), int(a))

def option3(o, a):
    r = a - 1
    if o:
        r = o - a
    if o is not None:
        r += o
    else:
        r -= 1
    return r

def ceil(a, b):
    if b:
        return math.ceil(a / b) * b
    return 0

def raising(a):
    """docstring"""
    log.debug('x %r', a)
    if a > 10:
        raise ValueError('big {}'.format(a))
    if a == 3:
        raise errors.Three('three')
    x = a
    x += 2
    x *= 3
    return x

def bytes_(bs, n):
    p = bs + b'ab'
    if len(p) > n:
        return p
    return b''
'''

def constructs_selftest():
    import ast, itertools, math, os, subprocess
    import py2lean as P
    tree = ast.parse(CONSTRUCTS)
    N, O, B = P.NAT, P.OPT(P.NAT), P.BYTES
    sig = {'arith': [('a', N), ('b', N), ('c', N)], 'compare': [('a', N), ('b', N), ('c', N)],
           'truthy': [('a', N), ('o', O), ('bs', B)], 'option': [('o', O), ('a', N)], 'option2': [('o', O), ('a', N)],
           'option3': [('o', O), ('a', N)], 'ceil': [('a', N), ('b', N)], 'raising': [('a', N)], 'bytes_': [('bs', B), ('n', N)]}
    dom = {N: [0, 1, 2, 3, 7, 11, 255], O: [None, 0, 1, 5, 300], B: [b'', b'\x00', b'xyz']}
    defs, text, evals, expected = {}, [], [], []
    class Three(Exception):
        pass
    ns = dict(math=math, log=types.SimpleNamespace(debug=lambda *a: None), errors=types.SimpleNamespace(Three=Three))
    exec(CONSTRUCTS, ns)
    for fn in tree.body:
        s = P.Site(fn.name, 'selftest', sig[fn.name], P.body_of(fn))
        lean, d = P.Translator(s, defs).translate()
        defs[fn.name] = d
        text.append(lean)
        for a in itertools.product(*[dom[t] for _, t in sig[fn.name]]):
            terms = []
            for v, (_, t) in zip(a, sig[fn.name]):
                terms.append('none' if v is None else '(some %d)' % v if t == O else '[%s]' % ', '.join(map(str, v)) if t == B else str(v))
            evals.append('#eval IO.println (Py.render (%s %s))' % (fn.name, ' '.join(terms)))
            r = attempt(lambda: ns[fn.name](*a)) if d.raises else show(ns[fn.name](*a))
            expected.append((fn.name, a, r))
    src = 'import Lomond.Model.PyOps\nopen Lomond\nnamespace SelfTest\n' + '\n'.join(text) + '\n' + '\n'.join(evals) + '\nend SelfTest\n'
    d = os.path.join(runner.VERIF, '.scratch')
    os.makedirs(d, exist_ok=True)
    path = os.path.join(d, 'py2lean_selftest.lean')
    open(path, 'w').write(src)
    r = subprocess.run(['lake', 'env', 'lean', path], cwd=runner.LEAN, capture_output=True, text=True)
    out = [l for l in r.stdout.split('\n') if l != '']
    if r.returncode != 0 or len(out) != len(expected):
        print(r.stdout[-3000:], r.stderr[-2000:])
        print('selftest: lean failed (%d lines for %d evaluations)' % (len(out), len(expected)))
        return 2
    bad = [(e, o) for e, o in zip(expected, out) if not same(e[2], o)]
    for e, o in bad[:10]:
        print('DISAGREE %s%r: python %s, lean %s' % (e[0], e[1], e[2], o))
    print('constructs self-test: %d evaluations of %d synthetic functions, %d disagreements' % (len(expected), len(sig), len(bad)))
    return 1 if bad else 0


if __name__ == '__main__':
    import sys
    if '--constructs' in sys.argv:
        sys.exit(constructs_selftest())
