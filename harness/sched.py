"""Deterministic thread scheduler for the REAL lomond code (properties C11, C12).

Several worker threads perform calls on ONE real `lomond.WebSocket` that is connected through a
simulated socket / selector / clock (the handshake is completed in the main thread first).  Exactly
one worker runs at a time; a *schedule* (list of thread ids) decides who runs next.  Nothing in
/repo is edited: the shared objects of the send / close paths are replaced from outside by
recording stand-ins

    state.closing / state.closed / state.sent_close_time   (properties on a subclass of WebSocket.State)
    session._sock                                          (property on the session subclass)
    session._lock                                          (`LockProxy`)
    state.compression._compressobj                         (property + `ZProxy` around the zlib object)
    state.compression._decompressobj                       (property: the receive side, event-loop thread; kinds zd:inflate, zd:peek, zd:reset)
    the socket                                             (`SchedSocket`; `sendall` writes the data in n chunks - n = 2 by default,
                                                            case key `n` - and can be made to fail after k chunks, case key `fail`)

Every access to one of them is a *sync step* `(tid, kind)`; everything else a thread does is
thread-local.  Where each kind of access sits in the source is extracted from the AST of
lomond/websocket.py, session.py and compression.py (`SyncMap`; no line number is written down
here), and every access observed at run time is checked against that map (an access from a line
the map does not know is reported as `unmapped`): this validates the claim that the listed sync
steps are the only shared-state accesses of these paths.

Two granularities:

  mode 'sync'  a schedule entry `t` lets thread t perform its pending sync step and run on to just
               before its next one.  An entry for a thread waiting for the held lock is a no-op
               (logged as `blocked`), an entry for a finished thread is skipped.
  mode 'line'  `sys.settrace` inside each worker: every 'line' event in a /repo/lomond/*.py file is a
               yield point (plus the point between the two halves of `sendall`); an entry `t` lets
               thread t run to its next yield point.  The sync steps executed are logged in the
               order in which they happen, which gives the sync-level schedule the model is run on.

After the schedule is exhausted the remaining threads are run to completion, lowest id first.
"""
from __future__ import annotations
import ast, os, sys, threading, zlib

import lomond
import lomond.session as _session
import lomond.events as _events
import lomond.frame as _frame
import lomond.websocket as _websocket
from lomond.websocket import WebSocket
from lomond.session import WebsocketSession
import world
from world import Scenario, exc_name, test_key

LOMOND_DIR = os.path.dirname(os.path.abspath(lomond.__file__)) + os.sep
FLAGS = ('closing', 'closed', 'sent_close_time')


class SchedError(Exception):
    """the scheduler itself failed (hang, deadlock): an infrastructure problem, never a finding"""


# ---------------------------------------------------------------------------------------------
# where the shared-state accesses are, from the AST

def _is_self_attr(node, attr):
    return (isinstance(node, ast.Attribute) and node.attr == attr and isinstance(node.value, ast.Name)
            and node.value.id == 'self')


class SyncMap:
    """(file, line) -> set of access kinds, found by walking the AST of the three modules"""
    FILES = ('websocket.py', 'session.py', 'compression.py')

    def __init__(self, lomond_dir=LOMOND_DIR):
        self.at = {}
        self.func = {}
        self.problems = []
        for name in self.FILES:
            src = open(os.path.join(lomond_dir, name)).read()
            tree = ast.parse(src)
            for parent in ast.walk(tree):
                for child in ast.iter_child_nodes(parent):
                    child._parent = parent
            self._walk(name, tree, '<module>')
        need = {'rd:closing', 'rd:closed', 'wr:closing', 'wr:closed', 'wr:sent_close_time', 'rd:sock', 'wr:sock',
                'use:sock', 'lock', 'send', 'z:compress', 'z:flush', 'z:reset', 'sockclose',
                'zd:inflate', 'zd:peek', 'zd:reset'}
        have = set().union(*self.at.values()) if self.at else set()
        for k in sorted(need - have):
            self.problems.append('no source location found for access kind %r' % k)

    def _add(self, name, line, kind, fn):
        self.at.setdefault((name, line), set()).add(kind)
        self.func[(name, line)] = fn

    def _walk(self, name, node, fn):
        if isinstance(node, (ast.FunctionDef, ast.AsyncFunctionDef)):
            fn = node.name
        if isinstance(node, ast.Attribute):
            rw = 'wr' if isinstance(node.ctx, ast.Store) else 'rd'
            if node.attr in FLAGS and ((isinstance(node.value, ast.Attribute) and node.value.attr == 'state')
                                       or (isinstance(node.value, ast.Name) and node.value.id == 'state')):
                self._add(name, node.lineno, '%s:%s' % (rw, node.attr), fn)
            elif _is_self_attr(node, '_sock'):
                par = getattr(node, '_parent', None)
                if rw == 'rd' and isinstance(par, ast.Attribute):
                    self._add(name, node.lineno, 'use:sock', fn)      # `self._sock.method(...)`
                else:
                    self._add(name, node.lineno, '%s:sock' % rw, fn)
            elif _is_self_attr(node, '_compressobj') and rw == 'wr':
                self._add(name, node.lineno, 'z:reset', fn)
            elif _is_self_attr(node, '_decompressobj'):
                # the receive side (event-loop thread only): store = new decompressor, `.decompress(...)` = inflate,
                # any other load (`.unused_data`) = a look at the object
                par = getattr(node, '_parent', None)
                if rw == 'wr':
                    self._add(name, node.lineno, 'zd:reset', fn)
                elif isinstance(par, ast.Attribute) and par.attr == 'decompress':
                    self._add(name, node.lineno, 'zd:inflate', fn)
                else:
                    self._add(name, node.lineno, 'zd:peek', fn)
        if isinstance(node, ast.With):
            for item in node.items:
                if _is_self_attr(item.context_expr, '_lock'):
                    self._add(name, node.lineno, 'lock', fn)
        if isinstance(node, ast.Call) and isinstance(node.func, ast.Attribute):
            f = node.func
            if _is_self_attr(f.value, '_sock'):
                if f.attr == 'sendall':
                    self._add(name, node.lineno, 'send', fn)
                elif f.attr in ('shutdown', 'close'):
                    self._add(name, node.lineno, 'sockclose', fn)
            if _is_self_attr(f.value, '_compressobj') and f.attr in ('compress', 'flush'):
                self._add(name, node.lineno, 'z:' + f.attr, fn)
        for child in ast.iter_child_nodes(node):
            self._walk(name, child, fn)

    def kinds(self, frame):
        return self.at.get((os.path.basename(frame.f_code.co_filename), frame.f_lineno), set())


_SYNCMAP = None


def syncmap():
    global _SYNCMAP
    if _SYNCMAP is None:
        _SYNCMAP = SyncMap()
    return _SYNCMAP


def _lomond_frame():
    """the innermost frame that executes lomond code (the caller of a stand-in object)"""
    f = sys._getframe(2)
    while f is not None and not f.f_code.co_filename.startswith(LOMOND_DIR):
        f = f.f_back
    return f


# ---------------------------------------------------------------------------------------------
# the scheduler

class Sched:
    def __init__(self, mode, schedule, nthreads):
        assert mode in ('sync', 'line')
        self.mode = mode
        self.schedule = list(schedule)
        self.n = nthreads
        self.cv = threading.Condition()
        self.turn = None
        self.ident = {}                       # thread ident -> tid
        self.done = [False] * nthreads
        self.parked = [False] * nthreads
        self.started = [False] * nthreads     # hooks / yield points are inert before (loop thread prologue)
        self.pending = [None] * nthreads      # sync mode: the access the thread is about to make
        self.waiting = [None] * nthreads      # the LockProxy the thread wants (None: not waiting)
        self.call = [0] * nthreads
        self.steps = []                       # (tid, kind) in execution order
        self.active = False
        self.release = threading.Event()
        self.problems = []
        self.lock = None
        self.map = syncmap()
        self.yields = 0
        self.ycount = [0] * nthreads          # line mode: yield points passed by each thread
        self.step_at = []                     # for each sync step: the executing thread's ycount

    # -- identity ------------------------------------------------------------------------------
    def me(self):
        if not self.active:
            return None
        tid = self.ident.get(threading.get_ident())
        if tid is None or not self.started[tid] or self.parked[tid]:
            return None
        return tid

    # -- hand-over -----------------------------------------------------------------------------
    def _pause(self, tid):
        with self.cv:
            self.turn = None
            self.cv.notify_all()
            while self.turn != tid:
                self.cv.wait()

    def _activate(self, tid):
        with self.cv:
            self.turn = tid
            self.cv.notify_all()
            if not self.cv.wait_for(lambda: self.turn is None, timeout=20):
                raise SchedError('thread %d did not come back (steps so far: %r)' % (tid, self.steps[-8:]))

    # -- sync steps ----------------------------------------------------------------------------
    AST_KIND = {'w1': 'send', 'acq': 'lock', 'rel': 'lock'}

    def check_map(self, tid, kind):
        f = _lomond_frame()
        base = kind.split('=')[0]
        base = self.AST_KIND.get(base, base)
        if f is None or base not in self.map.kinds(f):
            where = '%s:%d' % (os.path.basename(f.f_code.co_filename), f.f_lineno) if f else '?'
            self.problems.append('unmapped access %s by thread %d at %s' % (kind, tid, where))

    def step(self, kind, check=True):
        """called by a stand-in object immediately before it performs the access"""
        tid = self.me()
        if tid is None:
            return None
        if check:
            self.check_map(tid, kind)
        if self.mode == 'sync':
            self.pending[tid] = kind
            self._pause(tid)
            self.pending[tid] = None
        self._log(tid, kind)
        return tid

    def line_yield(self, tid):
        self.yields += 1
        self.ycount[tid] += 1
        self._pause(tid)

    def _log(self, tid, kind):
        self.steps.append((tid, kind))
        self.step_at.append(self.ycount[tid])

    def _tracer(self, tid):
        sched = self

        def local(frame, event, arg):
            if event == 'line' and sched.active and sched.started[tid] and not sched.parked[tid]:
                sched.line_yield(tid)
            return local

        def glob(frame, event, arg):
            if frame.f_code.co_filename.startswith(LOMOND_DIR):
                return local
            return None
        return glob

    # -- the lock ------------------------------------------------------------------------------
    def lock_acquire(self, lock):
        tid = self.me()
        if tid is None:
            lock.owner = 'main'
            return
        self.check_map(tid, 'acq')
        self.waiting[tid] = lock
        if self.mode == 'sync':
            self.pending[tid] = 'acq'
            self._pause(tid)                    # the controller activates a waiting thread only when the lock is free
            self.pending[tid] = None
        elif lock.owner is not None:
            self._log(tid, 'blocked')             # this entry found the lock held: a no-op
            self._pause(tid)
        if lock.owner is not None:
            raise SchedError('thread %d activated on a held lock' % tid)
        self.waiting[tid] = None
        lock.owner = tid
        self._log(tid, 'acq')

    def lock_release(self, lock):
        tid = self.me()
        if tid is None:
            lock.owner = None
            return
        self.check_map(tid, 'rel')
        if self.mode == 'sync':
            self.pending[tid] = 'rel'
            self._pause(tid)
            self.pending[tid] = None
        lock.owner = None
        self._log(tid, 'rel')

    # -- running -------------------------------------------------------------------------------
    def _body(self, tid, fn):
        self.ident[threading.get_ident()] = tid
        with self.cv:
            while self.turn != tid:
                self.cv.wait()
        if self.mode == 'line':
            sys.settrace(self._tracer(tid))
        try:
            fn()
        except world.ScriptEnd:
            pass
        except BaseException as e:  # noqa - a worker must never die silently
            self.problems.append('worker %d died: %s: %s' % (tid, type(e).__name__, e))
        finally:
            sys.settrace(None)
            with self.cv:
                self.done[tid] = True
                if self.turn == tid:
                    self.turn = None
                self.cv.notify_all()

    def park(self, tid):
        """the loop thread has nothing more to read: it counts as finished until the run is over"""
        with self.cv:
            self.done[tid] = True
            self.parked[tid] = True
            self.turn = None
            self.cv.notify_all()
        self.release.wait()

    def _runnable(self, t):
        return not self.done[t] and not (self.waiting[t] is not None and self.waiting[t].owner is not None)

    def _entry(self, t):
        if not (0 <= t < self.n) or self.done[t]:
            return
        if self.waiting[t] is not None and self.waiting[t].owner is not None:
            self._log(t, 'blocked')
            return
        self._activate(t)

    def run(self, fns, starters):
        """fns[tid]: the thread's body; starters[tid]: True when the thread is 'started' from the
        beginning (application threads), False when it declares its own start (the loop thread)"""
        threads = []
        for tid, fn in enumerate(fns):
            self.started[tid] = bool(starters[tid])
            th = threading.Thread(target=self._body, args=(tid, fn), daemon=True)
            threads.append(th)
        self.active = True
        for th in threads:
            th.start()
        try:
            for tid in range(self.n):           # prologue: every thread runs up to its first yield point
                self._activate(tid)
            for t in self.schedule:
                self._entry(t)
            guard = 0
            while not all(self.done):
                guard += 1
                if guard > 100000:
                    raise SchedError('drain does not terminate')
                cand = [t for t in range(self.n) if self._runnable(t)]
                if not cand:
                    raise SchedError('deadlock: every unfinished thread waits for the lock')
                t = cand[0]
                self._entry(t)
        finally:
            self.active = False
        return threads

    def finish(self, threads):
        self.release.set()
        with self.cv:
            self.turn = 'over'
            self.cv.notify_all()
        for th in threads:
            th.join(timeout=10)


# ---------------------------------------------------------------------------------------------
# stand-ins for the shared objects

class LockProxy:
    """`session._lock`: only one worker runs at a time, so ownership is a plain attribute"""

    def __init__(self, sched):
        self.sched = sched
        self.owner = None

    def __enter__(self):
        self.sched.lock_acquire(self)
        return self

    def __exit__(self, *exc):
        self.sched.lock_release(self)
        return False

    def acquire(self, blocking=True, timeout=-1):
        if not blocking:
            tid = self.sched.step('tryacq')
            if self.owner is not None:
                return False
            self.owner = tid if tid is not None else 'main'
            if tid is not None:
                self.sched._log(tid, 'acq')
            return True
        if timeout is not None and timeout > 0:
            # an acquire with a timeout: how long the holder keeps the lock is the scheduler's choice - after three schedule
            # entries that found the lock held the timeout is taken to have expired
            sched = self.sched
            tid = sched.me()
            if tid is None:
                self.owner = 'main'
                return True
            tries = 0
            while True:
                sched.step('tryacq')
                if self.owner is None:
                    self.owner = tid
                    sched._log(tid, 'acq')
                    return True
                tries += 1
                if tries >= 3:
                    sched._log(tid, 'acquire-timed-out')
                    return False
        self.sched.lock_acquire(self)
        return True

    def release(self):
        self.sched.lock_release(self)

    def locked(self):
        return self.owner is not None


class SchedSocket:
    def __init__(self, run):
        self.run = run
        self.closed = False

    def fileno(self):
        return 0

    def settimeout(self, t):
        pass

    def setsockopt(self, *a):
        pass

    def sendall(self, data):
        """`sendall` as a sequence of n >= 1 `send()`s ("chunks"; n = run.nchunks, default 2): the first n-1 are
        sync steps `w1`, the last one is `w2`; a yield point before each.  With n = 1 the `w1` step writes nothing.
        An injected failure (run.fail_at[(tid, call)] = k) raises OSError once k chunks of this frame are out."""
        run, sched = self.run, self.run.sched
        data = bytes(data)
        tid = sched.me()
        if tid is None:
            if self.closed:
                raise OSError(9, 'simulated: socket is closed')
            run.unscheduled_writes.append(data)
            return
        call = sched.call[tid]
        n = run.nchunks(tid, call)
        m = n - 1
        q = len(data) // n
        kfail = run.fail_at.get((tid, call))
        # pre-connect cases: the HTTP request goes through the same steps but is kept apart from the frames (the oracles judge the
        # frames); where its chunks stand among the frame chunks is recorded (`pos` = number of frame chunks written before)
        is_req = run.pre and data.startswith(b'GET ')
        sink = run.request if is_req else run.chunks
        rec = dict(tid=tid, call=call, data=data, written=0, failed=False)
        if sink is run.chunks:
            run.sendalls.append(rec)

        def boom(k):
            rec['failed'] = True
            raise OSError(32, 'simulated: sendall failed after %d chunk(s)' % k)

        def dead():
            # every `send()` on a socket that has been shut down and closed raises EBADF.  Reachable: a sender that passed the state
            # checks AFTER the loop thread shut the socket down and before it stored `_sock = None` / `closed = True` - TransportFail to
            # the caller, nothing written.  The attempt is a sync step like any other write (the model's `write1` on `sockShut`);
            # recorded for the oracle, which must know that this TransportFail was not injected by the harness
            if self.closed:
                run.dead_writes.append((tid, call))
                raise OSError(9, 'simulated: socket is closed')
        if m == 0:
            sched.step('w1')
            dead()
            if kfail == 0:
                boom(0)
        for j in range(m):
            sched.step('w1', check=(j == 0))
            dead()
            if kfail == j:
                boom(j)
            sink.append((tid, call, 0, data[j * q:(j + 1) * q]) + ((len(run.chunks),) if is_req else ()))
            rec['written'] += q
            # a yield point between two chunks, in both modes
            if sched.mode == 'line':
                sched.line_yield(tid)
        sched.step('w2', check=False)
        dead()
        if kfail == m:
            boom(m)
        sink.append((tid, call, 1, data[m * q:]) + ((len(run.chunks),) if is_req else ()))
        rec['written'] = len(data)

    def recv_into(self, buf, count):
        data = self.run.pending_recv
        self.run.pending_recv = None
        if data is None:
            raise AssertionError('recv without readable')
        buf[:len(data)] = data
        return len(data)

    def shutdown(self, how):
        pass

    def close(self):
        self.run.sched.step('sockclose')
        self.closed = True


class ZProxy:
    """the zlib compression object as seen by one `self._compressobj.<method>(...)` expression: the
    sync step is taken when the attribute is LOADED (load and call sit on one source line, so they
    are atomic at line granularity); the call itself only records what was fed / returned"""

    def __init__(self, run, obj, tid):
        self.run, self.obj, self.tid = run, obj, tid

    def _rec(self, kind, out, data=b''):
        if self.tid is not None:
            self.run.zcalls.append(dict(tid=self.tid, call=self.run.sched.call[self.tid], kind=kind, data=bytes(data),
                                        out=out, obj=self.run.zobj_serial(self.obj)))

    def compress(self, data):
        out = self.obj.compress(data)
        self._rec('compress', out, data)
        return out

    def flush(self, mode=zlib.Z_FINISH):
        out = self.obj.flush(mode)
        self._rec('flush', out)
        return out


def _traced_state_class(base, sched):
    class TracedState(base):
        pass

    def mk(attr):
        def getter(self):
            sched.step('rd:' + attr)
            return self.__dict__[attr]

        def setter(self, value):
            if attr == 'sent_close_time':
                sched.step('wr:' + attr)
            else:
                sched.step('wr:%s=%d' % (attr, 1 if value else 0))
            self.__dict__[attr] = value
        return property(getter, setter)
    for a in FLAGS:
        setattr(TracedState, a, mk(a))
    return TracedState


def _traced_deflate_class(base, run):
    class TracedDeflate(base):
        def _get(self):
            sched = run.sched
            tid = sched.me()
            if tid is not None:
                kinds = sched.map.kinds(sys._getframe(1))
                k = [x for x in ('z:compress', 'z:flush') if x in kinds]
                if len(k) == 1:
                    sched.step(k[0])
                else:
                    f = sys._getframe(1)
                    sched.problems.append('unmapped load of _compressobj by thread %d at %s:%d' % (
                        tid, os.path.basename(f.f_code.co_filename), f.f_lineno))
            return ZProxy(run, self.__dict__['_compressobj'], tid)

        def _set(self, obj):
            tid = run.sched.step('z:reset')
            if tid is not None:
                run.zcalls.append(dict(tid=tid, call=run.sched.call[tid], kind='reset', obj=run.zobj_serial(obj)))
            self.__dict__['_compressobj'] = obj
        _compressobj = property(_get, _set)

        def _dget(self):
            sched = run.sched
            tid = sched.me()
            if tid is not None:
                kinds = sched.map.kinds(sys._getframe(1))
                k = [x for x in ('zd:inflate', 'zd:peek') if x in kinds]
                if len(k) == 1:
                    sched.step(k[0])
                else:
                    f = sys._getframe(1)
                    sched.problems.append('unmapped load of _decompressobj by thread %d at %s:%d' % (
                        tid, os.path.basename(f.f_code.co_filename), f.f_lineno))
            return self.__dict__['_decompressobj']

        def _dset(self, obj):
            run.sched.step('zd:reset')
            self.__dict__['_decompressobj'] = obj
        _decompressobj = property(_dget, _dset)
    return TracedDeflate


class ParkingSelector:
    """the selector of the simulated world; the scripted reads belong to the loop thread"""

    def __init__(self, sock):
        self.run = sock.run

    def wait(self, max_bytes, timeout=0.0):
        run = self.run
        sched = run.sched
        if not run.env:
            tid = sched.ident.get(threading.get_ident()) if sched.active else None
            if tid is None:
                raise world.ScriptEnd()
            sched.park(tid)
            raise world.ScriptEnd()
        tid = sched.ident.get(threading.get_ident()) if sched.active else None
        if tid is not None:
            if run.pre and not run.pre_waited:
                run.pre_waited = True       # `cn` covers connect, request and the read of the reply
            elif sched.started[tid]:
                sched.call[tid] += 1
                run.loop_events.append([])
            else:
                sched.started[tid] = True
                sched.call[tid] = 0
                run.loop_events.append([])
        step = run.env.pop(0)
        if step[0] == 'tick':
            run.clock.t += float(step[1])
            return False, max_bytes
        run.pending_recv = step[1]
        return True, max_bytes

    def close(self):
        pass


# ---------------------------------------------------------------------------------------------
# one run

APP_CALLS = ('st1', 'st0', 'sb1', 'sb0', 'pi', 'po', 'cl')
LOOP_CALLS = ('rp', 'rc', 'tk', 'rm', 'rm2', 'cn', 'ab')


def parse_call(tok):
    """`st1=<hex>` send_text(compress=True) | st0 | sb1 | sb0 | pi=<hex> | po=<hex> | cl=<code|N>,<hex>
       loop thread: rp=<hex> (server Ping) | rc=<code|N>,<hex> (server Close) | tk (31 s of silence: auto-ping)
                    rm=<hex> (server Text message, COMPRESSED, one frame; <hex> = its UTF-8 text; needs z != 0)
                    rm2=<hex> (the same in two fragments: Text FIN=0 RSV1=1, Continuation FIN=1)
                    cn (first call only): the case starts BEFORE the event loop is first advanced; the loop thread connects,
                       writes the request and reads the reply under the scheduler, racing with the application threads"""
    if tok in ('tk', 'cn', 'ab'):
        return (tok,)
    h, a = tok.split('=', 1)
    if h in ('cl', 'rc'):
        c, r = a.split(',')
        return (h, None if c == 'N' else int(c), bytes.fromhex(r))
    return (h, bytes.fromhex(a))


def is_loop_prog(prog):
    return bool(prog) and prog[0].split('=')[0] in LOOP_CALLS


def key_index(tid, call):
    return tid * 16 + call


class Run:
    """state of one execution of (programs, schedule) on the real code"""

    def __init__(self):
        self.chunks = []              # (tid, call, half, bytes)
        self.unscheduled_writes = []
        self.zcalls = []
        self.results = {}
        self.loop_events = []
        self.env = []
        self.pending_recv = None
        self.clock = world.Clock()
        self._zobjs = []
        self.sendalls = []            # every sendall of a scheduled thread: dict(tid, call, data, written, failed)
        self.n_default = 2
        self.n_of = {}                # (tid, call) -> chunks
        self.fail_at = {}             # (tid, call) -> k: the sendall raises once k chunks are out
        self.sent_by_server = []      # texts (bytes) of the compressed messages the simulated server sends, in order
        self.received = []            # texts (bytes) of the Text events the loop thread yielded, in order
        self.lock_stores = []         # source lines that stored a NEW object into session._lock after the constructor's
        self.pre = False              # the case starts BEFORE the connection exists (loop program starts with `cn`)
        self.request = []             # pre: the chunks of the HTTP request (tid, call, half, bytes, number of frame chunks before it)
        self.pre_waited = False
        self.dead_writes = []         # (tid, call): a sendall attempted on the socket after the loop thread closed it / stored None
        self.abandon = False          # loop program `ab`: the consumer walks away - the loop thread closes the event generator

    def nchunks(self, tid, call):
        return max(1, int(self.n_of.get((tid, call), self.n_default)))

    def zobj_serial(self, obj):
        """a stable number for a zlib object (id() values are reused after an object is freed)"""
        for k, o in enumerate(self._zobjs):
            if o is obj:
                return k
        self._zobjs.append(obj)
        return len(self._zobjs) - 1


def run_real(case):
    """case: dict(z=0|1|2, progs=[[call token, ...], ...], schedule=[tid, ...], mode='sync'|'line')
       returns dict(steps=[(tid, kind)], chunks=[(tid, call, half, hex)], results={tid: [...]}, flags=..., zlog=..., problems=[...])"""
    from refcodec import server_frame, close_payload
    z = case.get('z', 0)
    progs = [list(p) for p in case['progs']]
    mode = case.get('mode', 'sync')
    run = Run()
    # the socket: `n` = chunks per sendall (an int, or {"t.c": n, "*": n}); `fail` = [[tid, call, k], ...]
    nspec = case.get('n', 2)
    if isinstance(nspec, dict):
        run.n_default = int(nspec.get('*', 2))
        for key, val in nspec.items():
            if key != '*':
                t_, c_ = key.split('.')
                run.n_of[(int(t_), int(c_))] = int(val)
    else:
        run.n_default = int(nspec)
    for t_, c_, k_ in case.get('fail', []):
        run.fail_at[(int(t_), int(c_))] = int(k_)
    sched = Sched(mode, case['schedule'], len(progs))
    run.sched = sched
    sc = Scenario([], compress=z != 0)
    ext = b''
    if z == 1:
        ext = b'Sec-WebSocket-Extensions: permessage-deflate\r\n'
    elif z == 2:
        ext = b'Sec-WebSocket-Extensions: permessage-deflate; client_no_context_takeover\r\n'
    elif z == 3:
        ext = b'Sec-WebSocket-Extensions: permessage-deflate; server_no_context_takeover\r\n'
    elif z == 4:
        ext = b'Sec-WebSocket-Extensions: permessage-deflate; client_no_context_takeover; server_no_context_takeover\r\n'
    from refcodec import DeflatePeer
    server = DeflatePeer(server_no_takeover=z in (3, 4))
    run.env = [('recv', sc.good_reply(ext))]
    loop_tids = [i for i, p in enumerate(progs) if is_loop_prog(p)]
    if len(loop_tids) > 1:
        raise ValueError('at most one loop thread')
    for tid in loop_tids:
        for tok in progs[tid]:
            c = parse_call(tok)
            if c[0] == 'ab':
                if progs[tid] != ['ab']:
                    raise ValueError('ab is a loop program of its own')
                run.abandon = True
            elif c[0] == 'cn':
                run.pre = True
            elif c[0] == 'rp':
                run.env.append(('recv', server_frame(9, c[1])))
            elif c[0] == 'rc':
                run.env.append(('recv', server_frame(8, close_payload(c[1], c[2]))))
            elif c[0] == 'tk':
                run.env.append(('tick', 31))
            elif c[0] in ('rm', 'rm2'):
                if z == 0:
                    raise ValueError('rm needs negotiated compression')
                zdata = server.compress(c[1])
                run.sent_by_server.append(c[1])
                if c[0] == 'rm' or len(zdata) < 2:
                    run.env.append(('recv', server_frame(1, zdata, rsv1=1)))
                else:
                    h = len(zdata) // 2
                    run.env.append(('recv', server_frame(1, zdata[:h], fin=0, rsv1=1) + server_frame(0, zdata[h:])))
            else:
                raise ValueError(tok)

    class SchedSession(WebsocketSession):
        _selector_cls = ParkingSelector

        # `session._lock`: whatever lock object the code stores, the scheduler sees a LockProxy of its own in its place (one per
        # store: a lock that is REPLACED is a different lock - threads inside the old one do not exclude threads inside the new one)
        def _get_lock(self):
            return self.__dict__['_lock_proxy']

        def _set_lock(self, value):
            if '_lock_proxy' in self.__dict__:
                f = sys._getframe(1)
                run.lock_stores.append('%s:%d' % (os.path.basename(f.f_code.co_filename), f.f_lineno))
            self.__dict__['_lock_proxy'] = LockProxy(sched)
            sched.lock = self.__dict__['_lock_proxy']
        _lock = property(_get_lock, _set_lock)

        def _connect(self):
            s = SchedSocket(run)
            run.sock = s
            return s, None

        def _get_sock(self):
            tid = sched.me()
            if tid is not None:
                f = sys._getframe(1)
                kinds = sched.map.kinds(f)
                if 'rd:sock' in kinds:
                    sched.step('rd:sock')
                elif 'use:sock' not in kinds:
                    sched.problems.append('unmapped load of _sock by thread %d at %s:%d' % (
                        tid, os.path.basename(f.f_code.co_filename), f.f_lineno))
                elif self.__dict__.get('_sock_value') is None and f.f_code.co_name == '_sendall':
                    # `self._sock.sendall` after another thread stored `_sock = None` (which it does after it has shut the socket
                    # down): AttributeError -> TransportFail.  The attempted write is the sync step `w1`, as on the shut socket
                    sched.step('w1', check=False)
                    run.dead_writes.append((tid, sched.call[tid]))
            return self.__dict__.get('_sock_value')

        def _set_sock(self, value):
            sched.step('wr:sock')
            self.__dict__['_sock_value'] = value
        _sock = property(_get_sock, _set_sock)

    class TimeShim:
        @staticmethod
        def time():
            return run.clock.t

    def next_key():
        tid = sched.me()
        if tid is None:
            return test_key(255)
        return test_key(key_index(tid, sched.call[tid]))

    saved = (_session.time, _events.time, _frame.make_masking_key, _websocket.os.urandom)
    threads = []
    gen = None
    out = dict(problems=[])
    try:
        _session.time = TimeShim
        _events.time = TimeShim
        _frame.make_masking_key = next_key
        _websocket.os.urandom = lambda n: sc.key_bytes()[:n]
        ws = WebSocket(sc.url, proxies={}, compress=z != 0)
        gen = ws.connect(session_class=SchedSession, poll=5.0, ping_rate=30.0, ping_timeout=None,
                         auto_pong=True, close_timeout=None)
        if run.pre:
            if z != 0:
                raise ValueError('cn cases run without compression')
            run.loop_events.append([])
            ws.state.__class__ = _traced_state_class(type(ws.state), sched)
        else:
            names = []
            for ev in gen:
                names.append(ev.name)
                if ev.name == 'poll':
                    break
            if names != ['connecting', 'connected', 'ready', 'poll']:
                raise SchedError('handshake did not complete: %r' % names)
            if (z != 0) != bool(ws.state.compression):
                raise SchedError('compression not negotiated as requested')
            ws.state.__class__ = _traced_state_class(type(ws.state), sched)
            if ws.state.compression:
                ws.state.compression.__class__ = _traced_deflate_class(type(ws.state.compression), run)

        def app_body(tid, calls):
            def body():
                res = run.results.setdefault(tid, [])
                for i, tok in enumerate(calls):
                    sched.call[tid] = i
                    c = parse_call(tok)
                    try:
                        if c[0] in ('st1', 'st0'):
                            ws.send_text(c[1].decode('utf-8'), compress=c[0] == 'st1')
                        elif c[0] in ('sb1', 'sb0'):
                            ws.send_binary(c[1], compress=c[0] == 'sb1')
                        elif c[0] == 'pi':
                            ws.send_ping(c[1])
                        elif c[0] == 'po':
                            ws.send_pong(c[1])
                        elif c[0] == 'cl':
                            ws.close(c[1], c[2])
                        else:
                            raise ValueError(tok)
                    except Exception as e:  # noqa
                        res.append(exc_name(e))
                    else:
                        res.append('ok')
            return body

        def loop_body(tid):
            def body():
                if run.abandon:
                    gen.close()         # GeneratorExit at the yield the generator is suspended at: the library's cleanup runs here
                    run.loop_events.append(['abandoned'])
                    return
                for ev in gen:
                    if run.loop_events:
                        run.loop_events[-1].append(ev.name)
                    if ev.name == 'text':
                        run.received.append(ev.text.encode('utf-8'))
            return body

        fns, starters = [], []
        for tid, p in enumerate(progs):
            if tid in loop_tids:
                fns.append(loop_body(tid)); starters.append(run.pre or run.abandon)
            else:
                fns.append(app_body(tid, p)); starters.append(True)
        threads = sched.run(fns, starters)
        st = ws.state.__dict__
        out.update(
            steps=list(sched.steps),
            step_at=list(sched.step_at),
            chunks=[(t, c, h, b.hex()) for t, c, h, b in run.chunks],
            results={t: list(r) for t, r in run.results.items()},
            loop_events=[list(e) for e in run.loop_events],
            flags=dict(closing=bool(st['closing']), closed=bool(st['closed']),
                       sock=ws.state.session.__dict__.get('_sock_value') is not None, shut=bool(getattr(run, 'sock', None) is not None and run.sock.closed),
                       lock=sched.lock.owner),
            zcalls=[dict(tid=c['tid'], call=c['call'], kind=c['kind'], data=c.get('data', b'').hex(), out=c.get('out', b'').hex(),
                         obj=c['obj']) for c in run.zcalls],
            deflate=(None if not ws.state.compression else dict(reset=bool(ws.state.compression.reset_compress),
                                                               wbits=ws.state.compression.compress_wbits)),
            yields=sched.yields,
            sendalls=[dict(tid=w['tid'], call=w['call'], data=w['data'].hex(), written=w['written'], failed=w['failed'])
                      for w in run.sendalls],
            server_sent=[b.hex() for b in run.sent_by_server],
            received=[b.hex() for b in run.received],
            lock_stores=list(run.lock_stores),
            dead_writes=[list(x) for x in run.dead_writes],
            request=[(t, c, h, b.hex(), pos) for t, c, h, b, pos in run.request],
        )
        for tid in loop_tids:
            out['results'][tid] = ['+'.join(e) if e else '-' for e in run.loop_events]
    finally:
        sched.active = False
        try:
            sched.finish(threads)
            if gen is not None:
                try:
                    gen.close()
                except BaseException:  # noqa
                    pass
        finally:
            _session.time, _events.time, _frame.make_masking_key, _websocket.os.urandom = saved
    out['problems'] = list(sched.problems) + list(sched.map.problems)
    return out


if __name__ == '__main__':
    import json, logging
    logging.disable(logging.CRITICAL)
    case = json.loads(sys.argv[1])
    r = run_real(case)
    print(' '.join('%d:%s' % s for s in r['steps']))
    for k in ('chunks', 'results', 'flags', 'problems', 'yields'):
        print(k, r[k])
