#!/usr/bin/env python3
"""mkseedtable.py: regenerate the table of seeded changes in DESIGN.md (section A4) from seeded/*/meta.json"""
import glob, json, os, re
ROOT = os.path.dirname(os.path.dirname(os.path.abspath(__file__)))
rows = ['| seeded change | property | caught by | what was changed | needs to manifest |', '|---|---|---|---|---|']
def clean(t, n):
    t = re.sub(r'\s+', ' ', str(t or '')).replace('|', '/')
    return t[:n]
for d in sorted(glob.glob(os.path.join(ROOT, 'seeded', '*'))):
    m = json.load(open(os.path.join(d, 'meta.json')))
    rows.append('| %s | %s | %s | %s | %s |' % (os.path.basename(d), m['property'], ', '.join(m.get('caught_by', [])), clean(m.get('summary') or m.get('site'), 220), clean(m.get('needs'), 180)))
p = os.path.join(ROOT, 'DESIGN.md')
s = open(p).read()
a = s.index('| seeded change | property | caught by |')
b = s.index('## A5. Trusted base')
s = s[:a] + '\n'.join(rows) + '\n\n' + s[b:]
open(p, 'w').write(s)
print('%d seeded changes' % (len(rows) - 2))
