"""Shared by C11 and C12: cases = (programs, deflate mode, schedule, granularity); running them on the
real code (harness/sched.py) and on the thread model (driver op `threads`), canonical comparison,
and the model-free oracles.

A case is a JSON-able dict  {z: 0..4, progs: [[call token, ...], ...], schedule: [tid, ...], mode: 'sync'|'line',
                               n: chunks per sendall (int, or {"*": n, "<tid>.<call>": n}; default 2), fail: [[tid, call, k], ...]}
(call tokens: see sched.parse_call).  z: 0 = no extension, 1 = permessage-deflate with context
takeover, 2 = with client_no_context_takeover, 3 = with server_no_context_takeover, 4 = both.
`fail`: the sendall of that call raises once k chunks are out (TransportFail to the caller)."""
from __future__ import annotations
import re
import random, struct, zlib
import runner
import sched
from refcodec import decode_client_frames, ClientFrameError, DeflatePeer, close_payload

WS_ERRORS = ('WebSocketClosing', 'WebSocketClosed', 'WebSocketUnavailable')


# ---------------------------------------------------------------------------------------------
# running

def real_case(case):
    """worker-process entry: run one case on the real code"""
    try:
        return sched.run_real(case)
    except sched.SchedError as e:
        return {'__crash__': 'SchedError: %s' % e, 'tb': ''}


def is_pre(case):
    """cases that start before the connection exists (`cn`: model state `initPre`, loop call `.connect`) or abandon the loop
    (`ab`: loop call `.abandon`); compared with the thread model like all others (they were oracle-only before)"""
    return any(p and p[0] in ('cn', 'ab') for p in case['progs'])


def dead_writes(r):
    """calls whose `sendall` was attempted on a socket the loop thread had already shut down (or after `_sock = None` was stored) -
    the window between the `sockclose` of `_close_socket()` and the stores that make `_check_writable` refuse (`_sock = None`,
    `closed = True`), reachable when the loop is abandoned (`ab`) or the request write fails (`cn` + fail).  The real code raises
    TransportFail (swallowed by close()) and writes nothing; so does the thread model (`failWrite` on `sockShut`; theorems
    `C11Dead.wire_frozen_after_shut`, `send_after_shut_fails`): these runs are compared with the model like all others.  Harness
    bookkeeping, used by the ORACLE only: a TransportFail of such a call was not injected by the harness, and is legitimate."""
    return {(t, c) for t, c in r.get('dead_writes', [])}


def progs_str(case):
    return ' / '.join(' '.join(p) for p in case['progs'])


# ---------------------------------------------------------------------------------------------
# which code shape is under test (selects the model variant the driver is run with)

_VARIANT = None
_VARIANT_EVIDENCE = {}


def _held_during(steps, tid, kind):
    """is every `kind` step of thread `tid` executed between an `acq` and the following `rel` of that thread?"""
    held, seen, inside = False, False, True
    for t, k in steps:
        if t != tid:
            continue
        if k == 'acq':
            held = True
        elif k == 'rel':
            held = False
        elif k == kind:
            seen = True
            inside = inside and held
    return seen and inside


def _first_held(steps, tid, kind):
    """is the first `kind` step of thread `tid` executed while that thread holds the lock?"""
    held = False
    for t, k in steps:
        if t != tid:
            continue
        if k == 'acq':
            held = True
        elif k == 'rel':
            held = False
        elif k == kind:
            return held
    return False


def _before(steps, tid, a, b, after=None):
    """does thread `tid` execute its first `a` before its first `b` (both counted from its first `after` step on)?"""
    seq = [k for t, k in steps if t == tid]
    if after is not None:
        if after not in seq:
            return False
        seq = seq[seq.index(after):]
    return a in seq and b in seq and seq.index(a) < seq.index(b)


def detect_variant():
    """Observed, not assumed: single-threaded probe runs on the real code under the scheduler.
         bit 0  compressUnderLock: in a compressed `send_text` the accesses to the shared zlib object
                (`compress`, `flush`) happen while the thread holds the write lock
         bit 1  closeAtomic: `close()` stores `closing = True` while it still holds the write lock (right
                after the Close frame), the state checks of `session.write` read `closing` before
                `closed`, AND the reply path stores `closed = True` before `closing = False`
       (the source shape is irrelevant; whatever refactoring produced it, the step log decides).
       The model variant only selects which compiled programs the correspondence compares against: a
       wrong guess shows up as model/real disagreements, never as a hidden failure."""
    global _VARIANT
    if _VARIANT is not None:
        return _VARIANT
    m = 'a' * 40
    r = sched.run_real(dict(z=1, progs=[['st1=' + m.encode().hex()]], schedule=[], mode='sync'))
    cu = _held_during(r['steps'], 0, 'z:compress') and _held_during(r['steps'], 0, 'z:flush')
    r2 = sched.run_real(dict(z=0, progs=[['cl=1000,'], ['rc=1000,']], schedule=[0] * 40 + [1] * 60, mode='sync'))
    ca = (_first_held(r2['steps'], 0, 'wr:closing=1') and _before(r2['steps'], 1, 'wr:closed=1', 'wr:closing=0')
          and _before(r2['steps'], 0, 'rd:closing', 'rd:closed', after='acq'))
    _VARIANT = ('1' if cu else '0') + ('1' if ca else '0')
    _VARIANT_EVIDENCE.update(compress_probe=' '.join('%d:%s' % s for s in r['steps']),
                             close_probe=' '.join('%d:%s' % s for s in r2['steps']))
    return _VARIANT


def model_line(case, steps, variant=None):
    """the model is run on the schedule that was effectively executed (one entry per sync step,
    `blocked` no-ops included)"""
    variant = variant or detect_variant()
    return 'threads v=%s z=%d%s | %s | %s' % (variant, case['z'], env_keys(case), progs_str(case), ''.join(str(t) for t, _ in steps))


def env_keys(case):
    """the socket of the case as driver keys: n=<chunks per sendall> nn=<t.c:n,..> fail=<t.c.k,..> (nothing = 2 chunks, no failure)"""
    out = ''
    nspec = case.get('n', 2)
    if isinstance(nspec, dict):
        out += ' n=%d' % int(nspec.get('*', 2))
        per = ['%s:%d' % (k, int(v)) for k, v in sorted(nspec.items()) if k != '*']
        if per:
            out += ' nn=' + ','.join(per)
    elif int(nspec) != 2:
        out += ' n=%d' % int(nspec)
    if case.get('fail'):
        out += ' fail=' + ','.join('%d.%d.%d' % (t, c, k) for t, c, k in case['fail'])
    return out


def more_of(case, t, c):
    nspec = case.get('n', 2)
    if isinstance(nspec, dict):
        n = int(nspec.get('%d.%d' % (t, c), nspec.get('*', 2)))
    else:
        n = int(nspec)
    return max(1, n) - 1


def fail_of(case, t, c):
    for a, b, k in case.get('fail', []):
        if (a, b) == (t, c):
            return k
    return None


def groups_of(tags):
    """maximal runs of chunks of one call, a run ending with the call's last chunk: (tid, call, chunks before the last, last written)"""
    gs, cur = [], None
    for (t, c, h) in tags:
        if cur is not None and (t, c) == (cur[0], cur[1]):
            if h == 1:
                gs.append((cur[0], cur[1], cur[2], True)); cur = None
            else:
                cur = (t, c, cur[2] + 1)
        else:
            if cur is not None:
                gs.append((cur[0], cur[1], cur[2], False)); cur = None
            if h == 1:
                gs.append((t, c, 0, True))
            else:
                cur = (t, c, 1)
    if cur is not None:
        gs.append((cur[0], cur[1], cur[2], False))
    return gs


def enum_line(case, pb=None, variant=None):
    variant = variant or detect_variant()
    return 'threads-enum v=%s z=%d%s pb=%s | %s' % (variant, case['z'], env_keys(case), '-' if pb is None else pb, progs_str(case))


# ---------------------------------------------------------------------------------------------
# canonical form of a real run (same token format as Driver.Thr.runThreads)

def _frame_first_byte(chunks, tid, call):
    """first byte of the frame of (tid, call): the first byte of its first non-empty chunk on the wire"""
    for t, c, h, hx in chunks:
        if (t, c) == (tid, call) and hx:
            return bytes.fromhex(hx)[0]
    return None


def zbook(r):
    """from the recorded calls on the zlib objects: (tid, call) -> (context before the flush, content of the block)"""
    per_obj = {}
    cur = None
    out = {}
    for c in r['zcalls']:
        o = c['obj']
        st = per_obj.setdefault(o, dict(ctx=b'', pend=b''))
        if c['kind'] == 'compress':
            st['pend'] += bytes.fromhex(c['data'])
        elif c['kind'] == 'flush':
            out[(c['tid'], c['call'])] = (st['ctx'], st['pend'])
            st['ctx'] += st['pend']
            st['pend'] = b''
        # 'reset': the new object starts empty (its id is new)
    return out


def dataflow_problems(r):
    """thread-local data flow of a compressed send: the payload written is what that call's own
    compress() + flush() returned, minus the 4-byte tail"""
    probs = []
    outs = {}
    for c in r['zcalls']:
        if c['kind'] in ('compress', 'flush'):
            outs[(c['tid'], c['call'])] = outs.get((c['tid'], c['call']), b'') + bytes.fromhex(c['out'])
    for w in r.get('sendalls', []):
        key = (w['tid'], w['call'])
        data = bytes.fromhex(w['data'])
        try:
            f = decode_client_frames(data)
        except ClientFrameError as e:
            probs.append('sendall data of %r is not one frame: %s' % (key, e))
            continue
        if len(f) != 1:
            probs.append('sendall data of %r holds %d frames' % (key, len(f)))
        elif f[0]['rsv1'] and f[0]['payload'] != outs.get(key, b'')[:-4]:
            probs.append('compressed payload of %r is not the output of its own compress()+flush()' % (key,))
    return probs


def merged_chunks(r):
    """the frame chunks with the chunks of the HTTP request (pre-connect cases; empty hex, marked) put back where they were written"""
    chunks = [(t, c, h, hx, False) for t, c, h, hx in r['chunks']]
    out, k = [], 0
    req = list(r.get('request', []))
    for i in range(len(chunks) + 1):
        while k < len(req) and req[k][4] == i:
            t, c, h, hx, _ = req[k]
            out.append((t, c, h, '', True))
            k += 1
        if i < len(chunks):
            out.append(chunks[i])
    return out


def canon_real(case, r):
    toks = ['x%d:%s' % (t, k) for t, k in r['steps']]
    chunks = r['chunks']
    allc = merged_chunks(r)
    reqs = {(t, c) for t, c, h, hx, q in allc if q}

    def first_byte(t, c):
        return None if (t, c) in reqs else _frame_first_byte(chunks, t, c)
    for t, c, h, hx, q in allc:
        b0 = first_byte(t, c)
        z = b0 is not None and (b0 & 0x40)
        toks.append('W%d.%d%s:%s' % (t, c, 'ab'[h], 'req' if q else ('z' if z else hx)))
    zb = zbook(r)
    for t, c, h, hx in chunks:
        if h == 1:
            b0 = _frame_first_byte(chunks, t, c)
            if b0 is not None and (b0 & 0x40):
                ctx, out = zb.get((t, c), (b'?', b'?'))
                toks.append('F%d.%d:%d:%s:%s' % (t, c, b0 & 15, ctx.hex(), out.hex()))
    wrote = {(t, c) for t, c, h, _, _ in allc if h == 1}
    for t in sorted(r['results']):
        for i, name in enumerate(r['results'][t]):
            toks.append('R%d.%d:%s:%s' % (t, i, name, 'w' if (t, i) in wrote else '-'))
    tags = [(t, c, h) for t, c, h, _, _ in allc]
    gs = groups_of(tags)

    def g_whole(g):
        return g[3] and g[2] == more_of(case, g[0], g[1])

    def g_torn(g):
        return (not g[3]) and fail_of(case, g[0], g[1]) == g[2] and g[2] <= more_of(case, g[0], g[1])
    whole = all(g_whole(g) or g_torn(g) for g in gs[:-1])
    if gs:
        g = gs[-1]
        whole = whole and (g_whole(g) or g_torn(g) or ((not g[3]) and g[2] <= more_of(case, g[0], g[1])))
    closes = 0
    after = False
    first_close = None
    for k, (t, c, h) in enumerate(tags):
        b0 = first_byte(t, c)
        is_close = b0 is not None and (b0 & 15) == 8
        if h == 1 and is_close:
            closes += 1
        if first_close is None and is_close:
            first_close = k
    if first_close is not None:
        rest = tags[first_close + 1:]
        t, c, h = tags[first_close]
        if not (rest == [] or (rest == [(t, c, 1)] and h == 0)):
            after = True
    afterw = False
    for k, (t, c, h) in enumerate(tags):
        b0 = first_byte(t, c)
        if h == 1 and b0 is not None and (b0 & 15) == 8 and k + 1 < len(tags):
            afterw = True
    fl = r['flags']
    toks.append('END:closing=%d:closed=%d:sock=%d:shut=%d:lock=%s:whole=%d:closes=%d:after=%d:afterw=%d' % (
        fl['closing'], fl['closed'], fl['sock'], fl['shut'], '-' if fl['lock'] is None else fl['lock'],
        whole, closes, after, afterw))
    return ' '.join(toks)


# ---------------------------------------------------------------------------------------------
# alignment modulo pure reads: what is compared with the model is the OBSERVABLE behaviour

PURE_READS = ('rd:closing', 'rd:closed', 'rd:sock')
ALIGN_LIMIT = 24


def _is_step_tok(t):
    return len(t) > 2 and t[0] == 'x' and t[1].isdigit()


def split_steps(line_out):
    """(sync-step tokens, observable tokens) of a canonical line: the wire chunks, compressed-frame books, call results and the END
    summary are what a user can observe; the `x<t>:<kind>` tokens say through which shared-state accesses it came about"""
    toks = line_out.split(' ')
    return [t for t in toks if _is_step_tok(t)], [t for t in toks if not _is_step_tok(t)]


def _pure(tok):
    return tok is not None and tok.split(':', 1)[1] in PURE_READS


def realign_batch(items):
    """items: [(case, r, real_line)] whose model line (the model run on the thread ids of the real sync steps) differs from the real
    line.  A restructuring of the code that keeps its behaviour can add or drop *reads* of the shared flags / of `_sock` (a value kept
    in a local, a redundant re-check, a debug line): then the real step log and the model's programs are out of step although the
    real run is one the model admits.  Here the schedule is repaired read by read - a real read the model's program does not have at
    that point is dropped from the schedule (a read has no effect on anyone else), a read the model performs there and the real code
    does not is given to the model's thread - and the OBSERVABLE tokens are compared under the repaired schedule.  When a thread
    reads the same flag several times in a row, which of these reads is the one the model's single read stands for is not known:
    strategy `late` drops the later ones (the first value is the one used), strategy `early` drops the earlier ones (the last value
    is the one used); a case counts as aligned when one of the two gives the real observables.
    The theorems quantify over every schedule of the model, so a real run whose observables equal those of SOME model schedule is
    covered by them; a read that mattered (a dropped re-check) shows up as different observables on the racy schedules, which are
    all still run, and in the oracle.  Returns [(same_observables, edits, model_line_out or None)]."""
    first = _realign(items, 'late')
    again = [k for k, (ok, _, _) in enumerate(first) if not ok]
    if again:
        for k, res2 in zip(again, _realign([items[k] for k in again], 'early')):
            if res2[0]:
                first[k] = res2
    return first


def _realign(items, strategy):
    st = []
    for c, r, real_line in items:
        rs, robs = split_steps(real_line)
        st.append(dict(case=c, sched=[t for t, _ in r['steps']], rs=rs, robs=robs, edits=0, done=None, out=None))
    for _ in range(ALIGN_LIMIT + 1):
        todo = [p for p in st if p['done'] is None]
        if not todo:
            break
        outs = runner.model_run([model_line(p['case'], [(t, None) for t in p['sched']]) for p in todo])
        for p, out in zip(todo, outs):
            mm, _peer = strip_peer(out)
            ms, mobs = split_steps(mm)
            rs = p['rs']
            i = next((k for k in range(max(len(ms), len(rs))) if k >= len(ms) or k >= len(rs) or ms[k] != rs[k]), None)
            if i is None:
                p['done'] = (mobs == p['robs'])
                p['out'] = out
                continue
            rk = rs[i] if i < len(rs) else None
            mk = ms[i] if i < len(ms) else None
            if p['edits'] >= ALIGN_LIMIT:
                p['done'] = False
            elif _pure(rk):
                j = i
                if strategy == 'early':
                    # the previous step of the same thread, if it is the same read: drop that one, keep this one
                    pre = rk.split(':', 1)[0]
                    prev = next((k for k in range(i - 1, -1, -1) if rs[k].split(':', 1)[0] == pre), None)
                    if prev is not None and rs[prev] == rk:
                        j = prev
                del p['sched'][j]
                del rs[j]
                p['edits'] += 1
            elif _pure(mk):
                p['sched'].insert(i, int(mk[1:mk.index(':')]))
                rs.insert(i, mk)
                p['edits'] += 1
            else:
                p['done'] = False
    return [(bool(p['done']), p['edits'], p['out']) for p in st]


def hard_problems(probs):
    """problems of a real run that make it unusable (a worker died); the others - an access from a source line the AST map does not
    know, an access kind without a source location - say that the code is shaped differently from what the map expects (every
    access is recorded by the stand-in objects all the same): reported as a note and a count, not as a disagreement"""
    return [p for p in probs if not (p.startswith('unmapped ') or p.startswith('no source location found'))]


def strip_peer(model_line_out):
    i = model_line_out.rfind(':peer=')
    return (model_line_out[:i], model_line_out[i + 6:]) if i >= 0 else (model_line_out, '?')


# ---------------------------------------------------------------------------------------------
# oracle (model-free): judges what the real code put on the wire

def expected_of(tok):
    """(opcode, message) a call sends when it sends"""
    c = sched.parse_call(tok)
    k = c[0]
    if k in ('st1', 'st0'):
        return (1, c[1])
    if k in ('sb1', 'sb0'):
        return (2, c[1])
    if k == 'pi':
        return (9, c[1])
    if k in ('po', 'rp'):
        return (10, c[1])
    if k in ('cl', 'rc'):
        return (8, close_payload(c[1], c[2]))
    if k == 'tk':
        return (9, b'')
    if k in ('rm', 'rm2', 'cn', 'ab'):
        return None         # the loop receives a message / connects: no frame is written
    raise ValueError(tok)


def wire_runs(case, r):
    """the chunks on the wire as runs of one call each (a run ends with that call's last chunk), with what the
    harness knows about the sendall they come from: returns (runs, fails); run = dict(tid, call, bytes, done, torn_ok)"""
    fails = []
    runs = []
    for t, c, h, hx in r['chunks']:
        if runs and not runs[-1]['done'] and (runs[-1]['tid'], runs[-1]['call']) == (t, c):
            runs[-1]['bytes'] += bytes.fromhex(hx)
        else:
            runs.append(dict(tid=t, call=c, bytes=bytes.fromhex(hx), done=False))
        if h == 1:
            runs[-1]['done'] = True
    injected = {(w['tid'], w['call']): w for w in r.get('sendalls', []) if w['failed']}
    seen = set()
    for k, run in enumerate(runs):
        key = (run['tid'], run['call'])
        if key in seen:
            fails.append(('torn-wire', 'the chunks of call %d of thread %d are not contiguous on the wire (interleaved)' % (key[1], key[0])))
        seen.add(key)
        if not run['done']:
            w = injected.get(key)
            if w is not None and bytes.fromhex(w['data'])[:w['written']] == run['bytes']:
                run['torn_ok'] = True       # the head of the frame of a sendall the socket was told to fail
            else:
                fails.append(('torn-wire', 'call %d of thread %d left a partial frame on the wire (%d bytes) although its sendall was not made to fail' % (
                    key[1], key[0], len(run['bytes']))))
    return runs, fails


def wire_messages(case, r):
    """decode the wire with the reference codec and a zlib peer; torn heads of frames whose sendall was made to fail
       by the harness are set aside (the peer could not read past them; the property is about everybody else's frames).
       returns (messages [(opcode, bytes, tid, call)] in wire order, failures [(cls, what)])"""
    runs, fails = wire_runs(case, r)
    if fails:
        return None, fails
    frames = []
    for run in runs:
        if not run['done']:
            continue
        try:
            f = decode_client_frames(run['bytes'])
        except ClientFrameError as e:
            return None, [('torn-wire', 'the bytes written by call %d of thread %d are not a client frame: %s' % (run['call'], run['tid'], e))]
        if len(f) != 1:
            return None, [('torn-wire', 'the bytes written by call %d of thread %d are %d frames' % (run['call'], run['tid'], len(f)))]
        f[0]['tid'], f[0]['call'] = run['tid'], run['call']
        frames.append(f[0])
    peer = DeflatePeer(client_no_takeover=case['z'] in (2, 4))
    msgs = []
    broken = False          # the peer's inflater has failed: later compressed frames are lost as well
    for k, f in enumerate(frames):
        if f['rsv2'] or f['rsv3'] or not f['fin']:
            fails.append(('bad-frame', 'frame %d has fin=%d rsv2=%d rsv3=%d' % (k, f['fin'], f['rsv2'], f['rsv3'])))
        if f['rsv1']:
            if case['z'] == 0 or f['opcode'] not in (1, 2):
                fails.append(('bad-frame', 'RSV1 on frame %d (opcode %d) without negotiated compression' % (k, f['opcode'])))
                msgs.append((f['opcode'], None))
                continue
            if broken:
                msgs.append((f['opcode'], None))
                continue
            try:
                msgs.append((f['opcode'], peer.decompress(f['payload'])))
            except zlib.error as e:
                fails.append(('compress-outside-lock', 'the peer cannot inflate frame %d of %d in wire order: %s' % (k, len(frames), e)))
                msgs.append((f['opcode'], None))
                broken = True
        else:
            msgs.append((f['opcode'], f['payload']))
    return msgs, fails


def judge_wire(case, r):
    """C11 rules.  returns list of (cls, what)"""
    msgs, fails = wire_messages(case, r)
    if msgs is None:
        return fails
    progs = case['progs']
    loop = {t for t, p in enumerate(progs) if sched.is_loop_prog(p)}
    must, may, mustnot = [], [], []
    per_thread = {}
    failed_sendalls = {(w['tid'], w['call']) for w in r.get('sendalls', []) if w['failed']}
    for t, p in enumerate(progs):
        res = r['results'].get(t, [])
        for i, tok in enumerate(p):
            e = expected_of(tok)
            if e is None:
                continue
            if t in loop or tok.startswith('cl='):
                if i < len(res) or t not in loop:
                    may.append((t, i, e))
                continue
            if i >= len(res):
                fails.append(('incomplete', 'call %d of thread %d did not return' % (i, t)))
            elif res[i] == 'ok':
                must.append((t, i, e))
                if (t, i) in failed_sendalls:
                    fails.append(('swallowed-transport-fail', 'the sendall of call %d of thread %d (%s) was made to fail but the call returned ok' % (i, t, tok)))
                if (t, i) in dead_writes(r):
                    fails.append(('swallowed-transport-fail', 'the sendall of call %d of thread %d (%s) was attempted on the socket the loop had shut down, but the call returned ok' % (i, t, tok)))
            else:
                mustnot.append((t, i, e))
                if res[i] == 'TransportFail':
                    if (t, i) not in failed_sendalls and (t, i) not in dead_writes(r):
                        fails.append(('loser-wrong-error', 'call %d of thread %d (%s) raised TransportFail although its sendall was not made to fail' % (i, t, tok)))
                elif res[i] not in WS_ERRORS:
                    fails.append(('loser-wrong-error', 'call %d of thread %d (%s) raised %s, not a WebSocketError' % (i, t, tok, res[i])))
    remaining = list(enumerate(msgs))
    zcls = 'compress-outside-lock' if case['z'] else 'wrong-message'

    def take(e):
        for k, (pos, m) in enumerate(remaining):
            if m == e:
                remaining.pop(k)
                return pos
        return None
    for t, i, e in must:
        pos = take(e)
        if pos is None:
            comp = progs[t][i][:3] in ('st1', 'sb1') and case['z']
            fails.append((zcls if comp else 'missing-message',
                          'call %d of thread %d (%s) returned ok but the peer does not receive its message' % (i, t, progs[t][i])))
        else:
            per_thread.setdefault(t, []).append((i, pos))
    for t, i, e in may:
        pos = take(e)
        if pos is not None:
            per_thread.setdefault(t, []).append((i, pos))
    written_by = {(t, c) for t, c, h, _ in r['chunks'] if h == 1}      # which call's sendall completed (harness bookkeeping)
    for t, i, e in mustnot:
        comp = progs[t][i][:3] in ('st1', 'sb1') and case['z']
        if (t, i) in written_by:
            take(e)
            fails.append(('error-but-written', 'call %d of thread %d (%s) raised %s but its frame was written' % (i, t, progs[t][i], r['results'][t][i])))
        elif take(e) is not None:
            # the refused call wrote nothing, yet the peer receives its message: it travelled in another
            # thread's compressed frame (the shared compression object was fed by both)
            fails.append((zcls if comp else 'error-but-written',
                          'call %d of thread %d (%s) raised %s but the peer receives its message%s' % (
                              i, t, progs[t][i], r['results'][t][i], ' inside another call\'s compressed frame' if comp else '')))
    for pos, m in remaining:
        fails.append((zcls if (m[1] is None or case['z']) else 'unexpected-message',
                      'frame %d on the wire (opcode %d, %r) is not the message of any call' % (pos, m[0], m[1])))
    for t, lst in per_thread.items():
        lst.sort()
        if [p for _, p in lst] != sorted(p for _, p in lst):
            fails.append(('thread-order', 'messages of thread %d are not on the wire in call order' % t))
    fails += judge_received(case, r)
    # name the cause when the step log shows it: the receiving thread touched the compressor / a sender the decompressor
    if any(t in loop and k.startswith('z:') for t, k in r['steps']):
        fails = [('receive-touches-compressor' if cls == 'compress-outside-lock' else cls, what) for cls, what in fails]
    if any(t not in loop and k.startswith('zd:') for t, k in r['steps']):
        fails = [('send-touches-decompressor' if cls == 'receive-corrupted' else cls, what) for cls, what in fails]
    return fails


def judge_received(case, r):
    """the receive side while others send: the application gets exactly the compressed messages the server sent, in order"""
    sent, got = r.get('server_sent', []), r.get('received', [])
    fails = []
    if got != sent[:len(got)]:
        k = next(i for i in range(len(got)) if i >= len(sent) or got[i] != sent[i])
        fails.append(('receive-corrupted', 'compressed message %d from the server was delivered as %r, sent was %r' % (
            k, bytes.fromhex(got[k])[:60], bytes.fromhex(sent[k])[:60] if k < len(sent) else None)))
    else:
        for t, p in enumerate(case['progs']):
            if sched.is_loop_prog(p):
                res = r['results'].get(t, [])
                n_rm = sum(1 for i, tok in enumerate(p) if tok.split('=')[0] in ('rm', 'rm2') and i < len(res))
                if n_rm > len(got):
                    fails.append(('receive-corrupted', 'the loop processed %d compressed messages but delivered %d' % (n_rm, len(got))))
    return fails


def judge_close(case, r):
    """C12 rules.  returns list of (cls, what)"""
    msgs, fails = wire_messages(case, r)
    if msgs is None:
        return fails
    fails = [f for f in fails if f[0] != 'compress-outside-lock']       # C11's business
    closes = [k for k, m in enumerate(msgs) if m[0] == 8]
    if len(closes) > 1:
        fails.append(('two-closes', '%d Close frames on the wire' % len(closes)))
    if closes:
        later = [m for m in msgs[closes[0] + 1:] if m[0] != 8]
        if later:
            names = {1: 'Text', 2: 'Binary', 9: 'Ping', 10: 'Pong'}
            fails.append(('data-after-close', 'frame(s) written after the Close frame: %s' % ', '.join(names.get(m[0], str(m[0])) for m in later)))
    # not even the torn head of a frame may follow a complete Close frame
    runs, _ = wire_runs(case, r)
    seen_close = False
    for run in runs:
        if seen_close and not run['done']:
            fails.append(('data-after-close', 'a partial frame of call %d of thread %d was written after the Close frame' % (run['call'], run['tid'])))
        if run['done'] and run['bytes'] and (run['bytes'][0] & 15) == 8:
            seen_close = True
    # a close() that has returned - written, failed or refused - leaves the connection closing or closed
    for t, p in enumerate(case['progs']):
        res = r['results'].get(t, [])
        for i, tok in enumerate(p):
            if tok.startswith('cl=') and i < len(res) and not (r['flags']['closing'] or r['flags']['closed']):
                fails.append(('close-returned-not-closing', 'close() (call %d of thread %d) returned %s but the websocket is neither closing nor closed' % (i, t, res[i])))
                break
    # losers: a send that is not on the wire failed with a WebSocketError; a send that returned ok is on the wire
    for cls, what in judge_wire(case, r):
        if cls in ('missing-message', 'error-but-written', 'loser-wrong-error', 'incomplete', 'torn-wire', 'bad-frame', 'swallowed-transport-fail'):
            fails.append((cls, what))
    return fails


def after_torn_close(case, r):
    """NOT a failure class (see Properties/C12_Fail.lean `torn_close_then_data`): frames written after the TORN head of a
    Close frame whose sendall the harness made fail - the window between the release of the lock by the failed
    `session.write(..., closing=True)` and the `closing = True` of `WebSocket.close`.  Returns the list of what followed."""
    runs, _ = wire_runs(case, r)
    out, torn = [], False
    for run in runs:
        if torn:
            out.append((run['tid'], run['call'], 'whole' if run['done'] else 'partial', (run['bytes'][0] & 15) if run['bytes'] else None))
        if not run['done'] and run['bytes'] and (run['bytes'][0] & 15) == 8:
            torn = True
    return out


# ---------------------------------------------------------------------------------------------
# schedules

def interleaved(steps):
    """a run is non-trivial when some thread was preempted: thread a runs, another runs, a runs again"""
    seen, last = set(), None
    for t, k in steps:
        if k == 'blocked':
            continue
        if t != last and t in seen:
            return True
        seen.add(t)
        last = t
    return False


def random_line_schedule(rng, nthreads, ncalls):
    """a line-granularity schedule: a few random preemption points over the ~100 lines of each call"""
    length = 110 * ncalls
    style = rng.random()
    out = []
    if style < 0.5:
        # few switches at random places
        nsw = rng.randint(1, 5)
        cuts = sorted(rng.randrange(1, length) for _ in range(nsw))
        t = rng.randrange(nthreads)
        prev = 0
        for c in cuts + [length]:
            out += [t] * (c - prev)
            prev = c
            t = rng.choice([u for u in range(nthreads) if u != t] or [t])
    elif style < 0.8:
        # random bursts
        while len(out) < length:
            out += [rng.randrange(nthreads)] * rng.randint(1, 25)
    else:
        out = [rng.randrange(nthreads) for _ in range(length)]
    return out


def sock(c):
    """the socket keys of a case (chunks per sendall, injected failures), to be carried over to derived cases"""
    return {k: c[k] for k in ('n', 'fail') if k in c}


def random_sync_cases(rng, shapes, n):
    """sync-granularity schedules drawn uniformly, NOT taken from the model's enumerator: a thread is
    also scheduled while another one is inside the critical section (on the real code that entry is a
    `blocked` no-op; if the lock did not exclude, the frames would tear)"""
    out = []
    for k in range(n):
        c = shapes[k % len(shapes)]
        nthreads = len(c['progs'])
        steps = 14 * sum(len(p) for p in c['progs'])
        out.append(dict(z=c['z'], progs=c['progs'], mode='sync', family='random-sync',
                        schedule=[rng.randrange(nthreads) for _ in range(steps)], **sock(c)))
    return out


def enumerate_cases(base_cases, model_ok, rng, cap=None):
    """base case + preemption bound -> all its maximal sync-level schedules (from the model's
    enumerator; the real code is then run on each).  Without a model: random sync schedules."""
    out = []
    if model_ok:
        lines = [enum_line(c, c.get('pb')) for c in base_cases]
        res = runner.model_run(lines)
        for c, l in zip(base_cases, res):
            scheds = [s for s in l.split(' ') if s]
            if cap and len(scheds) > cap:
                scheds = rng.sample(scheds, cap)
                c = dict(c, sampled=True)
            for s in scheds:
                out.append(dict(z=c['z'], progs=c['progs'], schedule=[int(ch) for ch in s], mode='sync', family=c.get('family', ''), **sock(c)))
            c['n_schedules'] = len(scheds)
    else:
        for c in base_cases:
            n = len(c['progs'])
            for _ in range(30):
                out.append(dict(z=c['z'], progs=c['progs'], schedule=[rng.randrange(n) for _ in range(60)], mode='sync', family=c.get('family', ''), **sock(c)))
    return out


def same_observables(model_out, real_line):
    """equal lines, or - after `align_models` replaced the model's output by its run on the repaired schedule - equal observables"""
    return model_out == real_line or (model_out.startswith('~aligned~ ') and split_steps(model_out[10:])[1] == split_steps(real_line)[1])


def align_models(res, pairs, models):
    """pairs: [(case, real run)], models: the model's outputs on the real step sequences (None = no model).  Where the lines differ, try
    the alignment modulo pure reads; an output that agrees on the observables after it is returned marked `~aligned~ `."""
    bad = [i for i, ((c, r), m) in enumerate(zip(pairs, models)) if m is not None and strip_peer(m)[0] != canon_real(c, r)]
    if not bad:
        return models
    models = list(models)
    fixed = realign_batch([(pairs[i][0], pairs[i][1], canon_real(*pairs[i])) for i in bad])
    n = 0
    for i, (ok, edits, out) in zip(bad, fixed):
        if ok:
            models[i] = '~aligned~ ' + out
            n += 1
            res.count('aligned_modulo_pure_reads_edits_%d' % edits)
    if n:
        res.count('cases_compared_after_alignment_modulo_pure_reads', n)
        note = ('the real step log and the model programs differ in READS of the shared flags / of _sock on some runs; those runs were '
                'compared with the model on the schedule repaired read by read (thrutil.realign_batch): observables equal')
        if note not in res.notes:
            res.notes.append(note)
    return models


def note_soft_problems(res, probs):
    soft = [p for p in probs if p not in hard_problems(probs)]
    for p in soft:
        res.count('code_shape_note: ' + re.sub(r'thread \d+ ', '', p)[:120])


def run_and_compare(res, cases, judge, model_ok):
    """run every case on the real code and on the model; record diffs and oracle failures"""
    v = detect_variant()
    res.count('model_variant_' + v)
    note = ('code shape observed by the probe runs: compressUnderLock=%s closeAtomic=%s (model driven with v=%s)' % (v[0], v[1], v))
    if note not in res.notes:
        res.notes.append(note)
    reals = runner.parallel_map('thrutil', 'real_case', cases, chunk=25)
    lines, idx = [], []
    for k, (c, r) in enumerate(zip(cases, reals)):
        if '__crash__' in r:
            res.crashes.append(r)
            continue
        # cases that start before the connection exists (`cn`, model state `initPre`) and cases that abandon the loop (`ab`) are
        # compared with the thread model like all others
        lines.append(model_line(c, r['steps']))
        idx.append(k)
    models = runner.model_run(lines) if (model_ok and lines) else [None] * len(lines)
    models = align_models(res, [(cases[k], reals[k]) for k in idx], models)
    seen_cls = {}
    for k, line, m in zip(idx, lines, models):
        c, r = cases[k], reals[k]
        if is_pre(c):
            res.count('model_compared_cases_starting_before_connect_or_abandoning')
        if dead_writes(r):
            # formerly judged by the oracle alone (the model had no failing write on a shut socket)
            res.count('model_compared_write_attempted_on_socket_already_shut_by_the_loop' if m is not None
                      else 'NOT_model_compared_write_attempted_on_socket_already_shut_by_the_loop')
        key = (c['z'], progs_str(c), tuple(t for t, _ in r['steps']), c['mode'], env_keys(c))
        res.case(key, nontrivial=interleaved(r['steps']))
        res.count('mode_' + c['mode'])
        res.count('z%d' % c['z'])
        res.count('threads_%d' % len(c['progs']))
        if c.get('family'):
            res.count('family_' + c['family'])
        probs = list(r['problems']) + dataflow_problems(r)
        if r.get('lock_stores'):
            # the mechanism the property is anchored in is ONE lock per session: a store of a new lock object after the constructor
            # is a change of that mechanism (searched for a failing schedule by the `before-connect` families)
            probs.append('session._lock was replaced by a new lock object after the constructor, at %s' % ', '.join(sorted(set(r['lock_stores']))))
        real_line = canon_real(c, r)
        note_soft_problems(res, probs)
        probs = hard_problems(probs)
        if probs:
            res.diffs.append(dict(input=c, real=real_line[-1500:], model='(harness) ' + '; '.join(probs)[:800]))
        res.traces_validated += 1
        fails = judge(c, r)
        if c.get('fail'):
            res.count('socket_failures_injected')
            if after_torn_close(c, r):
                res.count('observed_frames_after_a_TORN_close (documented window, C12Fail.torn_close_then_data)')
        if c.get('n', 2) != 2:
            res.count('chunks_per_sendall_%s' % (c['n'] if not isinstance(c['n'], dict) else 'mixed'))
        if m is not None:
            mm, peer = strip_peer(m)
            if not same_observables(mm, real_line):
                res.diffs.append(dict(input=c, line=line, real=real_line[-2500:], model=mm[-2500:]))
            elif peer == 'ok' and any(cls in ('compress-outside-lock', 'receive-touches-compressor') for cls, _ in fails):
                # the abstract peer of the model says every block is decodable, zlib disagrees
                res.diffs.append(dict(input=c, line=line, real='zlib peer fails', model='peer=ok'))
            res.count('model_peer_' + peer)
        # a recorded finding covers exactly the racy windows the present-variant model reproduces
        # (proved as `fails_*` / `compress_fails_*` in Lean): a failure on a schedule where the real
        # code and the model disagree is a different violation and gets its own class
        same_as_model = (m is None) or same_observables(strip_peer(m)[0], real_line)
        if not same_as_model:
            fails = [(cls + ':not-in-model', what) for cls, what in fails]
        for cls, what in fails:
            n = seen_cls.get(cls, 0)
            seen_cls[cls] = n + 1
            res.count('oracle_' + cls)
            if n < 40:      # keep the evidence file small; every failure is still counted
                res.failures.append(dict(cls=cls, what=what, input=c, observed=real_line[-1200:],
                                         expected='see property text'))
    return reals


def replay(rp):
    case = rp.get('input')
    if not isinstance(case, dict) and isinstance(rp.get('first_disagreement'), dict):
        case = rp['first_disagreement'].get('input')
    if not isinstance(case, dict):
        print('replay file names a broken obligation, no concrete input: %s' % rp.get('broken'))
        return 0
    r = sched.run_real(case)
    print('programs : %s   (deflate mode z=%d, granularity %s)' % (progs_str(case), case['z'], case['mode']))
    if sock(case):
        print('socket   : %s' % (env_keys(case).strip() or 'n=2'))
    print('schedule : %s' % ''.join(str(t) for t in case['schedule']))
    print('sync steps executed: ' + ' '.join('%d:%s' % s for s in r['steps']))
    print('wire     : ' + ' '.join('T%d.%d%s:%s' % (t, c, 'ab'[h], hx) for t, c, h, hx in r['chunks']))
    print('results  : %r' % r['results'])
    print('flags    : %r' % r['flags'])
    for name, j in (('C11', judge_wire), ('C12', judge_close)):
        for cls, what in j(case, r):
            print('%s oracle: [%s] %s' % (name, cls, what))
    return 0
